(* CodecRProofs.v — "compressed segment indexes are exact accelerators",
   R-tree codec: searching the bytes produced by compressing an R-tree gives
   exactly the candidate list of the tree traversal, every read in bounds.
   Plus: the trees built by successive inserts are well shaped. *)
From GJ Require Import Base Kernel Index.
From Coq Require Import Arith Permutation.

(* ------------------------------------------------------------------ *)
(* Generic list helpers                                                 *)

Lemma firstn_app_exact {A} (n : nat) (l r : list A) :
  length l = n -> firstn n (l ++ r) = l.
Proof.
  intros <-. rewrite firstn_app, Nat.sub_diag, firstn_all, firstn_O, app_nil_r.
  reflexivity.
Qed.

Lemma skipn_app_exact {A} (l r : list A) : skipn (length l) (l ++ r) = r.
Proof.
  rewrite skipn_app, Nat.sub_diag, skipn_all. reflexivity.
Qed.

(* ------------------------------------------------------------------ *)
(* "xs sits in data at absolute address a"                              *)

Definition at_addr (data : list Z) (a : Z) (xs : list Z) : Prop :=
  exists pre post, data = pre ++ xs ++ post /\ a = Z.of_nat (length pre).

Lemma at_addr_app data a xs ys :
  at_addr data a (xs ++ ys) ->
  at_addr data a xs /\ at_addr data (a + Z.of_nat (length xs)) ys.
Proof.
  intros (pre & post & -> & ->). split.
  - exists pre, (ys ++ post). rewrite <- app_assoc. auto.
  - exists (pre ++ xs), post. split.
    + rewrite <- !app_assoc. reflexivity.
    + rewrite app_length, Nat2Z.inj_add. reflexivity.
Qed.

Lemma at_addr_app_n data a xs ys n :
  at_addr data a (xs ++ ys) -> Z.of_nat (length xs) = n ->
  at_addr data a xs /\ at_addr data (a + n) ys.
Proof. intros H <-. apply at_addr_app; assumption. Qed.

Lemma at_addr_eq data a a' xs : at_addr data a xs -> a = a' -> at_addr data a' xs.
Proof. intros H <-; assumption. Qed.

Lemma at_addr_bound data a xs :
  at_addr data a xs -> 0 <= a /\ a + Z.of_nat (length xs) <= Z.of_nat (length data).
Proof.
  intros (pre & post & -> & ->). rewrite !app_length, !Nat2Z.inj_add. lia.
Qed.

Lemma byte_at_nat data k : byte_at data (Z.of_nat k) = nth_error data k.
Proof.
  unfold byte_at. destruct (Z.ltb_spec (Z.of_nat k) 0) as [H|H]; [lia|].
  rewrite Nat2Z.id. reflexivity.
Qed.

Lemma at_addr_byte data a b xs : at_addr data a (b :: xs) -> byte_at data a = Some b.
Proof.
  intros (pre & post & -> & ->). rewrite byte_at_nat.
  rewrite nth_error_app2 by lia. rewrite Nat.sub_diag. reflexivity.
Qed.

Lemma at_addr_cons data a b xs : at_addr data a (b :: xs) -> at_addr data (a + 1) xs.
Proof.
  intros H. change (b :: xs) with ([b] ++ xs) in H.
  apply at_addr_app in H. exact (proj2 H).
Qed.

(* ------------------------------------------------------------------ *)
(* Number codec                                                         *)

Lemma le_bytes_length k n : length (le_bytes k n) = k.
Proof. unfold le_bytes. rewrite map_length, seq_length. reflexivity. Qed.

Lemma pow2_8S i : 2 ^ (8 * Z.of_nat (S i)) = 256 * 2 ^ (8 * Z.of_nat i).
Proof.
  replace (8 * Z.of_nat (S i)) with (8 + 8 * Z.of_nat i) by lia.
  rewrite Z.pow_add_r by lia. reflexivity.
Qed.

Lemma le_bytes_S k n : le_bytes (S k) n = n mod 256 :: le_bytes k (n / 256).
Proof.
  unfold le_bytes. rewrite <- cons_seq, <- seq_shift. cbn [map]. rewrite map_map.
  f_equal.
  - change (8 * Z.of_nat 0) with 0. rewrite Z.pow_0_r, Z.div_1_r. reflexivity.
  - apply map_ext. intros i. rewrite pow2_8S.
    rewrite Z.div_div; [reflexivity | lia | ].
    apply Z.pow_pos_nonneg; lia.
Qed.

Lemma read_le_at : forall k n data a,
  0 <= n < 2 ^ (8 * Z.of_nat k) ->
  at_addr data a (le_bytes k n) -> read_le data a k = Some n.
Proof.
  induction k as [|k IH]; intros n data a Hn Hat.
  - change (2 ^ (8 * Z.of_nat 0)) with 1 in Hn. cbn [read_le]. f_equal. lia.
  - rewrite le_bytes_S in Hat. cbn [read_le].
    rewrite (at_addr_byte _ _ _ _ Hat).
    rewrite (IH (n / 256)).
    + f_equal. pose proof (Z.div_mod n 256). lia.
    + rewrite pow2_8S in Hn. split.
      * apply Z.div_pos; lia.
      * apply Z.div_lt_upper_bound; lia.
    + eapply at_addr_cons; eassumption.
Qed.

(* the statement in "pre ++ _ ++ post" form *)
Lemma read_le_le_bytes k n pre post :
  0 <= n < 2 ^ (8 * Z.of_nat k) ->
  read_le (pre ++ le_bytes k n ++ post) (Z.of_nat (length pre)) k = Some n.
Proof. intros H. apply read_le_at; [assumption|]. exists pre, post. auto. Qed.

Lemma num_bytes_cases n : num_bytes n = 1 \/ num_bytes n = 2 \/ num_bytes n = 4.
Proof.
  unfold num_bytes. destruct (n <=? 255); [auto|]. destruct (n <=? 65535); auto.
Qed.

Lemma num_bytes_fit n : 0 <= n < 2 ^ 32 -> n < 2 ^ (8 * num_bytes n).
Proof.
  intros H. unfold num_bytes.
  destruct (Z.leb_spec n 255).
  - change (2 ^ (8 * 1)) with 256. lia.
  - destruct (Z.leb_spec n 65535).
    + change (2 ^ (8 * 2)) with 65536. lia.
    + change (2 ^ (8 * 4)) with (2 ^ 32). lia.
Qed.

Definition ib_ok (ib : Z) : Prop := ib = 1 \/ ib = 2 \/ ib = 4.

Lemma fits_mono n ib :
  ib_ok ib -> num_bytes n <= ib -> 0 <= n < 2 ^ 32 -> 0 <= n < 2 ^ (8 * ib).
Proof.
  intros Hib Hle Hn. pose proof (num_bytes_fit n Hn) as Hf.
  split; [lia|]. eapply Z.lt_le_trans; [exact Hf|].
  apply Z.pow_le_mono_r; [lia|].
  destruct (num_bytes_cases n) as [E|[E|E]]; rewrite E in *; lia.
Qed.

Lemma enc_num_length n ib : ib_ok ib -> Z.of_nat (length (enc_num n ib)) = ib.
Proof.
  intros [ -> | [ -> | -> ] ]; cbn [enc_num Z.eqb Pos.eqb]; rewrite le_bytes_length; reflexivity.
Qed.

Lemma read_num_at data a n ib :
  ib_ok ib -> 0 <= n < 2 ^ (8 * ib) ->
  at_addr data a (enc_num n ib) -> read_num data a ib = Some n.
Proof.
  intros [ -> | [ -> | -> ] ] Hn Hat.
  - change (read_num data a 1) with (read_le data a 1).
    apply read_le_at; assumption.
  - change (read_num data a 2) with (read_le data a 2).
    apply read_le_at; assumption.
  - change (read_num data a 4) with (read_le data a 4).
    apply read_le_at; assumption.
Qed.

Lemma read_num_enc_num n ib pre post :
  0 <= n < 2 ^ 32 -> ib_ok ib -> num_bytes n <= ib ->
  read_num (pre ++ enc_num n ib ++ post) (Z.of_nat (length pre)) ib = Some n.
Proof.
  intros Hn Hib Hle. apply read_num_at; [assumption| |].
  - apply fits_mono; assumption.
  - exists pre, post. auto.
Qed.

(* ------------------------------------------------------------------ *)

Section CodecR.
Variable rect_of : Z -> rect.
Variable fenc : Z -> list Z.
Variable fdec : list Z -> option Z.
Hypothesis fenc_len : forall x, length (fenc x) = 8%nat.
Hypothesis fdec_fenc : forall x, fdec (fenc x) = Some x.

Lemma read_f_at data a x : at_addr data a (fenc x) -> read_f fdec data a = Some x.
Proof.
  intros (pre & post & -> & ->). unfold read_f.
  destruct (Z.ltb_spec (Z.of_nat (length pre)) 0) as [H|H]; [lia|].
  rewrite Nat2Z.id, skipn_app_exact, firstn_app_exact by apply fenc_len.
  apply fdec_fenc.
Qed.

Lemma read_f_fenc x pre post :
  read_f fdec (pre ++ fenc x ++ post) (Z.of_nat (length pre)) = Some x.
Proof. apply read_f_at. exists pre, post. auto. Qed.

Lemma enc_box_length b : length (enc_box fenc b) = 32%nat.
Proof.
  destruct b as [[nx ny] [xx xy]]. unfold enc_box.
  rewrite !app_length, !fenc_len. reflexivity.
Qed.

Lemma enc_box_at data a nx ny xx xy rest :
  at_addr data a (enc_box fenc ((nx, ny), (xx, xy)) ++ rest) ->
  read_f fdec data a = Some nx /\ read_f fdec data (a + 8) = Some ny /\
  read_f fdec data (a + 16) = Some xx /\ read_f fdec data (a + 24) = Some xy /\
  at_addr data (a + 32) rest.
Proof.
  unfold enc_box. intros H.
  rewrite <- !app_assoc in H.
  apply at_addr_app_n with (n := 8) in H; [|rewrite fenc_len; reflexivity].
  destruct H as [H1 H].
  apply at_addr_app_n with (n := 8) in H; [|rewrite fenc_len; reflexivity].
  destruct H as [H2 H].
  apply at_addr_app_n with (n := 8) in H; [|rewrite fenc_len; reflexivity].
  destruct H as [H3 H].
  apply at_addr_app_n with (n := 8) in H; [|rewrite fenc_len; reflexivity].
  destruct H as [H4 H].
  repeat split.
  - apply read_f_at; assumption.
  - apply read_f_at; assumption.
  - apply read_f_at. eapply at_addr_eq; [eassumption|lia].
  - apply read_f_at. eapply at_addr_eq; [eassumption|lia].
  - eapply at_addr_eq; [eassumption|lia].
Qed.

(* ------------------------------------------------------------------ *)
(* Shape                                                                *)

Definition rleafkid (c : rnode) : Prop :=
  match c with RItem _ it => 0 <= it < 2 ^ 32 | RNode _ _ => False end.

Fixpoint rshape (h : nat) (n : rnode) {struct h} : Prop :=
  match n with
  | RItem _ _ => False
  | RNode _ kids =>
      (length kids <= 255)%nat /\
      match h with
      | O => Forall rleafkid kids
      | S h' => Forall (rshape h') kids
      end
  end.

(* ------------------------------------------------------------------ *)
(* Named versions of the local loops of rncsearch                       *)

Definition ritem_of (c : rnode) : Z :=
  match c with RItem _ it => it | RNode _ _ => 0 end.

Definition rnc_items (data : list Z) (ib : Z) : nat -> Z -> option (list Z) :=
  fix items (k : nat) (a : Z) : option (list Z) :=
    match k with
    | O => Some []
    | S k' => match read_num data a ib, items k' (a + ib) with
              | Some it, Some r => Some (it :: r)
              | _, _ => None
              end
    end.

Definition rnc_kids (rec : Z -> option (list Z)) (data : list Z)
  : nat -> Z -> option (list Z) :=
  fix kids (k : nat) (a : Z) : option (list Z) :=
    match k with
    | O => Some []
    | S k' =>
        match read_le data a 4 with
        | None => None
        | Some naddr =>
            match rec naddr, kids k' (a + 4) with
            | Some r1, Some r2 => Some (r1 ++ r2)
            | _, _ => None
            end
        end
    end.

Lemma rnc_items_S data ib k a :
  rnc_items data ib (S k) a =
  match read_num data a ib, rnc_items data ib k (a + ib) with
  | Some it, Some r => Some (it :: r)
  | _, _ => None
  end.
Proof. reflexivity. Qed.

Lemma rnc_kids_S rec data k a :
  rnc_kids rec data (S k) a =
  match read_le data a 4 with
  | None => None
  | Some naddr =>
      match rec naddr, rnc_kids rec data k (a + 4) with
      | Some r1, Some r2 => Some (r1 ++ r2)
      | _, _ => None
      end
  end.
Proof. reflexivity. Qed.

Lemma rncsearch_eq h data addr q :
  rncsearch rect_of fdec h data addr q =
  match read_f fdec data addr, read_f fdec data (addr + 8),
        read_f fdec data (addr + 16), read_f fdec data (addr + 24) with
  | Some nx, Some ny, Some xx, Some xy =>
      if negb (rect_intersects_rect q ((nx, ny), (xx, xy))) then Some []
      else
        match byte_at data (addr + 32) with
        | None => None
        | Some count =>
            match h with
            | O =>
                match byte_at data (addr + 33) with
                | None => None
                | Some ib =>
                    match rnc_items data ib (Z.to_nat count) (addr + 34) with
                    | None => None
                    | Some its =>
                        Some (filter (fun it => rect_intersects_rect (rect_of it) q) its)
                    end
                end
            | S h' =>
                rnc_kids (fun na => rncsearch rect_of fdec h' data na q) data
                         (Z.to_nat count) (addr + 33)
            end
        end
  | _, _, _, _ => None
  end.
Proof. destruct h; reflexivity. Qed.

(* ------------------------------------------------------------------ *)
(* Leaf level                                                           *)

Lemma rnc_items_ok data ib : ib_ok ib ->
  forall its a,
    Forall (fun it => 0 <= it < 2 ^ (8 * ib)) its ->
    at_addr data a (flat_map (fun it => enc_num it ib) its) ->
    rnc_items data ib (length its) a = Some its.
Proof.
  intros Hib. induction its as [|it its IH]; intros a Hf Hat.
  - reflexivity.
  - inversion Hf as [|? ? Hit Hf']; subst.
    cbn [flat_map] in Hat.
    apply at_addr_app_n with (n := ib) in Hat; [|apply enc_num_length; assumption].
    destruct Hat as [H1 H2].
    cbn [length]. rewrite rnc_items_S.
    rewrite (read_num_at _ _ it ib Hib Hit H1).
    rewrite (IH _ Hf' H2). reflexivity.
Qed.

Definition leaf_ib (kids : list rnode) (acc : Z) : Z :=
  fold_left (fun acc c => Z.max acc (num_bytes (ritem_of c))) kids acc.

Lemma leaf_ib_spec : forall kids acc, ib_ok acc ->
  ib_ok (leaf_ib kids acc) /\ acc <= leaf_ib kids acc /\
  Forall (fun c => num_bytes (ritem_of c) <= leaf_ib kids acc) kids.
Proof.
  unfold leaf_ib. induction kids as [|c kids IH]; intros acc Hacc; cbn [fold_left].
  - repeat split; [assumption|lia|constructor].
  - assert (Hacc' : ib_ok (Z.max acc (num_bytes (ritem_of c)))).
    { unfold ib_ok in *. destruct (num_bytes_cases (ritem_of c)) as [E|[E|E]];
        rewrite E; lia. }
    destruct (IH _ Hacc') as (H1 & H2 & H3).
    repeat split; [assumption|lia|].
    constructor; [lia|assumption].
Qed.

Lemma leaf_search kids q :
  Forall rleafkid kids ->
  flat_map (fun c => rsearch rect_of c q) kids =
  filter (fun it => rect_intersects_rect (rect_of it) q) (map ritem_of kids).
Proof.
  induction 1 as [|c kids Hc _ IH]; [reflexivity|].
  destruct c as [b it|]; [|contradiction].
  cbn [flat_map map filter rsearch ritem_of]. rewrite IH.
  destruct (rect_intersects_rect (rect_of it) q); reflexivity.
Qed.

Lemma leaf_enc kids ib :
  flat_map (fun c => enc_num (ritem_of c) ib) kids =
  flat_map (fun it => enc_num it ib) (map ritem_of kids).
Proof. induction kids as [|c kids IH]; cbn [flat_map map]; congruence. Qed.

Lemma renc_O base b kids :
  renc fenc O base (RNode b kids) =
  enc_box fenc b ++ [Z.of_nat (length kids) mod 256] ++ [leaf_ib kids 1] ++
  flat_map (fun c => enc_num (ritem_of c) (leaf_ib kids 1)) kids.
Proof. cbn [renc rbox rkids]. rewrite <- app_assoc. reflexivity. Qed.

(* ------------------------------------------------------------------ *)
(* Internal level: explicit layout                                      *)

Definition rstep (h : nat) (st : list Z * list Z * Z) (c : rnode) : list Z * list Z * Z :=
  let '(addrs, body, addr) := st in
  let e := renc fenc h addr c in
  (addrs ++ le_bytes 4 (u32 addr), body ++ e, addr + Z.of_nat (length e)).

Fixpoint raddrs (h : nat) (addr : Z) (ks : list rnode) : list Z :=
  match ks with
  | [] => []
  | c :: ks' =>
      le_bytes 4 (u32 addr) ++ raddrs h (addr + Z.of_nat (length (renc fenc h addr c))) ks'
  end.

Fixpoint rbodies (h : nat) (addr : Z) (ks : list rnode) : list Z :=
  match ks with
  | [] => []
  | c :: ks' =>
      renc fenc h addr c ++ rbodies h (addr + Z.of_nat (length (renc fenc h addr c))) ks'
  end.

Lemma rstep_fold h : forall ks A B addr,
  exists fin, fold_left (rstep h) ks (A, B, addr) =
              (A ++ raddrs h addr ks, B ++ rbodies h addr ks, fin).
Proof.
  induction ks as [|c ks IH]; intros A B addr.
  - exists addr. cbn [fold_left raddrs rbodies]. rewrite !app_nil_r. reflexivity.
  - cbn [fold_left raddrs rbodies]. unfold rstep at 2.
    destruct (IH (A ++ le_bytes 4 (u32 addr)) (B ++ renc fenc h addr c)
                 (addr + Z.of_nat (length (renc fenc h addr c)))) as [fin E].
    exists fin. rewrite E. rewrite <- !app_assoc. reflexivity.
Qed.

Lemma raddrs_length h : forall ks addr,
  Z.of_nat (length (raddrs h addr ks)) = 4 * Z.of_nat (length ks).
Proof.
  induction ks as [|c ks IH]; intros addr; [reflexivity|].
  cbn [raddrs]. rewrite app_length, le_bytes_length, Nat2Z.inj_add, IH.
  cbn [length]. lia.
Qed.

Lemma renc_S_fold h base b kids :
  renc fenc (S h) base (RNode b kids) =
  let hdr := enc_box fenc b ++ [Z.of_nat (length kids) mod 256] in
  let start := base + Z.of_nat (length hdr) + 4 * Z.of_nat (length kids) in
  let '(addrs, body, _) := fold_left (rstep h) kids ([], [], start) in
  hdr ++ addrs ++ body.
Proof. reflexivity. Qed.

Lemma renc_S h base b kids :
  renc fenc (S h) base (RNode b kids) =
  let start := base + 33 + 4 * Z.of_nat (length kids) in
  enc_box fenc b ++ [Z.of_nat (length kids) mod 256] ++
  raddrs h start kids ++ rbodies h start kids.
Proof.
  rewrite renc_S_fold. cbv zeta.
  rewrite app_length, enc_box_length.
  change (Z.of_nat (32 + length [Z.of_nat (length kids) mod 256])) with 33.
  destruct (rstep_fold h kids [] [] (base + 33 + 4 * Z.of_nat (length kids))) as [fin E].
  rewrite E. cbn [app]. rewrite <- app_assoc. reflexivity.
Qed.

Lemma rnc_kids_ok h data q :
  (forall n base, rshape h n -> at_addr data base (renc fenc h base n) ->
                  rncsearch rect_of fdec h data base q = Some (rsearch rect_of n q)) ->
  Z.of_nat (length data) < 2 ^ 32 ->
  forall ks a c,
    Forall (rshape h) ks ->
    at_addr data a (raddrs h c ks) -> at_addr data c (rbodies h c ks) ->
    rnc_kids (fun na => rncsearch rect_of fdec h data na q) data (length ks) a =
    Some (flat_map (fun k => rsearch rect_of k q) ks).
Proof.
  intros IHh Hlen. induction ks as [|k ks IH]; intros a c Hf Ha Hb.
  - reflexivity.
  - inversion Hf as [|? ? Hk Hf']; subst.
    cbn [raddrs rbodies] in Ha, Hb.
    apply at_addr_app_n with (n := 4) in Ha; [|rewrite le_bytes_length; reflexivity].
    destruct Ha as [Ha1 Ha2].
    apply at_addr_app in Hb. destruct Hb as [Hb1 Hb2].
    pose proof (at_addr_bound _ _ _ Hb1) as [Hc0 Hc1].
    assert (Hu : u32 c = c).
    { unfold u32. apply Z.mod_small. change (2 ^ 32) with 4294967296 in Hlen. lia. }
    rewrite Hu in Ha1.
    cbn [length]. rewrite rnc_kids_S.
    rewrite (read_le_at 4 c data a); [| |assumption].
    2:{ change (2 ^ (8 * Z.of_nat 4)) with (2 ^ 32). lia. }
    rewrite (IHh k c Hk Hb1).
    rewrite (IH _ _ Hf' Ha2 Hb2).
    reflexivity.
Qed.

(* ------------------------------------------------------------------ *)
(* MAIN LEMMA                                                           *)

Lemma count_byte (kids : list rnode) :
  (length kids <= 255)%nat ->
  Z.to_nat (Z.of_nat (length kids) mod 256) = length kids.
Proof. intros H. rewrite Z.mod_small by lia. apply Nat2Z.id. Qed.

Lemma rncsearch_at : forall h n data base q,
  rshape h n ->
  at_addr data base (renc fenc h base n) ->
  Z.of_nat (length data) < 2 ^ 32 ->
  rncsearch rect_of fdec h data base q = Some (rsearch rect_of n q).
Proof.
  induction h as [|h IHh]; intros n data base q Hs Hat Hlen;
    (destruct n as [|b kids]; [contradiction|]); destruct Hs as [Hk Hs];
    destruct b as [[nx ny] [xx xy]].
  - (* leaf level *)
    rewrite renc_O in Hat. rewrite rncsearch_eq.
    apply enc_box_at in Hat. destruct Hat as (-> & -> & -> & -> & Hat).
    cbv beta iota. cbn [rsearch].
    unfold pt.
    destruct (negb (rect_intersects_rect q (nx, ny, (xx, xy)))); [reflexivity|].
    rewrite (at_addr_byte _ _ _ _ Hat).
    apply at_addr_cons in Hat.
    replace (base + 32 + 1) with (base + 33) in Hat by lia.
    rewrite (at_addr_byte _ _ _ _ Hat).
    apply at_addr_cons in Hat.
    replace (base + 33 + 1) with (base + 34) in Hat by lia.
    rewrite count_byte by assumption.
    destruct (leaf_ib_spec kids 1) as (Hib & _ & Hfit); [left; reflexivity|].
    rewrite leaf_enc in Hat.
    rewrite <- (map_length ritem_of kids).
    rewrite (rnc_items_ok data _ Hib (map ritem_of kids) _); [| |exact Hat].
    + rewrite leaf_search by assumption. reflexivity.
    + rewrite Forall_map. rewrite Forall_forall in *.
      intros c Hc. specialize (Hs c Hc). specialize (Hfit c Hc).
      destruct c as [bb it|]; [|contradiction]. cbn [ritem_of rleafkid] in *.
      apply fits_mono; assumption.
  - (* internal level *)
    rewrite renc_S in Hat. cbv zeta in Hat. rewrite rncsearch_eq.
    apply enc_box_at in Hat. destruct Hat as (-> & -> & -> & -> & Hat).
    cbv beta iota. cbn [rsearch].
    unfold pt.
    destruct (negb (rect_intersects_rect q (nx, ny, (xx, xy)))); [reflexivity|].
    rewrite (at_addr_byte _ _ _ _ Hat).
    apply at_addr_cons in Hat.
    replace (base + 32 + 1) with (base + 33) in Hat by lia.
    apply at_addr_app_n with (n := 4 * Z.of_nat (length kids)) in Hat;
      [|apply raddrs_length].
    destruct Hat as [Ha Hb].
    rewrite count_byte by assumption.
    apply (rnc_kids_ok h data q) with (c := base + 33 + 4 * Z.of_nat (length kids));
      try assumption.
    intros n0 base0 Hn0 Hat0. apply IHh; assumption.
Qed.

(* the statement in "pre ++ _ ++ post" form *)
Lemma rncsearch_renc : forall h n pre post q,
  rshape h n ->
  let base := Z.of_nat (length pre) in
  let data := pre ++ renc fenc h base n ++ post in
  Z.of_nat (length data) < 2 ^ 32 ->
  rncsearch rect_of fdec h data base q = Some (rsearch rect_of n q).
Proof.
  intros h n pre post q Hs base data Hlen.
  apply rncsearch_at; [assumption| |assumption].
  exists pre, post. auto.
Qed.

(* ------------------------------------------------------------------ *)
(* MAIN THEOREM                                                         *)

Theorem r_codec (t : rtree) (q : rect) :
  (match rroot t with None => True | Some r => rshape (rheight t) r end) ->
  (rheight t <= 255)%nat ->
  let data := set_compressed 1 (rtenc fenc t) in
  Z.of_nat (length data) < 2 ^ 32 ->
  rcsearch rect_of fdec data 5 q =
  Some (match rroot t with None => [] | Some r => rsearch rect_of r q end).
Proof.
  intros Hs Hh data Hlen. subst data. unfold rtenc in *.
  destruct (rroot t) as [r|].
  - unfold set_compressed in *.
    set (hd4 := le_bytes 4 (u32 (5 + Z.of_nat (length ([Z.of_nat (rheight t) mod 256] ++ renc fenc (rheight t) 6 r))))) in *.
    set (data := [1] ++ hd4 ++ [Z.of_nat (rheight t) mod 256] ++ renc fenc (rheight t) 6 r) in *.
    assert (Hat : at_addr data 5 ([Z.of_nat (rheight t) mod 256] ++ renc fenc (rheight t) 6 r)).
    { exists ([1] ++ hd4), []. split.
      - subst data. rewrite app_nil_r, <- app_assoc. reflexivity.
      - rewrite app_length. subst hd4. rewrite le_bytes_length. reflexivity. }
    pose proof (at_addr_bound _ _ _ Hat) as [_ Hb].
    rewrite app_length in Hb. cbn [length] in Hb.
    unfold rcsearch.
    destruct (Z.eqb_spec 5 (Z.of_nat (length data))) as [E|_]; [lia|].
    rewrite (at_addr_byte _ _ _ _ Hat).
    apply at_addr_cons in Hat. change (5 + 1) with 6 in *.
    rewrite Z.mod_small by lia. rewrite Nat2Z.id.
    apply rncsearch_at; assumption.
  - unfold rcsearch, set_compressed.
    rewrite !app_length, le_bytes_length. reflexivity.
Qed.


(* ------------------------------------------------------------------ *)
(* Shape of the trees built by successive inserts                       *)
(* Invariant: every node has between 1 and 16 kids and its box is TIGHT:
   it covers the boxes of its kids and each of its four sides is attained
   by some kid.  Tightness is what guarantees that the split of a 17-kid
   node produces two nodes with between 1 and 16 kids. *)

Definition bnx (r : rect) : Z := fst (fst r).
Definition bny (r : rect) : Z := snd (fst r).
Definition bxx (r : rect) : Z := fst (snd r).
Definition bxy (r : rect) : Z := snd (snd r).

(* four "min-like" coordinates *)
Definition c1 (r : rect) : Z := bnx r.
Definition c2 (r : rect) : Z := bny r.
Definition c3 (r : rect) : Z := - bxx r.
Definition c4 (r : rect) : Z := - bxy r.
Definition coords : list (rect -> Z) := [c1; c2; c3; c4].

Lemma rexpand_minmax r b :
  rexpand r b = ((Z.min (bnx r) (bnx b), Z.min (bny r) (bny b)),
                 (Z.max (bxx r) (bxx b), Z.max (bxy r) (bxy b))).
Proof.
  destruct r as [[rnx rny] [rxx rxy]], b as [[anx any] [axx axy]].
  unfold rexpand, bnx, bny, bxx, bxy. cbn [fst snd].
  destruct (Z.ltb_spec anx rnx), (Z.ltb_spec any rny),
           (Z.ltb_spec rxx axx), (Z.ltb_spec rxy axy);
    f_equal; f_equal; lia.
Qed.

Lemma coords_rexpand cf r b : In cf coords -> cf (rexpand r b) = Z.min (cf r) (cf b).
Proof.
  intros H. rewrite rexpand_minmax.
  destruct H as [<-|[<-|[<-|[<-|[]]]]]; unfold c1, c2, c3, c4, bnx, bny, bxx, bxy;
    cbn [fst snd]; lia.
Qed.

Lemma rcontains_coords cf r b : rcontains r b = true -> In cf coords -> cf r <= cf b.
Proof.
  destruct r as [[rnx rny] [rxx rxy]], b as [[anx any] [axx axy]].
  unfold rcontains. rewrite negb_true_iff, !orb_false_iff, !Z.ltb_ge.
  intros [[[H1 H2] H3] H4] H.
  destruct H as [<-|[<-|[<-|[<-|[]]]]]; unfold c1, c2, c3, c4, bnx, bny, bxx, bxy;
    cbn [fst snd]; lia.
Qed.

(* b' is b expanded by ib, coordinate-wise *)
Definition bexp (b' b ib : rect) : Prop :=
  forall cf, In cf coords -> cf b' = Z.min (cf b) (cf ib).

Lemma bexp_rexpand b ib : bexp (rexpand b ib) b ib.
Proof. intros cf H. apply coords_rexpand; assumption. Qed.

Lemma bexp_grow b ib :
  bexp (if negb (rcontains b ib) then rexpand b ib else b) b ib.
Proof.
  destruct (rcontains b ib) eqn:E; cbn [negb].
  - intros cf H. pose proof (rcontains_coords cf b ib E H). lia.
  - apply bexp_rexpand.
Qed.

Ltac len_norm := repeat (progress (rewrite ?app_length in *; cbn [length] in * )).
Ltac in_norm := repeat (progress (rewrite ?in_app_iff in *; cbn [In] in * )).

Definition tight1 (f : rnode -> Z) (B : Z) (ks : list rnode) : Prop :=
  (forall x, In x ks -> B <= f x) /\ (exists x, In x ks /\ f x = B).

Definition tight (b : rect) (ks : list rnode) : Prop :=
  forall cf, In cf coords -> tight1 (fun c => cf (rbox c)) (cf b) ks.

Lemma tight1_snoc f B ks c : tight1 f B ks -> tight1 f (Z.min B (f c)) (ks ++ [c]).
Proof.
  intros [Hc (d & Hd & Ed)]. split.
  - intros x Hx. apply in_app_iff in Hx. destruct Hx as [Hx|[<-|[]]].
    + specialize (Hc x Hx). lia.
    + lia.
  - destruct (Z.le_gt_cases B (f c)).
    + exists d. split; [apply in_app_iff; auto|lia].
    + exists c. split; [apply in_app_iff; right; left; reflexivity|lia].
Qed.

Lemma tight1_replace f B I c old others new ks' :
  tight1 f B old ->
  (forall x, In x old <-> c = x \/ In x others) ->
  tight1 f (Z.min (f c) I) new ->
  (forall x, In x ks' <-> In x new \/ In x others) ->
  tight1 f (Z.min B I) ks'.
Proof.
  intros [Hc (d & Hd & Ed)] Hold [Hnc (y & Hy & Ey)] Hks.
  assert (HBc : B <= f c) by (apply Hc, Hold; auto).
  split.
  - intros x Hx. apply Hks in Hx. destruct Hx as [Hx|Hx].
    + specialize (Hnc x Hx). lia.
    + assert (B <= f x) by (apply Hc, Hold; auto). lia.
  - destruct (Z.le_gt_cases B I).
    + apply Hold in Hd. destruct Hd as [->|Hd].
      * exists y. split; [apply Hks; auto|lia].
      * exists d. split; [apply Hks; auto|lia].
    + exists y. split; [apply Hks; auto|lia].
Qed.

Lemma tight_nonempty b ks : tight b ks -> ks <> [].
Proof.
  intros H E. subst ks. destruct (H c1) as [_ (x & [] & _)]. left; reflexivity.
Qed.

Lemma tight_snoc b b2 ks c : tight b ks -> bexp b2 b (rbox c) -> tight b2 (ks ++ [c]).
Proof.
  intros Ht Hb cf Hcf. rewrite (Hb cf Hcf).
  apply (tight1_snoc (fun c => cf (rbox c))). apply Ht; assumption.
Qed.

Lemma tight_single b c :
  (forall cf, In cf coords -> cf b = cf (rbox c)) -> tight b [c].
Proof.
  intros H cf Hcf. split.
  - intros x [<-|[]]. rewrite (H cf Hcf). lia.
  - exists c. split; [left; reflexivity|]. symmetry; apply H; assumption.
Qed.

Lemma tight_replace b b2 ib c k1 k2 bc' new ks' :
  tight b (k1 ++ c :: k2) -> bexp b2 b ib ->
  bexp bc' (rbox c) ib -> tight bc' new ->
  (forall x, In x ks' <-> In x new \/ In x (k1 ++ k2)) ->
  tight b2 ks'.
Proof.
  intros Ht Hb Hbc Hn Hks cf Hcf. rewrite (Hb cf Hcf).
  apply (tight1_replace (fun c => cf (rbox c)) (cf b) (cf ib) c
                        (k1 ++ c :: k2) (k1 ++ k2) new ks').
  - apply Ht; assumption.
  - intros x. in_norm; tauto.
  - cbv beta. rewrite <- (Hbc cf Hcf). apply Hn; assumption.
  - assumption.
Qed.

Lemma tight_pair B ks bl kl br kr :
  tight B ks -> (forall x, In x ks <-> In x kl \/ In x kr) ->
  tight bl kl -> tight br kr ->
  tight B [RNode bl kl; RNode br kr].
Proof.
  intros Ht Hks Hl Hr cf Hcf.
  destruct (Ht cf Hcf) as [Hc (y & Hy & Ey)].
  destruct (Hl cf Hcf) as [Hlc (yl & Hyl & Eyl)].
  destruct (Hr cf Hcf) as [Hrc (yr & Hyr & Eyr)].
  cbv beta in *. split.
  - intros x [<-|[<-|[]]]; cbn [rbox].
    + rewrite <- Eyl. apply Hc, Hks; auto.
    + rewrite <- Eyr. apply Hc, Hks; auto.
  - apply Hks in Hy. destruct Hy as [Hy|Hy].
    + exists (RNode bl kl). split; [left; reflexivity|]. cbn [rbox].
      specialize (Hlc y Hy). assert (cf B <= cf (rbox yl)) by (apply Hc, Hks; auto). lia.
    + exists (RNode br kr). split; [right; left; reflexivity|]. cbn [rbox].
      specialize (Hrc y Hy). assert (cf B <= cf (rbox yr)) by (apply Hc, Hks; auto). lia.
Qed.

Lemma rrecalc_fold_tight : forall r acc ks0,
  tight acc ks0 ->
  tight (fold_left (fun acc c => rexpand acc (rbox c)) r acc) (ks0 ++ r).
Proof.
  induction r as [|c r IH]; intros acc ks0 Ht; cbn [fold_left].
  - rewrite app_nil_r. assumption.
  - replace (ks0 ++ c :: r) with ((ks0 ++ [c]) ++ r) by (rewrite <- app_assoc; reflexivity).
    apply IH. eapply tight_snoc; [eassumption|apply bexp_rexpand].
Qed.

Lemma rrecalc_tight ks : ks <> [] -> tight (rrecalc ks) ks.
Proof.
  destruct ks as [|k r]; [congruence|]. intros _. unfold rrecalc.
  change (k :: r) with ([k] ++ r). apply rrecalc_fold_tight.
  apply tight_single. reflexivity.
Qed.

(* ---- set_nth / nth_error ---- *)

Lemma set_nth_split {A} : forall (l : list A) i c,
  nth_error l i = Some c ->
  exists k1 k2, l = k1 ++ c :: k2 /\ forall x, set_nth l i x = k1 ++ x :: k2.
Proof.
  induction l as [|y l IH]; intros i c H.
  - destruct i; discriminate.
  - destruct i as [|i]; cbn [nth_error] in H.
    + injection H as ->. exists [], l. split; reflexivity.
    + destruct (IH i c H) as (k1 & k2 & -> & Hs).
      exists (y :: k1), k2. split; [reflexivity|].
      intros x. cbn [set_nth]. rewrite Hs. reflexivity.
Qed.

(* ---- choose_least returns a valid index ---- *)

Lemma cl_fold (step : Z * Z * Z * Z -> rnode -> Z * Z * Z * Z) :
  (forall i j e a c, exists e' a',
      step (i, j, e, a) c = (i + 1, i, e', a') \/
      (j <> -1 /\ step (i, j, e, a) c = (i + 1, j, e', a'))) ->
  forall kids i j e a, 0 <= i -> -1 <= j < i ->
    let '(i', j', _, _) := fold_left step kids (i, j, e, a) in
    i' = i + Z.of_nat (length kids) /\ -1 <= j' < i' /\
    ((kids <> [] \/ j <> -1) -> 0 <= j').
Proof.
  intros Hstep. induction kids as [|c kids IH]; intros i j e a Hi Hj.
  - cbn [fold_left length]. repeat split; try lia. intros [H|H]; [congruence|lia].
  - cbn [fold_left]. destruct (Hstep i j e a c) as (e' & a' & [E|[Hj1 E]]); rewrite E.
    + specialize (IH (i + 1) i e' a'). 
      destruct (fold_left step kids (i + 1, i, e', a')) as [[[i' j'] e''] a''].
      destruct IH as (H1 & H2 & H3); [lia|lia|].
      cbn [length]. rewrite Nat2Z.inj_succ. repeat split; try lia.
      all: intros _; apply H3; right; lia.
    + specialize (IH (i + 1) j e' a').
      destruct (fold_left step kids (i + 1, j, e', a')) as [[[i' j'] e''] a''].
      destruct IH as (H1 & H2 & H3); [lia|lia|].
      cbn [length]. rewrite Nat2Z.inj_succ. repeat split; try lia.
      all: intros _; apply H3; right; assumption.
Qed.

Lemma choose_least_lt kids ib : kids <> [] -> (choose_least kids ib < length kids)%nat.
Proof.
  intros Hne. unfold choose_least. destruct ib as [[bnx0 bny0] [bxx0 bxy0]].
  match goal with |- context [fold_left ?s kids _] => set (step := s) end.
  assert (Hstep : forall i j e a c, exists e' a',
      step (i, j, e, a) c = (i + 1, i, e', a') \/
      (j <> -1 /\ step (i, j, e, a) c = (i + 1, j, e', a'))).
  { intros i j e a c. unfold step. destruct (rbox c) as [[rnx rny] [rxx rxy]].
    match goal with |- context [if ?t then _ else _] => destruct t eqn:E1 end.
    - eexists _, _. left. reflexivity.
    - match goal with |- context [if ?t then _ else _] => destruct t eqn:E2 end.
      + eexists _, _. left. reflexivity.
      + eexists _, _. right. split; [|reflexivity].
        apply orb_false_iff in E1. destruct E1 as [E1 _].
        apply Z.eqb_neq in E1. assumption. }
  pose proof (cl_fold step Hstep kids 0 (-1) 0 0) as H.
  destruct (fold_left step kids (0, -1, 0, 0)) as [[[i' j'] e''] a''].
  destruct H as (H1 & H2 & H3); [lia|lia|].
  specialize (H3 (or_introl Hne)). lia.
Qed.

(* ---- the split ---- *)

Definition same_elts (l1 l2 : list rnode) : Prop :=
  (forall z, In z l1 <-> In z l2) /\ length l1 = length l2.

Definition s_mind (ax : bool) (lb : rect) (x : rnode) : Z :=
  if ax then bnx (rbox x) - bnx lb else bny (rbox x) - bny lb.
Definition s_maxd (ax : bool) (lb : rect) (x : rnode) : Z :=
  if ax then bxx lb - bxx (rbox x) else bxy lb - bxy (rbox x).

Lemma split_loop_S f ax lb kept x rest' right equals :
  split_loop (S f) ax lb kept (x :: rest') right equals =
  if s_mind ax lb x <? s_maxd ax lb x
  then split_loop f ax lb (kept ++ [x]) rest' right equals
  else
    let right' := if s_maxd ax lb x <? s_mind ax lb x then right ++ [x] else right in
    let equals' := if s_maxd ax lb x <? s_mind ax lb x then equals else equals ++ [x] in
    match rest' with
    | [] => (kept, right', equals')
    | _ => split_loop f ax lb kept (last rest' x :: removelast rest') right' equals'
    end.
Proof.
  destruct lb as [[lnx lny] [lxx lxy]]. unfold s_mind, s_maxd.
  cbn [split_loop]. destruct (rbox x) as [[xnx xny] [xxx xxy]].
  unfold bnx, bny, bxx, bxy. cbn [fst snd]. reflexivity.
Qed.

Lemma last_removelast_elts (l : list rnode) (x : rnode) :
  l <> [] -> same_elts (last l x :: removelast l) l.
Proof.
  intros Hne. pose proof (app_removelast_last x Hne) as E.
  split.
  - intros z. rewrite E at 3. rewrite in_app_iff. cbn [In]. tauto.
  - rewrite E at 3. rewrite app_length. cbn [length]. lia.
Qed.

Lemma split_loop_spec ax lb : forall fuel kept rest right equals lft rgt eqs,
  (length rest <= fuel)%nat ->
  split_loop fuel ax lb kept rest right equals = (lft, rgt, eqs) ->
  same_elts (lft ++ rgt ++ eqs) (kept ++ rest ++ right ++ equals) /\
  (Forall (fun x => s_mind ax lb x < s_maxd ax lb x) kept ->
   Forall (fun x => s_mind ax lb x < s_maxd ax lb x) lft) /\
  (Forall (fun x => s_maxd ax lb x < s_mind ax lb x) right ->
   Forall (fun x => s_maxd ax lb x < s_mind ax lb x) rgt).
Proof.
  induction fuel as [|f IH]; intros kept rest right equals lft rgt eqs Hlen H.
  - destruct rest; [|cbn [length] in Hlen; lia].
    cbn [split_loop] in H. injection H as <- <- <-.
    repeat split; auto; intros; rewrite ?app_nil_r in *; cbn [app] in *; auto.
  - destruct rest as [|x rest'].
    + cbn [split_loop] in H. injection H as <- <- <-.
      repeat split; auto.
    + rewrite split_loop_S in H. cbn [length] in Hlen.
      destruct (Z.ltb_spec (s_mind ax lb x) (s_maxd ax lb x)) as [Hl|Hl].
      * apply IH in H; [|lia]. destruct H as ([H1 H1'] & H2 & H3).
        split; [split|split].
        -- intros z. rewrite H1. in_norm; tauto.
        -- rewrite H1'. len_norm; lia.
        -- intros Hk. apply H2. apply Forall_app. split; [assumption|].
           constructor; [assumption|constructor].
        -- assumption.
      * cbv zeta in H.
        set (right' := if s_maxd ax lb x <? s_mind ax lb x then right ++ [x] else right) in *.
        set (equals' := if s_maxd ax lb x <? s_mind ax lb x then equals else equals ++ [x]) in *.
        assert (HE : same_elts (right' ++ equals') (x :: right ++ equals)).
        { subst right' equals'. destruct (s_maxd ax lb x <? s_mind ax lb x); split.
          - intros z. in_norm; tauto.
          - len_norm; lia.
          - intros z. in_norm; tauto.
          - len_norm; lia. }
        assert (HR : Forall (fun x => s_maxd ax lb x < s_mind ax lb x) right ->
                     Forall (fun x => s_maxd ax lb x < s_mind ax lb x) right').
        { intros Hr. subst right'.
          destruct (Z.ltb_spec (s_maxd ax lb x) (s_mind ax lb x)); [|assumption].
          apply Forall_app. split; [assumption|]. constructor; [assumption|constructor]. }
        destruct HE as [HE HE']. rewrite app_length in HE'. cbn [length] in HE'.
        rewrite app_length in HE'.
        destruct rest' as [|y rest''].
        -- injection H as <- <- <-. split; [split|split].
           ++ intros z. specialize (HE z). clear - HE. in_norm; tauto.
           ++ len_norm; lia.
           ++ auto.
           ++ assumption.
        -- assert (Hne : y :: rest'' <> []) by discriminate.
           destruct (last_removelast_elts (y :: rest'') x Hne) as [HL HL'].
           apply IH in H; [|rewrite HL'; lia].
           destruct H as ([H1 H1'] & H2 & H3). split; [split|split].
           ++ intros z. rewrite H1. specialize (HE z). specialize (HL z).
              clear - HE HL. in_norm; tauto.
           ++ rewrite H1'. rewrite !app_length in *. rewrite HL'. cbn [length] in *. lia.
           ++ assumption.
           ++ auto.
Qed.

Definition dist_step (lr : list rnode * list rnode) (e : rnode) : list rnode * list rnode :=
  let '(l, r) := lr in
  if (length l <? length r)%nat then (l ++ [e], r) else (l, r ++ [e]).

Lemma dist_spec : forall eqs l r l' r',
  fold_left dist_step eqs (l, r) = (l', r') ->
  same_elts (l' ++ r') (l ++ r ++ eqs) /\
  ((2 <= length l + length r + length eqs)%nat ->
   (1 <= length l + length eqs)%nat -> (1 <= length r + length eqs)%nat ->
   (1 <= length l')%nat /\ (1 <= length r')%nat).
Proof.
  induction eqs as [|e eqs IH]; intros l r l' r' H.
  - cbn [fold_left] in H. injection H as <- <-. split.
    + split; [intros z|]; rewrite ?app_nil_r; tauto.
    + cbn [length]. lia.
  - cbn [fold_left dist_step] in H.
    destruct (Nat.ltb_spec (length l) (length r)) as [Hlt|Hge].
    + apply IH in H. destruct H as ([H1 H1'] & H2). split; [split|].
      * intros z. rewrite H1. in_norm; tauto.
      * rewrite H1'. len_norm; lia.
      * intros Ha Hb Hc. apply H2; rewrite ?app_length; cbn [length] in *; lia.
    + apply IH in H. destruct H as ([H1 H1'] & H2). split; [split|].
      * intros z. rewrite H1. in_norm; tauto.
      * rewrite H1'. len_norm; lia.
      * intros Ha Hb Hc. apply H2; rewrite ?app_length; cbn [length] in *; lia.
Qed.

Lemma rsplit_eq b kids :
  rsplit b kids =
  let ax := negb (bxx b - bnx b <? bxy b - bny b) in
  let '(lft, rgt, equals) := split_loop (length kids) ax b [] kids [] [] in
  let '(lft', rgt') := fold_left dist_step equals (lft, rgt) in
  (RNode (rrecalc lft') lft', RNode (rrecalc rgt') rgt').
Proof. destruct b as [[a0 b0] [c0 d0]]. reflexivity. Qed.

Lemma rsplit_spec b kids l r :
  tight b kids -> (2 <= length kids)%nat -> rsplit b kids = (l, r) ->
  exists kl kr, l = RNode (rrecalc kl) kl /\ r = RNode (rrecalc kr) kr /\
    (forall z, In z kids <-> In z kl \/ In z kr) /\
    (length kl + length kr = length kids)%nat /\
    (1 <= length kl)%nat /\ (1 <= length kr)%nat.
Proof.
  intros Ht Hlen H. rewrite rsplit_eq in H. cbv zeta in H.
  set (ax := negb (bxx b - bnx b <? bxy b - bny b)) in *.
  destruct (split_loop (length kids) ax b [] kids [] []) as [[lft rgt] eqs] eqn:ES.
  destruct (fold_left dist_step eqs (lft, rgt)) as [kl kr] eqn:ED.
  injection H as <- <-.
  apply split_loop_spec in ES; [|lia].
  destruct ES as ([S1 S1'] & S2 & S3).
  specialize (S2 (Forall_nil _)). specialize (S3 (Forall_nil _)).
  cbn [app] in S1, S1'. rewrite app_nil_r in S1, S1'.
  apply dist_spec in ED. destruct ED as ([D1 D1'] & D2).
  rewrite !app_length in *.
  (* a kid attaining the max side is not "left"; one attaining the min side is not "right" *)
  assert (Hnl : exists x, In x kids /\ ~ s_mind ax b x < s_maxd ax b x).
  { destruct ax.
    - destruct (Ht c3) as [_ (x & Hx & Ex)]; [right; right; left; reflexivity|].
      destruct (Ht c1) as [Hc _]; [left; reflexivity|]. specialize (Hc x Hx).
      exists x. split; [assumption|]. unfold s_mind, s_maxd, c1, c3 in *. lia.
    - destruct (Ht c4) as [_ (x & Hx & Ex)]; [right; right; right; left; reflexivity|].
      destruct (Ht c2) as [Hc _]; [right; left; reflexivity|]. specialize (Hc x Hx).
      exists x. split; [assumption|]. unfold s_mind, s_maxd, c2, c4 in *. lia. }
  assert (Hnr : exists x, In x kids /\ ~ s_maxd ax b x < s_mind ax b x).
  { destruct ax.
    - destruct (Ht c1) as [_ (x & Hx & Ex)]; [left; reflexivity|].
      destruct (Ht c3) as [Hc _]; [right; right; left; reflexivity|]. specialize (Hc x Hx).
      exists x. split; [assumption|]. unfold s_mind, s_maxd, c1, c3 in *. lia.
    - destruct (Ht c2) as [_ (x & Hx & Ex)]; [right; left; reflexivity|].
      destruct (Ht c4) as [Hc _]; [right; right; right; left; reflexivity|]. specialize (Hc x Hx).
      exists x. split; [assumption|]. unfold s_mind, s_maxd, c2, c4 in *. lia. }
  assert (Hre : (1 <= length rgt + length eqs)%nat).
  { destruct Hnl as (x & Hx & Nx). apply S1 in Hx. apply in_app_iff in Hx.
    destruct Hx as [Hx|Hx].
    - rewrite Forall_forall in S2. specialize (S2 x Hx). contradiction.
    - rewrite <- app_length. destruct (rgt ++ eqs); [contradiction|cbn [length]; lia]. }
  assert (Hle : (1 <= length lft + length eqs)%nat).
  { destruct Hnr as (x & Hx & Nx). apply S1 in Hx. rewrite !in_app_iff in Hx.
    destruct Hx as [Hx|[Hx|Hx]].
    - destruct lft; [contradiction|cbn [length]; lia].
    - rewrite Forall_forall in S3. specialize (S3 x Hx). contradiction.
    - destruct eqs; [contradiction|cbn [length]; lia]. }
  destruct D2 as [D2a D2b]; [lia|lia|lia|].
  exists kl, kr. repeat split; try assumption; try lia.
  - intros Hz. apply S1 in Hz. apply D1 in Hz. apply in_app_iff in Hz. assumption.
  - intros Hz. apply S1. apply D1. apply in_app_iff. assumption.
Qed.

(* ---- the invariant ---- *)

Definition ritemok (m : Z) (c : rnode) : Prop :=
  match c with RItem _ it => 0 <= it < m | RNode _ _ => False end.

Fixpoint rgoodk (K : nat) (m : Z) (h : nat) (n : rnode) {struct h} : Prop :=
  match n with
  | RItem _ _ => False
  | RNode b kids =>
      (length kids <= K)%nat /\ tight b kids /\
      match h with
      | O => Forall (ritemok m) kids
      | S h' => Forall (rgoodk 16 m h') kids
      end
  end.

Definition rkidsgood (m : Z) (h : nat) (ks : list rnode) : Prop :=
  match h with
  | O => Forall (ritemok m) ks
  | S h' => Forall (rgoodk 16 m h') ks
  end.

Lemma rgoodk_node K m h b ks :
  rgoodk K m h (RNode b ks) =
  ((length ks <= K)%nat /\ tight b ks /\ rkidsgood m h ks).
Proof. destruct h; reflexivity. Qed.

Lemma rkidsgood_incl m h ks ks' :
  rkidsgood m h ks -> (forall x, In x ks' -> In x ks) -> rkidsgood m h ks'.
Proof.
  unfold rkidsgood. destruct h; rewrite !Forall_forall; auto.
Qed.

Lemma rinsert_O b kids ib item :
  rinsert O (RNode b kids) ib item =
  (RNode b (kids ++ [RItem ib item]), negb (rcontains b ib)).
Proof. reflexivity. Qed.

Lemma rinsert_S h b kids ib item :
  rinsert (S h) (RNode b kids) ib item =
  let idx := choose_least kids ib in
  match nth_error kids idx with
  | None => (RNode b kids, false)
  | Some child =>
      let '(child1, g) := rinsert h child ib item in
      let child2 := if g then set_box child1 (rexpand (rbox child1) ib) else child1 in
      let grown := if g then negb (rcontains b ib) else false in
      if (length (rkids child2) =? rMaxEntries + 1)%nat then
        let '(l, r) := rsplit (rbox child2) (rkids child2) in
        (RNode b (set_nth kids idx l ++ [r]), grown)
      else (RNode b (set_nth kids idx child2), grown)
  end.
Proof. reflexivity. Qed.

Lemma rinsert_box : forall h n ib item, rbox (fst (rinsert h n ib item)) = rbox n.
Proof.
  intros h n ib item. destruct n as [|b kids]; [destruct h; reflexivity|].
  destruct h as [|h]; [reflexivity|].
  rewrite rinsert_S. cbv zeta.
  destruct (nth_error kids (choose_least kids ib)) as [child|]; [|reflexivity].
  destruct (rinsert h child ib item) as [child1 g].
  match goal with |- context [if ?t then _ else _] => destruct t end.
  - match goal with |- context [rsplit ?a ?b] => destruct (rsplit a b) end. reflexivity.
  - reflexivity.
Qed.

(* a split node is good *)
Lemma split_good m h b2 ks l r :
  tight b2 ks -> length ks = 17%nat -> rkidsgood m h ks ->
  rsplit b2 ks = (l, r) ->
  exists kl kr, l = RNode (rrecalc kl) kl /\ r = RNode (rrecalc kr) kr /\
    (forall z, In z ks <-> In z kl \/ In z kr) /\
    rgoodk 16 m h l /\ rgoodk 16 m h r.
Proof.
  intros Ht Hlen Hk H.
  destruct (rsplit_spec _ _ _ _ Ht ltac:(lia) H) as (kl & kr & -> & -> & Hin & Hl & Hl1 & Hr1).
  exists kl, kr. split; [reflexivity|]. split; [reflexivity|]. split; [exact Hin|]. split.
  - rewrite rgoodk_node. split; [|split].
    + lia.
    + apply rrecalc_tight. destruct kl; [cbn [length] in Hl1; lia|discriminate].
    + eapply rkidsgood_incl; [eassumption|]. intros x Hx. apply Hin. auto.
  - rewrite rgoodk_node. split; [|split].
    + lia.
    + apply rrecalc_tight. destruct kr; [cbn [length] in Hr1; lia|discriminate].
    + eapply rkidsgood_incl; [eassumption|]. intros x Hx. apply Hin. auto.
Qed.

Lemma rgoodk_weaken m h n : rgoodk 16 m h n -> rgoodk 17 m h n.
Proof.
  destruct n as [|b ks]; [destruct h; auto|]. rewrite !rgoodk_node.
  intros (H1 & H2 & H3). split; [lia|split; assumption].
Qed.

Lemma rgoodk_strengthen m h n :
  rgoodk 17 m h n -> length (rkids n) <> 17%nat -> rgoodk 16 m h n.
Proof.
  destruct n as [|b ks]; [destruct h; auto|]. rewrite !rgoodk_node. cbn [rkids].
  intros (H1 & H2 & H3) Hne. split; [lia|split; assumption].
Qed.

Lemma rinsert_good m ib item : 0 <= item < m ->
  forall h n n1 g,
    rgoodk 16 m h n -> rinsert h n ib item = (n1, g) ->
    let n2 := if g then set_box n1 (rexpand (rbox n1) ib) else n1 in
    rgoodk 17 m h n2 /\ bexp (rbox n2) (rbox n) ib.
Proof.
  intros Hitem. induction h as [|h IH]; intros n n1 g Hg H;
    (destruct n as [|b kids]; [contradiction|]).
  - (* leaf level *)
    rewrite rinsert_O in H. injection H as <- <-.
    rewrite rgoodk_node in Hg. destruct Hg as (Hlen & Ht & Hk).
    cbv zeta. cbn [rbox].
    set (kids' := kids ++ [RItem ib item]).
    assert (E : (if negb (rcontains b ib) then set_box (RNode b kids') (rexpand b ib)
                 else RNode b kids') =
                RNode (if negb (rcontains b ib) then rexpand b ib else b) kids').
    { destruct (negb (rcontains b ib)); reflexivity. }
    rewrite E. cbn [rbox]. pose proof (bexp_grow b ib) as Hb.
    split; [|assumption].
    rewrite rgoodk_node. split; [|split].
    + subst kids'. rewrite app_length. cbn [length]. lia.
    + subst kids'. eapply tight_snoc; [eassumption|]. cbn [rbox]. assumption.
    + subst kids'. cbn [rkidsgood] in *. apply Forall_app. split; [assumption|].
      constructor; [exact Hitem|constructor].
  - (* internal level *)
    rewrite rgoodk_node in Hg. destruct Hg as (Hlen & Ht & Hk).
    rewrite rinsert_S in H. cbv zeta in H.
    pose proof (choose_least_lt kids ib (tight_nonempty _ _ Ht)) as Hidx.
    destruct (nth_error kids (choose_least kids ib)) as [child|] eqn:En.
    2:{ apply nth_error_None in En. lia. }
    destruct (set_nth_split _ _ _ En) as (k1 & k2 & Ekids & Hset).
    assert (Hchild : rgoodk 16 m h child).
    { cbn [rkidsgood] in Hk. rewrite Forall_forall in Hk. apply Hk.
      eapply nth_error_In; eassumption. }
    pose proof (rinsert_box h child ib item) as Hbox.
    destruct (rinsert h child ib item) as [child1 g1] eqn:E1. cbn [fst] in Hbox.
    destruct (IH child child1 g1 Hchild E1) as [Hc2 Hb2]. cbv zeta in Hc2, Hb2.
    set (child2 := if g1 then set_box child1 (rexpand (rbox child1) ib) else child1) in *.
    set (grown := if g1 then negb (rcontains b ib) else false) in *.
    (* the box of the result *)
    assert (Hgrow : bexp (if grown then rexpand b ib else b) b ib).
    { subst grown. destruct g1; [apply bexp_grow|].
      intros cf Hcf. subst child2.
      assert (cf b <= cf (rbox child)).
      { destruct (Ht cf Hcf) as [Hc _]. apply Hc. eapply nth_error_In; eassumption. }
      specialize (Hb2 cf Hcf). rewrite Hbox in Hb2. lia. }
    assert (Hkids2 : exists bc kc, child2 = RNode bc kc).
    { destruct child2 as [|bc kc]; [destruct h; contradiction|]. eauto. }
    destruct Hkids2 as (bc & kc & Ec2). rewrite Ec2 in *. cbn [rkids rbox] in *.
    rewrite rgoodk_node in Hc2. destruct Hc2 as (Hlc & Htc & Hkc).
    assert (Hothers : forall x, In x (k1 ++ k2) -> In x kids).
    { intros x. rewrite Ekids, !in_app_iff. cbn [In]. tauto. }
    destruct (Nat.eqb_spec (length kc) (rMaxEntries + 1)) as [E17|N17].
    + (* split *)
      change (rMaxEntries + 1)%nat with 17%nat in E17.
      destruct (rsplit bc kc) as [l r] eqn:Es.
      injection H as <- <-.
      destruct (split_good m h bc kc l r Htc E17 Hkc Es)
        as (kl & kr & El & Er & Hin & Hgl & Hgr).
      cbv zeta.
      assert (E : (if grown then set_box (RNode b (set_nth kids (choose_least kids ib) l ++ [r]))
                                         (rexpand (rbox (RNode b (set_nth kids (choose_least kids ib) l ++ [r]))) ib)
                   else RNode b (set_nth kids (choose_least kids ib) l ++ [r])) =
                  RNode (if grown then rexpand b ib else b) (k1 ++ l :: k2 ++ [r])).
      { rewrite Hset. rewrite <- app_assoc. destruct grown; reflexivity. }
      rewrite E. cbn [rbox]. split; [|assumption].
      rewrite rgoodk_node. split; [|split].
      * rewrite Ekids in Hlen. rewrite !app_length in *. cbn [length] in *.
        rewrite app_length. cbn [length]. lia.
      * eapply (tight_replace b _ ib child k1 k2 bc [l; r]).
        -- rewrite <- Ekids. assumption.
        -- assumption.
        -- assumption.
        -- subst l r. eapply tight_pair; try eassumption.
           ++ rewrite rgoodk_node in Hgl. tauto.
           ++ rewrite rgoodk_node in Hgr. tauto.
        -- intros x. in_norm; tauto.
      * cbn [rkidsgood] in *. rewrite Forall_forall in *. intros x Hx.
        rewrite !in_app_iff in Hx. cbn [In] in Hx. rewrite in_app_iff in Hx. cbn [In] in Hx.
        destruct Hx as [Hx|[<-|[Hx|[<-|[]]]]]; try assumption.
        -- apply Hk, Hothers, in_app_iff; auto.
        -- apply Hk, Hothers, in_app_iff; auto.
    + (* no split *)
      injection H as <- <-. cbv zeta.
      assert (E : (if grown then set_box (RNode b (set_nth kids (choose_least kids ib) (RNode bc kc)))
                                         (rexpand (rbox (RNode b (set_nth kids (choose_least kids ib) (RNode bc kc)))) ib)
                   else RNode b (set_nth kids (choose_least kids ib) (RNode bc kc))) =
                  RNode (if grown then rexpand b ib else b) (k1 ++ RNode bc kc :: k2)).
      { rewrite Hset. destruct grown; reflexivity. }
      rewrite E. cbn [rbox]. split; [|assumption].
      change (rMaxEntries + 1)%nat with 17%nat in N17.
      rewrite rgoodk_node. split; [|split].
      * rewrite Ekids in Hlen. rewrite !app_length in *. cbn [length] in *. lia.
      * eapply (tight_replace b _ ib child k1 k2 bc [RNode bc kc]).
        -- rewrite <- Ekids. assumption.
        -- assumption.
        -- assumption.
        -- apply tight_single. reflexivity.
        -- intros x. in_norm; tauto.
      * cbn [rkidsgood] in *. rewrite Forall_forall in *. intros x Hx.
        rewrite !in_app_iff in Hx. cbn [In] in Hx.
        destruct Hx as [Hx|[<-|Hx]].
        -- apply Hk, Hothers, in_app_iff; auto.
        -- rewrite rgoodk_node. split; [lia|split; assumption].
        -- apply Hk, Hothers, in_app_iff; auto.
Qed.

(* tree-level invariant *)
Definition rt_good (m : Z) (t : rtree) : Prop :=
  match rroot t with
  | None => rheight t = O
  | Some r => rgoodk 16 m (rheight t) r
  end.

Theorem rinsert_shape m t ib item :
  rt_good m t -> 0 <= item < m -> rt_good m (rt_insert t ib item).
Proof.
  intros Hg Hitem. unfold rt_good in Hg. unfold rt_insert.
  destruct (rroot t) as [root|] eqn:Er.
  - destruct (rinsert (rheight t) root ib item) as [root1 g] eqn:E1.
    destruct (rinsert_good m ib item Hitem _ _ _ _ Hg E1) as [H2 Hb]. cbv zeta in H2, Hb.
    set (root2 := if g then set_box root1 (rexpand (rbox root1) ib) else root1) in *.
    assert (Hk2 : exists b2 k2, root2 = RNode b2 k2).
    { destruct root2 as [|b2 k2]; [destruct (rheight t); contradiction|]. eauto. }
    destruct Hk2 as (b2 & k2 & E2). rewrite E2 in *. cbn [rkids rbox] in *.
    destruct (Nat.eqb_spec (length k2) (rMaxEntries + 1)) as [E17|N17].
    + change (rMaxEntries + 1)%nat with 17%nat in E17.
      destruct (rsplit b2 k2) as [l r] eqn:Es.
      rewrite rgoodk_node in H2. destruct H2 as (Hl2 & Ht2 & Hk2).
      destruct (split_good m _ b2 k2 l r Ht2 E17 Hk2 Es)
        as (kl & kr & El & Er' & Hin & Hgl & Hgr).
      unfold rt_good. cbn [rroot rheight].
      rewrite rgoodk_node. split; [|split].
      * cbn [length]. lia.
      * apply rrecalc_tight. discriminate.
      * cbn [rkidsgood]. repeat constructor; assumption.
    + change (rMaxEntries + 1)%nat with 17%nat in N17.
      unfold rt_good. cbn [rroot rheight].
      apply rgoodk_strengthen; [assumption|]. cbn [rkids]. assumption.
  - rewrite Hg. rewrite rinsert_O. cbn [app].
    assert (E : (if negb (rcontains ib ib)
                 then set_box (RNode ib [RItem ib item]) (rexpand (rbox (RNode ib [RItem ib item])) ib)
                 else RNode ib [RItem ib item]) =
                RNode (if negb (rcontains ib ib) then rexpand ib ib else ib) [RItem ib item]).
    { destruct (negb (rcontains ib ib)); reflexivity. }
    rewrite E. cbn [rkids length]. 
    change (1 =? rMaxEntries + 1)%nat with false. cbv iota.
    unfold rt_good. cbn [rroot rheight].
    rewrite rgoodk_node. split; [|split].
    + cbn [length]. lia.
    + apply tight_single. intros cf Hcf. cbn [rbox].
      rewrite (bexp_grow ib ib cf Hcf). lia.
    + cbn [rkidsgood]. repeat constructor; apply Hitem.
Qed.

Lemma rbuild_S n :
  rbuild rect_of (S n) =
  rt_insert (rbuild rect_of n) (rect_of (Z.of_nat n)) (Z.of_nat n).
Proof.
  unfold rbuild. rewrite seq_S, fold_left_app. reflexivity.
Qed.

Lemma rbuild_good N : forall n, (n <= N)%nat -> rt_good (Z.of_nat N) (rbuild rect_of n).
Proof.
  induction n as [|n IH]; intros Hn.
  - reflexivity.
  - rewrite rbuild_S. apply rinsert_shape; [apply IH; lia|lia].
Qed.

Lemma rgood_shape m : m <= 2 ^ 32 ->
  forall h n K, (K <= 255)%nat -> rgoodk K m h n -> rshape h n.
Proof.
  intros Hm. induction h as [|h IH]; intros n K HK Hg;
    (destruct n as [|b ks]; [contradiction|]);
    rewrite rgoodk_node in Hg; destruct Hg as (Hl & _ & Hk); cbn [rkidsgood] in Hk.
  - split; [lia|]. rewrite Forall_forall in *. intros c Hc. specialize (Hk c Hc).
    destruct c; [|contradiction]. cbn [ritemok rleafkid] in *. lia.
  - split; [lia|]. rewrite Forall_forall in *. intros c Hc. specialize (Hk c Hc).
    apply (IH c 16%nat); [lia|assumption].
Qed.

(* the trees produced by rbuild are well shaped (every node has between 1 and
   16 kids, items are in [0, n)) *)
Theorem rbuild_shape n : Z.of_nat n <= 2 ^ 32 ->
  match rroot (rbuild rect_of n) with
  | None => True
  | Some r => rshape (rheight (rbuild rect_of n)) r
  end.
Proof.
  intros Hn. pose proof (rbuild_good n n (le_n n)) as Hg. unfold rt_good in Hg.
  destruct (rroot (rbuild rect_of n)) as [r|]; [|exact I].
  apply (rgood_shape (Z.of_nat n) Hn _ r 16%nat); [lia|assumption].
Qed.

End CodecR.

Print Assumptions rncsearch_renc.
Print Assumptions r_codec.
Print Assumptions rinsert_shape.
Print Assumptions rbuild_good.
Print Assumptions rbuild_shape.
