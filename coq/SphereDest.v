(* SphereDest.v — property C15 over the reals: travelling a distance d along a
   bearing th from A (DestinationPoint, geo.go) yields a location whose distance
   back to A is d and whose initial bearing from A is th.

   The two Atan2 calls of the code enter through their defining property only
   (Go's math.Atan2 is outside the model): alpha = atan2 y x is an angle with
   cos alpha * sqrt (x^2+y^2) = x and sin alpha * sqrt (x^2+y^2) = y.
   For the latitude, atan2 s c with s^2 + c^2 = 1, c >= 0 is the angle in
   [-PI/2, PI/2] whose sine is s.  *)
From Coq Require Import Reals Lra Lia.
From GJ Require Import Sphere SphereRect.
Open Scope R_scope.

Section Dest.
Variables latA lonA latB lonB d th : R.

Let del := d / Rearth.
Let p1 := rad latA.
(* sin of the destination latitude, and the two arguments of the longitude's atan2 (geo.go) *)
Let s := sin p1 * cos del + cos p1 * sin del * cos (rad th).
Let X := cos del - sin p1 * s.
Let Y := sin (rad th) * sin del * cos p1.

Hypothesis lat_sin : sin (rad latB) = s.
Hypothesis lat_cos : 0 <= cos (rad latB).
Hypothesis lon_cos : cos (rad lonB - rad lonA) * sqrt (X * X + Y * Y) = X.
Hypothesis lon_sin : sin (rad lonB - rad lonA) * sqrt (X * X + Y * Y) = Y.
Hypothesis start_off_pole : 0 < cos p1.
Hypothesis dest_off_pole : 0 < cos (rad latB).

(* the radius of the longitude's atan2 is cos lat1 * cos lat2 *)
Lemma lon_radius : sqrt (X * X + Y * Y) = cos p1 * cos (rad latB).
Proof.
  pose proof (sqr_sin_cos p1) as E1. pose proof (sqr_sin_cos del) as E2. pose proof (sqr_sin_cos (rad th)) as E3.
  pose proof (sqr_sin_cos (rad latB)) as E4. rewrite lat_sin in E4.
  assert (Hsq : X * X + Y * Y = (cos p1 * cos (rad latB)) * (cos p1 * cos (rad latB))).
  { assert (Hc : cos (rad latB) * cos (rad latB) = 1 - s * s) by lra.
    replace ((cos p1 * cos (rad latB)) * (cos p1 * cos (rad latB))) with (cos p1 * cos p1 * (cos (rad latB) * cos (rad latB))) by ring.
    rewrite Hc. unfold X, Y, s.
    set (a := sin p1) in *. set (b := cos p1) in *. set (p := cos del) in *. set (q := sin del) in *.
    set (u := cos (rad th)) in *. set (w := sin (rad th)) in *.
    assert (Ha : a * a = 1 - b * b) by lra. assert (Hq : q * q = 1 - p * p) by lra. assert (Hw : w * w = 1 - u * u) by lra.
    (* both sides are b^2 ((b p - a q u)^2 + w^2 q^2) *)
    transitivity (b * b * ((b * p - a * q * u) * (b * p - a * q * u) + w * w * (q * q))).
    - assert (Hx : p - a * (a * p + b * q * u) = b * (b * p - a * q * u)).
      { replace (p - a * (a * p + b * q * u)) with (p - (a * a) * p - a * b * q * u) by ring. rewrite Ha. ring. }
      rewrite Hx. ring.
    - f_equal. apply Rminus_diag_uniq.
      replace ((b * p - a * q * u) * (b * p - a * q * u) + w * w * (q * q) - (1 - (a * p + b * q * u) * (a * p + b * q * u)))
        with ((a * a + b * b) * (p * p) + (a * a + b * b) * ((q * q) * (u * u)) + (w * w) * (q * q) - 1) by ring.
      rewrite E1, Hw. replace (1 * (p * p) + 1 * (q * q * (u * u)) + (1 - u * u) * (q * q) - 1) with (q * q + p * p - 1) by ring.
      rewrite E2. ring. }
  rewrite Hsq. apply sqrt_square. apply Rmult_le_pos; lra.
Qed.

(* the cosine of the central angle between A and the destination is cos (d / R) *)
Lemma central_angle : sin p1 * sin (rad latB) + cos p1 * cos (rad latB) * cos (rad lonB - rad lonA) = cos del.
Proof.
  pose proof lon_cos as H. rewrite lon_radius in H. rewrite lat_sin.
  replace (cos p1 * cos (rad latB) * cos (rad lonB - rad lonA)) with (cos (rad lonB - rad lonA) * (cos p1 * cos (rad latB))) by ring.
  rewrite H. unfold X. ring.
Qed.

(* MAIN 1: the haversine of (A, destination) is the haversine of the distance travelled *)
Theorem destination_haversine : hav latA lonA latB lonB = dist_to_hav d.
Proof.
  rewrite hav_cos. fold p1. rewrite central_angle. unfold dist_to_hav. cbv zeta.
  replace (1 / 2 * d / Rearth) with (del / 2) by (unfold del; field; unfold Rearth; lra).
  rewrite sin_half_sqr. reflexivity.
Qed.

(* MAIN 2: so the distance back is d *)
Theorem destination_distance_back : 0 <= d <= piR -> distance_to latA lonA latB lonB = d.
Proof. intros Hd. unfold distance_to. rewrite destination_haversine. apply dist_hav_inverse. exact Hd. Qed.

(* MAIN 3: the two arguments of BearingTo's atan2 are sin th * sin del and cos th * sin del: the initial
   bearing from A to the destination is th (for 0 < sin del, i.e. 0 < d < PI R) *)
Theorem destination_bearing_back :
  sin (rad lonB - rad lonA) * cos (rad latB) = sin (rad th) * sin del /\
  cos p1 * sin (rad latB) - sin p1 * cos (rad latB) * cos (rad lonB - rad lonA) = cos (rad th) * sin del.
Proof.
  pose proof lon_cos as Hc. pose proof lon_sin as Hs. rewrite lon_radius in Hc, Hs.
  pose proof (sqr_sin_cos p1) as E1.
  split.
  - apply Rmult_eq_reg_l with (cos p1); [|lra].
    replace (cos p1 * (sin (rad lonB - rad lonA) * cos (rad latB))) with (sin (rad lonB - rad lonA) * (cos p1 * cos (rad latB))) by ring.
    rewrite Hs. unfold Y. ring.
  - apply Rmult_eq_reg_l with (cos p1); [|lra].
    replace (cos p1 * (cos p1 * sin (rad latB) - sin p1 * cos (rad latB) * cos (rad lonB - rad lonA)))
      with (cos p1 * cos p1 * sin (rad latB) - sin p1 * (cos (rad lonB - rad lonA) * (cos p1 * cos (rad latB)))) by ring.
    rewrite Hc, lat_sin. unfold X.
    replace (cos p1 * cos p1 * s - sin p1 * (cos del - sin p1 * s)) with ((sin p1 * sin p1 + cos p1 * cos p1) * s - sin p1 * cos del) by ring.
    rewrite E1. unfold s. ring.
Qed.

End Dest.

Print Assumptions destination_distance_back.
Print Assumptions destination_bearing_back.
