(* CoversBoxes.v — property C09: if A contains a non-empty B then A's rectangle
   covers B's.  Geometry level (all sixteen pairs, including the
   Line.ContainsLine walk, whose accepting step is shown to pass the far end of
   the covered segment through a receiver segment) and object level
   (Features, collections, nested). *)
From Coq Require Import Lia.
From GJ Require Import Base Kernel KernelSpec RaycastProofs KernelProofs IntersectsProofs Series SeriesSpec SeriesProofs
     Ring RingSpec PipProofs PairProofs Pairs LineProofs Obj ObjSpec ObjProofs BoxLaws ContainsBoxes.
Open Scope Z_scope.

(* ------------------------------------------------------------------ *)
(* integer plane geometry                                               *)

(* two vectors parallel to a non-zero third are parallel to each other *)
Lemma parallel2 (p q a1 b1 a2 b2 : Z) : (p <> 0 \/ q <> 0) -> p * b1 - q * a1 = 0 -> p * b2 - q * a2 = 0 -> a1 * b2 - a2 * b1 = 0.
Proof.
  intros Hv H1 H2. destruct Hv as [Hp|Hq].
  - assert (E : p * (a1 * b2 - a2 * b1) = 0).
    { replace (p * (a1 * b2 - a2 * b1)) with (a1 * (p * b2 - q * a2) - a2 * (p * b1 - q * a1)) by ring. rewrite H1, H2. ring. }
    apply Z.mul_eq_0 in E. destruct E; [contradiction|assumption].
  - assert (E : q * (a1 * b2 - a2 * b1) = 0).
    { replace (q * (a1 * b2 - a2 * b1)) with (b1 * (p * b2 - q * a2) - b2 * (p * b1 - q * a1)) by ring. rewrite H1, H2. ring. }
    apply Z.mul_eq_0 in E. destruct E; [contradiction|assumption].
Qed.

(* on a line through a with direction u <> 0: a point whose projection lies between those of c and e
   has its coordinates between theirs *)
Lemma between_coord (ux uy cx cy ex ey : Z) :
  (ux <> 0 \/ uy <> 0) ->
  cx * uy - cy * ux = 0 -> ex * uy - ey * ux = 0 ->
  cx * ux + cy * uy <= ux * ux + uy * uy <= ex * ux + ey * uy ->
  (ux - cx) * (ex - ux) >= 0 /\ (uy - cy) * (ey - uy) >= 0.
Proof.
  intros Hu Hc He [Hd1 Hd2]. set (N := ux * ux + uy * uy) in *. set (dc := cx * ux + cy * uy) in *. set (de := ex * ux + ey * uy) in *.
  assert (HN : 0 < N) by (unfold N; destruct Hu; nia).
  assert (Ecx : N * cx = ux * dc).
  { unfold N, dc. assert (G : (ux * ux + uy * uy) * cx - ux * (cx * ux + cy * uy) = uy * (cx * uy - cy * ux)) by ring. rewrite Hc in G. lia. }
  assert (Ecy : N * cy = uy * dc).
  { unfold N, dc. assert (G : (ux * ux + uy * uy) * cy - uy * (cx * ux + cy * uy) = - ux * (cx * uy - cy * ux)) by ring. rewrite Hc in G. lia. }
  assert (Eex : N * ex = ux * de).
  { unfold N, de. assert (G : (ux * ux + uy * uy) * ex - ux * (ex * ux + ey * uy) = uy * (ex * uy - ey * ux)) by ring. rewrite He in G. lia. }
  assert (Eey : N * ey = uy * de).
  { unfold N, de. assert (G : (ux * ux + uy * uy) * ey - uy * (ex * ux + ey * uy) = - ux * (ex * uy - ey * ux)) by ring. rewrite He in G. lia. }
  assert (Px : N * N * ((ux - cx) * (ex - ux)) = ux * ux * ((N - dc) * (de - N))).
  { replace (N * N * ((ux - cx) * (ex - ux))) with ((N * ux - N * cx) * (N * ex - N * ux)) by ring. rewrite Ecx, Eex. ring. }
  assert (Py : N * N * ((uy - cy) * (ey - uy)) = uy * uy * ((N - dc) * (de - N))).
  { replace (N * N * ((uy - cy) * (ey - uy))) with ((N * uy - N * cy) * (N * ey - N * uy)) by ring. rewrite Ecy, Eey. ring. }
  assert (K : 0 <= (N - dc) * (de - N)) by (apply Z.mul_nonneg_nonneg; lia).
  assert (Kx : 0 <= ux * ux * ((N - dc) * (de - N))) by (apply Z.mul_nonneg_nonneg; [apply Z.square_nonneg|exact K]).
  assert (Ky : 0 <= uy * uy * ((N - dc) * (de - N))) by (apply Z.mul_nonneg_nonneg; [apply Z.square_nonneg|exact K]).
  assert (NN : 0 < N * N) by (apply Z.mul_pos_pos; exact HN).
  rewrite <- Px in Kx. rewrite <- Py in Ky.
  apply (proj1 (Z.mul_nonneg_cancel_l _ _ NN)) in Kx. apply (proj1 (Z.mul_nonneg_cancel_l _ _ NN)) in Ky. split; lia.
Qed.

Lemma between_in_box (R : rect) (c e b : pt) :
  inbox R c -> inbox R e -> (px b - px c) * (px e - px b) >= 0 -> (py b - py c) * (py e - py b) >= 0 -> inbox R b.
Proof. unfold inbox. intros [C1 C2] [E1 E2] Hx Hy. split; nia. Qed.

(* ------------------------------------------------------------------ *)
(* one pass of the walk: where the result comes from                    *)

Definition step_src (l : rng) (a b cur : pt) (r : pt * Z) : Prop :=
  exists s, In s (ring_segments l) /\ collinear_point s a = true /\ collinear_point s b = true /\
            raycast_on s cur = true /\ (fst r = fst s \/ fst r = snd s) /\ snd r = dotp a b (fst r).

Lemma covers_step_strong (l : rng) (a b cur : pt) (curd : Z) :
  let r := covers_step l (a, b) cur curd in
  curd <= snd r /\ (r = (cur, curd) \/ (step_src l a b cur r /\ curd < snd r)).
Proof.
  unfold covers_step.
  assert (G : forall (cands : list (seg * nat)) (acc : pt * Z),
            (forall si, In si cands -> In (fst si) (ring_segments l)) ->
            curd <= snd acc /\ (acc = (cur, curd) \/ (step_src l a b cur acc /\ curd < snd acc)) ->
            let r := fold_left
              (fun acc0 (si : seg * nat) =>
                 let s := fst si in
                 if collinear_point s a && collinear_point s b && raycast_on s cur then
                   let acc1 := let d := dotp a b (fst s) in if snd acc0 <? d then (fst s, d) else acc0 in
                   let d := dotp a b (snd s) in if snd acc1 <? d then (snd s, d) else acc1
                 else acc0) cands acc in
            curd <= snd r /\ (r = (cur, curd) \/ (step_src l a b cur r /\ curd < snd r))).
  { induction cands as [|si cands IH]; intros acc Hin Hacc; cbn [fold_left]; [exact Hacc|].
    apply IH; [intros x Hx; apply Hin; right; exact Hx|].
    assert (Hs : In (fst si) (ring_segments l)) by (apply Hin; left; reflexivity).
    cbv zeta. destruct (collinear_point (fst si) a && collinear_point (fst si) b && raycast_on (fst si) cur) eqn:E; [|exact Hacc].
    rewrite !andb_true_iff in E. destruct E as [[Ca Cb] Ron].
    destruct Hacc as [Hle Hacc].
    destruct (Z.ltb_spec (snd acc) (dotp a b (fst (fst si)))) as [L1|L1]; cbn [fst snd].
    - destruct (Z.ltb_spec (dotp a b (fst (fst si))) (dotp a b (snd (fst si)))) as [L2|L2]; cbn [fst snd].
      + split; [lia|]. right. split; [|lia]. exists (fst si). cbn [fst snd]. repeat split; try assumption. right. reflexivity.
      + split; [lia|]. right. split; [|lia]. exists (fst si). cbn [fst snd]. repeat split; try assumption. left. reflexivity.
    - destruct (Z.ltb_spec (snd acc) (dotp a b (snd (fst si)))) as [L2|L2]; cbn [fst snd].
      + split; [lia|]. right. split; [|lia]. exists (fst si). cbn [fst snd]. repeat split; try assumption. right. reflexivity.
      + split; [exact Hle|exact Hacc]. }
  apply G.
  - intros si Hsi. unfold ring_search in Hsi. apply filter_In in Hsi. destruct Hsi as [Hsi _].
    unfold indexed in Hsi. destruct si as [s0 i0]. apply in_combine_l in Hsi. exact Hsi.
  - cbn [snd]. split; [lia|left; reflexivity].
Qed.

(* facts about the source segment of a pass that made progress *)
Lemma src_facts (R : rect) (l : rng) (a b cur : pt) (curd : Z) (r : pt * Z) :
  (forall s, In s (ring_segments l) -> inbox R (fst s) /\ inbox R (snd s)) ->
  pt_eqb a b = false -> cross a b cur = 0 -> curd = dotp a b cur ->
  step_src l a b cur r -> curd < snd r ->
  inbox R cur /\ inbox R (fst r) /\ cross a b (fst r) = 0 /\ snd r = dotp a b (fst r).
Proof.
  intros HR Hab Hcc Hcd (s & Hs & Ca & Cb & Ron & Hend & Hd) Hlt.
  destruct (HR s Hs) as [B1 B2]. rewrite raycast_on_eq in Ron.
  pose proof (on_segb_inbox R (fst s) (snd s) cur B1 B2) as Hcur. destruct s as [s1 s2]. cbn [fst snd] in *.
  specialize (Hcur Ron).
  assert (He : inbox R (fst r)) by (destruct Hend as [-> | ->]; assumption).
  split; [exact Hcur|]. split; [exact He|]. split; [|exact Hd].
  unfold on_segb in Ron. rewrite !andb_true_iff in Ron. destruct Ron as [[[[Rc Rx1] Rx2] Ry1] Ry2].
  apply Z.eqb_eq in Rc. apply Z.leb_le in Rx1, Rx2, Ry1, Ry2.
  unfold collinear_point in Ca, Cb. apply Z.eqb_eq in Ca. apply Z.eqb_eq in Cb.
  destruct a as [ax ay], b as [bx by_], cur as [cx cy], s1 as [s1x s1y], s2 as [s2x s2y], r as [[ex ey] rd].
  unfold cross, dotp, px, py, pt_eqb in *. cbn [fst snd] in *.
  (* the source segment is not degenerate: otherwise its ends are cur itself and there is no progress *)
  assert (Hv : s2x - s1x <> 0 \/ s2y - s1y <> 0).
  { destruct (Z.eq_dec (s2x - s1x) 0) as [Ex|Ex]; [|left; exact Ex]. destruct (Z.eq_dec (s2y - s1y) 0) as [Ey|Ey]; [|right; exact Ey].
    exfalso. assert (s2x = s1x) by lia. assert (s2y = s1y) by lia. subst s2x s2y.
    rewrite Z.min_id, Z.max_id in *. assert (cx = s1x) by lia. assert (cy = s1y) by lia. subst cx cy.
    destruct Hend as [E|E]; inversion E; subst ex ey; lia. }
  set (p := s2x - s1x) in *. set (q := s2y - s1y) in *.
  assert (Pu : p * (by_ - ay) - q * (bx - ax) = 0) by lia.
  assert (Pe : p * (ey - ay) - q * (ex - ax) = 0).
  { destruct Hend as [E|E]; inversion E; subst ex ey; unfold p, q in *; lia. }
  pose proof (parallel2 p q (bx - ax) (by_ - ay) (ex - ax) (ey - ay) Hv Pu Pe) as Hcross. lia.
Qed.

(* the far end b of the covered segment lies in R when a pass reaches it *)
Lemma reach_in_box (R : rect) (a b cur e : pt) :
  pt_eqb a b = false -> cross a b cur = 0 -> cross a b e = 0 -> inbox R cur -> inbox R e ->
  dotp a b cur <= dotp a b b <= dotp a b e -> inbox R b.
Proof.
  intros Hab Hcc Hce Hcur He [D1 D2].
  destruct a as [ax ay], b as [bx by_], cur as [cx cy], e as [ex ey].
  unfold pt_eqb in *. unfold cross, dotp, px, py in *. cbn [fst snd] in *.
  apply andb_false_iff in Hab.
  assert (Hu : bx - ax <> 0 \/ by_ - ay <> 0) by (destruct Hab as [H|H]; apply Z.eqb_neq in H; lia).
  destruct (between_coord (bx - ax) (by_ - ay) (cx - ax) (cy - ay) (ex - ax) (ey - ay) Hu) as [Bx By]; try lia.
  apply (between_in_box R (cx, cy) (ex, ey) (bx, by_) Hcur He); unfold px, py; cbn [fst snd]; lia.
Qed.

(* the walk: when it answers true, the far end of the segment is in R *)
Lemma covers_walk_true_end (R : rect) (l : rng) (a b : pt) :
  (forall s, In s (ring_segments l) -> inbox R (fst s) /\ inbox R (snd s)) -> pt_eqb a b = false ->
  forall fuel cur curd, cross a b cur = 0 -> curd = dotp a b cur -> curd < dotp a b b ->
  covers_walk fuel l (a, b) cur curd = Some true -> inbox R b.
Proof.
  intros HR Hab. induction fuel as [|f IH]; intros cur curd Hcc Hcd Hlt H; [discriminate|].
  cbn [covers_walk] in H. pose proof (covers_step_strong l a b cur curd) as S. cbv zeta in S.
  destruct (covers_step l (a, b) cur curd) as [best bestd]. cbn [fst snd] in *.
  destruct S as [Hle [E|[Hsrc Hprog]]].
  - inversion E; subst best bestd. destruct (Z.leb_spec (dotp a b b) curd) as [L|L]; [lia|].
    rewrite Z.ltb_irrefl in H. cbn [negb] in H. discriminate.
  - destruct (src_facts R l a b cur curd (best, bestd) HR Hab Hcc Hcd Hsrc Hprog) as (Hcur & He & Hce & Hd). cbn [fst snd] in *.
    destruct (Z.leb_spec (dotp a b b) bestd) as [L|L].
    + apply (reach_in_box R a b cur best Hab Hcc Hce Hcur He). lia.
    + destruct (Z.ltb_spec curd bestd) as [Lt|Ge]; cbn [negb] in H; [|discriminate].
      apply (IH best bestd Hce Hd L H).
Qed.

(* ------------------------------------------------------------------ *)
(* Line.ContainsLine: every vertex of the argument is in the receiver's rectangle *)

Lemma on_segb_ends (a b : pt) : on_segb (a, b) a = true /\ on_segb (a, b) b = true.
Proof.
  destruct a as [ax ay], b as [bx by_]. unfold on_segb, cross, px, py. cbn [fst snd].
  split; rewrite !andb_true_iff, Z.eqb_eq, !Z.leb_le; repeat split; lia.
Qed.

Lemma seg_ends_in_rect (ps : list pt) (s : seg) : In s (ring_segments (Lr ps)) ->
  inbox (ring_rect (Lr ps)) (fst s) /\ inbox (ring_rect (Lr ps)) (snd s).
Proof.
  intros Hin. destruct s as [a b]. destruct (on_segb_ends a b) as [Ea Eb]. cbn [fst snd].
  split; apply rect_contains_point_inbox; apply (on_line_segment_in_rect ps (a, b)); try exact Hin; rewrite raycast_on_eq; assumption.
Qed.

Lemma line_covers_true_ends (ps : list pt) (sg : seg) : line_covers_segment (Lr ps) sg = Some true ->
  inbox (ring_rect (Lr ps)) (fst sg) /\ inbox (ring_rect (Lr ps)) (snd sg).
Proof.
  intros H. destruct (line_covers_true_touch _ _ H) as (s & Hs & Hon).
  assert (Ha : inbox (ring_rect (Lr ps)) (fst sg)).
  { apply rect_contains_point_inbox. apply (on_line_segment_in_rect ps s (fst sg) Hs Hon). }
  split; [exact Ha|]. unfold line_covers_segment in H. destruct (pt_eqb (fst sg) (snd sg)) eqn:E.
  - apply pt_eqb_eq in E. rewrite <- E. exact Ha.
  - destruct sg as [a b]. cbn [fst snd] in *.
    apply (covers_walk_true_end (ring_rect (Lr ps)) (Lr ps) a b (seg_ends_in_rect ps) E (covers_fuel (Lr ps)) a 0); try exact H.
    + destruct a, b. unfold cross, px, py. cbn [fst snd]. ring.
    + destruct a, b. unfold dotp, px, py. cbn [fst snd]. ring.
    + destruct a as [ax ay], b as [bx by_]. unfold pt_eqb in *. unfold dotp, px, py in *. cbn [fst snd] in *.
      pose proof (Z.square_nonneg (bx - ax)) as S1. pose proof (Z.square_nonneg (by_ - ay)) as S2.
      apply andb_false_iff in E. destruct E as [E|E]; apply Z.eqb_neq in E.
      * assert (0 < (bx - ax) * (bx - ax)) by nia. lia.
      * assert (0 < (by_ - ay) * (by_ - ay)) by nia. lia.
Qed.

Lemma line_contains_line_ends (ps : list pt) (o : rng) (sg : seg) :
  line_contains_line (Lr ps) o = Some true -> In sg (ring_segments o) ->
  inbox (ring_rect (Lr ps)) (fst sg) /\ inbox (ring_rect (Lr ps)) (snd sg).
Proof.
  unfold line_contains_line. destruct (ring_empty (Lr ps) || ring_empty o); [discriminate|].
  intros H Hin. apply line_covers_true_ends. apply (all_some_true_in _ _ H). apply in_map. exact Hin.
Qed.

(* a rectangle that holds all the points holds their box *)
Lemma bbox_in_rect (R : rect) (ps : list pt) : ps <> [] -> (forall p, In p ps -> inbox R p) -> rect_contains_rect R (bbox_spec ps) = true.
Proof.
  intros Hne H. destruct (bbox_spec_attained ps Hne) as (p1 & p2 & p3 & p4 & I1 & I2 & I3 & I4 & E1 & E2 & E3 & E4). cbv zeta in *.
  pose proof (H p1 I1) as [A1 _]. pose proof (H p2 I2) as [_ A2]. pose proof (H p3 I3) as [A3 _]. pose proof (H p4 I4) as [_ A4].
  destruct R as [[a b] [c d]], (bbox_spec ps) as [[e f] [g h]]. unfold rect_contains_rect, px, py in *. cbn [fst snd] in *.
  destruct (Z.ltb_spec e a), (Z.ltb_spec c g), (Z.ltb_spec f b), (Z.ltb_spec d h); cbn [orb]; try reflexivity; lia.
Qed.

(* the points of an open series with at least two points are ends of its segments *)
Lemma line_point_is_end (qs : list pt) (p : pt) : (2 <= length qs)%nat -> In p qs ->
  exists sg, In sg (path_segs qs) /\ (p = fst sg \/ p = snd sg).
Proof.
  revert p. induction qs as [|a [|b r] IH]; intros p Hlen Hin; cbn [length] in Hlen; try lia.
  destruct Hin as [<-|Hin].
  - exists (a, b). split; [left; reflexivity|left; reflexivity].
  - destruct r as [|c r'].
    + destruct Hin as [<-|[]]. exists (a, b). split; [left; reflexivity|right; reflexivity].
    + destruct (IH p ltac:(cbn [length]; lia) Hin) as (sg & Hsg & Hp). exists sg. split; [right; exact Hsg|exact Hp].
Qed.

(* ------------------------------------------------------------------ *)
(* geometry level                                                       *)

Lemma rcr_of_inbox (R : rect) (mn mx : pt) : inbox R mn -> inbox R mx -> rect_contains_rect R (mn, mx) = true.
Proof.
  destruct R as [[a b] [c d]], mn as [e f], mx as [g h]. unfold inbox, rect_contains_rect, px, py. cbn [fst snd].
  intros [[A1 A2] [A3 A4]] [[B1 B2] [B3 B4]].
  destruct (Z.ltb_spec e a), (Z.ltb_spec c g), (Z.ltb_spec f b), (Z.ltb_spec d h); cbn [orb]; try reflexivity; lia.
Qed.

Lemma rcr_point (R : rect) (p : pt) : rect_contains_point R p = true -> rect_contains_rect R (p, p) = true.
Proof. intros H. apply rect_contains_point_inbox in H. apply rcr_of_inbox; exact H. Qed.

Lemma rcr_refl_wf (r : rect) : rect_wf r -> rect_contains_rect r r = true.
Proof.
  destruct r as [[a b] [c d]]. unfold rect_wf, rect_contains_rect, px, py. cbn [fst snd]. intros [W1 W2].
  rewrite !Z.ltb_irrefl. reflexivity.
Qed.

Lemma rir_point_contains (R : rect) (p : pt) : rect_intersects_rect R (p, p) = true -> rect_contains_point R p = true.
Proof.
  intros H. apply rir_iff in H. apply rect_contains_point_inbox. destruct R as [[a b] [c d]], p as [x y].
  unfold inbox, px, py in *. cbn [fst snd] in *. lia.
Qed.

Lemma line_rect_is_bbox (qs : list pt) : ring_empty (Lr qs) = false -> ring_rect (Lr qs) = bbox_spec qs /\ (2 <= length qs)%nat /\
  ring_segments (Lr qs) = path_segs qs.
Proof.
  unfold Lr, ring_empty, ring_rect, ring_segments. rewrite RS_empty, RS_rect, RS_segs. intros He.
  rewrite (series_rect_spec _ He). cbn [pts]. split; [reflexivity|]. split; [|reflexivity].
  unfold series_empty, npoints in He. cbn [closed pts andb orb] in He. apply Nat.ltb_ge in He. exact He.
Qed.

Theorem g_contains_covers (a b : gshape) : built2 a -> built2 b -> g_wf a -> g_wf b ->
  g_nonempty b = true -> gcb a b = true -> rect_contains_rect (g_rect a) (g_rect b) = true.
Proof.
  intros Ba Bb Wa Wb Nb. pose proof (g_rect_wf b Bb Wb Nb) as Wrb.
  unfold gcb. destruct Ba as [p|r|ps|e hs|]; destruct Bb as [q|s|qs|f gs|];
    cbn [g_contains ob g_rect g_nonempty] in *; intros H; try discriminate.
  (* point receiver: the argument's rectangle is the point *)
  - apply pt_eqb_eq in H. subst q. apply rcr_refl_wf. exact Wrb.
  - unfold point_contains_rect, point_rect in H. apply rect_eqb_eq in H. subst s. apply rcr_refl_wf. exact Wrb.
  - unfold point_contains_line, point_rect in H. apply andb_true_iff in H. destruct H as [_ H].
    apply rect_eqb_eq in H. rewrite H. apply rcr_refl_wf. unfold rect_wf. cbn [fst snd]. lia.
  - unfold point_contains_poly, point_rect in H. apply andb_true_iff in H. destruct H as [_ H].
    apply rect_eqb_eq in H. rewrite H. apply rcr_refl_wf. unfold rect_wf. cbn [fst snd]. lia.
  (* rect receiver *)
  - apply rcr_point. exact H.
  - exact H.
  - unfold rect_contains_line in H. apply andb_true_iff in H. destruct H as [_ H]. exact H.
  - unfold rect_contains_poly in H. apply andb_true_iff in H. destruct H as [_ H]. exact H.
  (* line receiver *)
  - apply rcr_point. apply line_point_in_rect. exact H.
  - destruct (line_contains_rect (Lr ps) s) as [[|]|] eqn:E; try discriminate.
    unfold line_contains_rect, line_contains_poly in E.
    destruct (ring_empty (Lr ps) || poly_empty (rect_poly s)); [discriminate|].
    unfold poly_rect, rect_poly in E. cbn [exterior RR r_rect ring_rect] in E. destruct s as [mn mx].
    destruct (negb (px mn =? px mx) && negb (py mn =? py mx)); [discriminate|].
    destruct (line_contains_line_ends ps (diag_line mn mx) (mn, mx) E (or_introl eq_refl)) as [A B]. cbn [fst snd] in *.
    apply rcr_of_inbox; assumption.
  - destruct (line_contains_line (Lr ps) (Lr qs)) as [[|]|] eqn:E; try discriminate.
    apply negb_true_iff in Nb. destruct (line_rect_is_bbox qs Nb) as (Er & Hlen & Es). rewrite Er.
    apply bbox_in_rect; [destruct qs; [cbn in Hlen; lia|discriminate]|].
    intros p Hp. destruct (line_point_is_end qs p Hlen Hp) as (sg & Hsg & Hend). rewrite <- Es in Hsg.
    destruct (line_contains_line_ends ps (Lr qs) sg E Hsg) as [A B]. destruct Hend as [-> | ->]; assumption.
  - destruct (line_contains_poly (Lr ps) (Pg f gs)) as [[|]|] eqn:E; try discriminate.
    unfold line_contains_poly in E. destruct (ring_empty (Lr ps) || poly_empty (Pg f gs)); [discriminate|].
    destruct (poly_rect (Pg f gs)) as [mn mx] eqn:Er.
    destruct (negb (px mn =? px mx) && negb (py mn =? py mx)); [discriminate|].
    destruct (line_contains_line_ends ps (diag_line mn mx) (mn, mx) E (or_introl eq_refl)) as [A B]. cbn [fst snd] in *.
    apply rcr_of_inbox; assumption.
  (* polygon receiver *)
  - apply rcr_point. apply rir_point_contains. apply poly_point_boxes. exact H.
  - unfold poly_contains_rect, poly_contains_poly in H.
    destruct (ring_contains_ring (exterior (Pg e hs)) (exterior (rect_poly s)) true) eqn:E; [|discriminate].
    apply ring_contains_ring_boxes in E. exact E.
  - unfold poly_contains_line in H. destruct (ring_contains_ring (exterior (Pg e hs)) (Lr qs) true) eqn:E; [|discriminate].
    apply ring_contains_ring_boxes in E. exact E.
  - unfold poly_contains_poly in H. destruct (ring_contains_ring (exterior (Pg e hs)) (exterior (Pg f gs)) true) eqn:E; [|discriminate].
    apply ring_contains_ring_boxes in E. exact E.
  (* the nil polygon as receiver contains nothing *)
  - exfalso. unfold poly_contains_point, mk_poly in H. cbn [exterior holes existsb] in H.
    rewrite rcp_hit_gen in H. unfold ring_segments, mk_ring in H. rewrite RS_segs in H.
    cbn [segments_spec closed pts length Nat.ltb Nat.leb on_boundaryb parityb existsb fold_right] in H.
    destruct (rect_contains_point _ q); discriminate.
Qed.

(* ------------------------------------------------------------------ *)
(* object level                                                         *)

Lemma rcr_inbox (R r : rect) (p : pt) : rect_contains_rect R r = true -> inbox r p -> inbox R p.
Proof. rewrite rcr_iff. unfold inbox. lia. Qed.

(* an occupied position belongs to a non-empty object *)
Lemma pos_nonempty (o : obj) : forall p, In p (positions o) -> o_empty o = false.
Proof.
  induction o as [q|q|r|ps|rs|b IH|k cs IH] using obj_ind'; intros p Hp; cbn [positions o_empty] in *; try reflexivity.
  - unfold series_empty, mk_line, npoints. cbn [closed pts andb orb]. destruct (length ps <? 2)%nat; [contradiction|reflexivity].
  - destruct rs as [|e hs]; [contradiction|]. unfold poly_empty, mk_poly. cbn [exterior]. unfold ring_empty, mk_ring. rewrite RS_empty.
    unfold series_empty, npoints. cbn [closed pts andb]. destruct (length e <? 3)%nat eqn:E; [contradiction|].
    apply Nat.ltb_ge in E. apply orb_false_iff. split; [reflexivity|]. apply Nat.ltb_ge. lia.
  - exact (IH p Hp).
  - apply in_flat_map in Hp. destruct Hp as (c & Hc & Hp). rewrite Forall_forall in IH.
    apply Bool.not_true_is_false. intros Hall. rewrite forallb_forall in Hall. specialize (Hall c Hc). rewrite (IH c Hc p Hp) in Hall. discriminate.
Qed.

(* every occupied position of an object is in the rectangle of the object *)
Lemma pos_in_rect (o : obj) (p : pt) : obj_wf o -> In p (positions o) -> inbox (o_rect o) p.
Proof.
  intros Hw Hp. rewrite (o_rect_spec o Hw (pos_nonempty o p Hp)). exact (bbox_spec_tight (positions o) p Hp).
Qed.

(* a rectangle that holds every occupied position holds the object's rectangle *)
Lemma rect_of_positions (R : rect) (o : obj) : obj_wf o -> positions o <> [] ->
  (forall p, In p (positions o) -> inbox R p) -> rect_contains_rect R (o_rect o) = true.
Proof.
  intros Hw Hne H. destruct (positions o) as [|p0 r] eqn:E; [congruence|].
  assert (He : o_empty o = false) by (apply (pos_nonempty o p0); rewrite E; left; reflexivity).
  rewrite (o_rect_spec o Hw He), E. apply bbox_in_rect; [discriminate|]. rewrite <- E in *. exact H.
Qed.

Lemma nonempty_has_position (o : obj) : o_empty o = false -> positions o <> [].
Proof.
  induction o as [q|q|r|ps|rs|b IH|k cs IH] using obj_ind'; cbn [positions o_empty]; intros He; try discriminate.
  - unfold series_empty, mk_line, npoints in He. cbn [closed pts andb orb] in He. rewrite He.
    apply Nat.ltb_ge in He. destruct ps; [cbn in He; lia|discriminate].
  - destruct rs as [|e hs]; [unfold poly_empty, mk_poly in He; cbn [exterior] in He; unfold ring_empty, mk_ring in He; rewrite RS_empty in He; cbn in He; discriminate|].
    unfold poly_empty, mk_poly in He. cbn [exterior] in He. unfold ring_empty, mk_ring in He. rewrite RS_empty in He.
    unfold series_empty, npoints in He. cbn [closed pts andb] in He. apply orb_false_iff in He. destruct He as [He _]. rewrite He.
    apply Nat.ltb_ge in He. destruct e; [cbn in He; lia|discriminate].
  - exact (IH He).
  - destruct (nonempty_child cs He) as (c & Hc & Ec). rewrite Forall_forall in IH. specialize (IH c Hc Ec).
    intros E. apply IH. destruct (positions c) as [|p0 r] eqn:Ep; [reflexivity|]. exfalso.
    assert (In p0 (flat_map positions cs)) by (apply in_flat_map; exists c; split; [exact Hc|rewrite Ep; left; reflexivity]).
    rewrite E in H. contradiction.
Qed.

(* b within the geometry g, b not empty: g's rectangle covers b's *)
Theorem o_within_g_covers (b : obj) : forall g, obj_wf b -> built2 g -> g_wf g -> o_empty b = false ->
  o_within_g b g = true -> rect_contains_rect (g_rect g) (o_rect b) = true.
Proof.
  assert (Leaf : forall o go g, leaf_geom o = Some go -> obj_wf o -> built2 g -> g_wf g -> o_empty o = false ->
                   gcb g go = true -> rect_contains_rect (g_rect g) (o_rect o) = true).
  { intros o go g Hl Hw Bg Wg He H. rewrite <- (leaf_g_rect o go Hl).
    apply (g_contains_covers g go Bg (leaf_built2 o go Hl) Wg (leaf_g_wf o go Hl Hw) (leaf_g_nonempty o go Hl He) H). }
  induction b as [p|p|r|ps|rs|b IH|k cs IH] using obj_ind'; intros g Hw Bg Wg He H; cbn [o_within_g] in H.
  - apply (Leaf (OPoint p) _ g eq_refl Hw Bg Wg He H).
  - apply (Leaf (OSimple p) _ g eq_refl Hw Bg Wg He H).
  - apply (Leaf (ORect r) _ g eq_refl Hw Bg Wg He H).
  - apply (Leaf (OLine ps) _ g eq_refl Hw Bg Wg He H).
  - apply (Leaf (OPoly rs) _ g eq_refl Hw Bg Wg He H).
  - apply IH; assumption.
  - apply andb_true_iff in H. destruct H as [_ H]. rewrite forallb_forall in H. rewrite Forall_forall in IH.
    pose proof (proj1 (obj_wf_coll k cs) Hw) as Hwc. rewrite Forall_forall in Hwc.
    apply (rect_of_positions (g_rect g) (OColl k cs) Hw (nonempty_has_position _ He)).
    intros p Hp. cbn [positions] in Hp. apply in_flat_map in Hp. destruct Hp as (c & Hc & Hp).
    specialize (H c Hc). apply andb_true_iff in H. destruct H as [_ Hc2].
    apply (rcr_inbox (g_rect g) (o_rect c) p); [|exact (pos_in_rect c p (Hwc c Hc) Hp)].
    apply (IH c Hc g (Hwc c Hc) Bg Wg (pos_nonempty c p Hp) Hc2).
Qed.

(* every occupied position of b lies in a non-empty part of b *)
Lemma pos_in_part (b : obj) : forall p, In p (positions b) ->
  exists part, In part (for_each_part b) /\ o_empty part = false /\ In p (positions part).
Proof.
  induction b as [q|q|r|ps|rs|b IH|k cs IH] using obj_ind'; intros p Hp;
    try (eexists; split; [left; reflexivity|]; split; [exact (pos_nonempty _ p Hp)|exact Hp]).
  - cbn [for_each_part]. destruct (ends_in_coll b).
    + exact (IH p Hp).
    + eexists. split; [left; reflexivity|]. split; [exact (pos_nonempty (OFeature b) p Hp)|exact Hp].
  - cbn [positions] in Hp. apply in_flat_map in Hp. destruct Hp as (c & Hc & Hp). rewrite Forall_forall in IH.
    destruct (IH c Hc p Hp) as (part & Hin & He & Hpp). exists part. split; [|split; assumption].
    cbn [for_each_part]. apply in_flat_map. exists c. split; assumption.
Qed.

(* MAIN (object level): if A contains a non-empty B then A's rectangle covers B's *)
Theorem o_contains_covers (a : obj) : forall b, obj_wf a -> obj_wf b -> o_empty b = false ->
  o_contains a b = true -> rect_contains_rect (o_rect a) (o_rect b) = true.
Proof.
  assert (Leaf : forall o go b, leaf_geom o = Some go -> obj_wf o -> obj_wf b -> o_empty b = false ->
                   o_within_g b go = true -> rect_contains_rect (o_rect o) (o_rect b) = true).
  { intros o go b Hl Hwo Hwb He H. rewrite <- (leaf_g_rect o go Hl).
    apply (o_within_g_covers b go Hwb (leaf_built2 o go Hl) (leaf_g_wf o go Hl Hwo) He H). }
  induction a as [p|p|r|ps|rs|a IH|k cs IH] using obj_ind'; intros b Hwa Hwb He H; cbn [o_contains] in H.
  - apply (Leaf (OPoint p) _ b eq_refl Hwa Hwb He H).
  - apply (Leaf (OSimple p) _ b eq_refl Hwa Hwb He H).
  - apply (Leaf (ORect r) _ b eq_refl Hwa Hwb He H).
  - apply (Leaf (OLine ps) _ b eq_refl Hwa Hwb He H).
  - apply (Leaf (OPoly rs) _ b eq_refl Hwa Hwb He H).
  - apply IH; assumption.
  - destruct (forallb o_empty cs); [discriminate|].
    destruct (nonempty_parts_c b) as [|p0 parts] eqn:Ep; [discriminate|]. rewrite <- Ep in H.
    rewrite forallb_forall in H. rewrite Forall_forall in IH.
    pose proof (proj1 (obj_wf_coll k cs) Hwa) as Hwc. rewrite Forall_forall in Hwc.
    apply (rect_of_positions (o_rect (OColl k cs)) b Hwb (nonempty_has_position _ He)).
    intros p Hp. destruct (pos_in_part b p Hp) as (part & Hin & Hpe & Hpp).
    assert (Hnp : In part (nonempty_parts_c b)) by (unfold nonempty_parts_c; apply filter_In; split; [exact Hin|rewrite Hpe; reflexivity]).
    specialize (H part Hnp). apply existsb_exists in H. destruct H as (c & Hc & H). unfold visits in H.
    rewrite !andb_true_iff, negb_true_iff in H. destruct H as [[Ec _] Hcp].
    destruct (part_c_rect_in_obj b part Hwb Hin Hpe) as [_ Hwp].
    pose proof (IH c Hc part (Hwc c Hc) Hwp Hpe Hcp) as Hcov.
    apply (rcr_inbox _ (o_rect c) p (child_rect_in_coll k cs c Hwa Hc Ec)).
    apply (rcr_inbox _ (o_rect part) p Hcov). exact (pos_in_rect part p Hwp Hpp).
Qed.

Print Assumptions g_contains_covers.
Print Assumptions o_contains_covers.
