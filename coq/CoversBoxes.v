(* CoversBoxes.v — property C09: if A contains a non-empty B then A's rectangle
   covers B's.  Geometry level (all sixteen pairs, including the
   Line.ContainsLine walk, whose accepting step is shown to pass the far end of
   the covered segment through a receiver segment) and object level
   (Features, collections, nested). *)
From Coq Require Import Lia.
From GJ Require Import Base Kernel KernelSpec RaycastProofs KernelProofs IntersectsProofs Series SeriesSpec SeriesProofs
     Ring RingSpec PipProofs PairProofs Pairs LineProofs Obj ObjSpec ObjProofs BoxLaws ContainsBoxes.
Open Scope Z_scope.

(* ------------------------------------------------------------------ *)
(* integer plane geometry                                               *)

(* two vectors parallel to a non-zero third are parallel to each other *)
Lemma parallel2 (p q a1 b1 a2 b2 : Z) : (p <> 0 \/ q <> 0) -> p * b1 - q * a1 = 0 -> p * b2 - q * a2 = 0 -> a1 * b2 - a2 * b1 = 0.
Proof.
  intros Hv H1 H2. destruct Hv as [Hp|Hq].
  - assert (E : p * (a1 * b2 - a2 * b1) = 0).
    { replace (p * (a1 * b2 - a2 * b1)) with (a1 * (p * b2 - q * a2) - a2 * (p * b1 - q * a1)) by ring. rewrite H1, H2. ring. }
    apply Z.mul_eq_0 in E. destruct E; [contradiction|assumption].
  - assert (E : q * (a1 * b2 - a2 * b1) = 0).
    { replace (q * (a1 * b2 - a2 * b1)) with (b1 * (p * b2 - q * a2) - b2 * (p * b1 - q * a1)) by ring. rewrite H1, H2. ring. }
    apply Z.mul_eq_0 in E. destruct E; [contradiction|assumption].
Qed.

(* on a line through a with direction u <> 0: a point whose projection lies between those of c and e
   has its coordinates between theirs *)
Lemma between_coord (ux uy cx cy ex ey : Z) :
  (ux <> 0 \/ uy <> 0) ->
  cx * uy - cy * ux = 0 -> ex * uy - ey * ux = 0 ->
  cx * ux + cy * uy <= ux * ux + uy * uy <= ex * ux + ey * uy ->
  (ux - cx) * (ex - ux) >= 0 /\ (uy - cy) * (ey - uy) >= 0.
Proof.
  intros Hu Hc He [Hd1 Hd2]. set (N := ux * ux + uy * uy) in *. set (dc := cx * ux + cy * uy) in *. set (de := ex * ux + ey * uy) in *.
  assert (HN : 0 < N) by (unfold N; destruct Hu; nia).
  assert (Ecx : N * cx = ux * dc).
  { unfold N, dc. assert (G : (ux * ux + uy * uy) * cx - ux * (cx * ux + cy * uy) = uy * (cx * uy - cy * ux)) by ring. rewrite Hc in G. lia. }
  assert (Ecy : N * cy = uy * dc).
  { unfold N, dc. assert (G : (ux * ux + uy * uy) * cy - uy * (cx * ux + cy * uy) = - ux * (cx * uy - cy * ux)) by ring. rewrite Hc in G. lia. }
  assert (Eex : N * ex = ux * de).
  { unfold N, de. assert (G : (ux * ux + uy * uy) * ex - ux * (ex * ux + ey * uy) = uy * (ex * uy - ey * ux)) by ring. rewrite He in G. lia. }
  assert (Eey : N * ey = uy * de).
  { unfold N, de. assert (G : (ux * ux + uy * uy) * ey - uy * (ex * ux + ey * uy) = - ux * (ex * uy - ey * ux)) by ring. rewrite He in G. lia. }
  assert (Px : N * N * ((ux - cx) * (ex - ux)) = ux * ux * ((N - dc) * (de - N))).
  { replace (N * N * ((ux - cx) * (ex - ux))) with ((N * ux - N * cx) * (N * ex - N * ux)) by ring. rewrite Ecx, Eex. ring. }
  assert (Py : N * N * ((uy - cy) * (ey - uy)) = uy * uy * ((N - dc) * (de - N))).
  { replace (N * N * ((uy - cy) * (ey - uy))) with ((N * uy - N * cy) * (N * ey - N * uy)) by ring. rewrite Ecy, Eey. ring. }
  assert (K : 0 <= (N - dc) * (de - N)) by (apply Z.mul_nonneg_nonneg; lia).
  assert (Kx : 0 <= ux * ux * ((N - dc) * (de - N))) by (apply Z.mul_nonneg_nonneg; [apply Z.square_nonneg|exact K]).
  assert (Ky : 0 <= uy * uy * ((N - dc) * (de - N))) by (apply Z.mul_nonneg_nonneg; [apply Z.square_nonneg|exact K]).
  assert (NN : 0 < N * N) by (apply Z.mul_pos_pos; exact HN).
  rewrite <- Px in Kx. rewrite <- Py in Ky.
  apply (proj1 (Z.mul_nonneg_cancel_l _ _ NN)) in Kx. apply (proj1 (Z.mul_nonneg_cancel_l _ _ NN)) in Ky. split; lia.
Qed.

Lemma between_in_box (R : rect) (c e b : pt) :
  inbox R c -> inbox R e -> (px b - px c) * (px e - px b) >= 0 -> (py b - py c) * (py e - py b) >= 0 -> inbox R b.
Proof. unfold inbox. intros [C1 C2] [E1 E2] Hx Hy. split; nia. Qed.
