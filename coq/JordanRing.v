(* JordanRing.v — property C02, ring x ring (polygon without holes x polygon
   without holes) as point sets.
   ringIntersectsRing tests the edges of the ring with the smaller bounding box
   against the other ring.  Theorem ring_intersects_ring_pointset: it answers
   true exactly when the two closed rings share a rational point — a statement
   symmetric in the operands.  The completeness direction needs, besides
   Jordan.v / JordanQ.v:
   - nesting (one boundary strictly inside the other region) forces a strictly
     larger bounding box, which the area rule excludes;
   - two rings whose boundaries each lie strictly outside the other have no
     common point: a descent on the number of edges met by a segment from the
     common point to a boundary point. *)
From Coq Require Import QArith ZArith Bool List Lia.
From GJ Require Import Base Kernel KernelSpec Series SeriesSpec Ring RingSpec
  RaycastProofs KernelProofs IntersectsProofs IntersectsQ SeriesProofs PipProofs PairProofs
  Invariance Jordan JordanQ.
Import ListNotations.
Local Open Scope Z_scope.

(* ------------------------------------------------------------------ *)
(* 1. convexity of a segment along a line                               *)
(* ------------------------------------------------------------------ *)

(* V on the edge, W between P and V, and the edge meets [P, W]: then W is on the edge *)
Lemma meet_before_on_edge (a b P V W : pt) :
  on_seg (a, b) V -> on_seg (P, V) W -> seg_meet (a, b) (P, W) -> on_seg (a, b) W.
Proof.
  intros HV HW Hm.
  destruct (on_seg_param P V W HW) as (n & d & Hd & Hn & Ex & Ey).
  assert (Aff : d * cross a b W = (d - n) * cross a b P + n * cross a b V).
  { replace (d * cross a b W) with
      ((px b - px a) * (d * (py W - py P)) - (py b - py a) * (d * (px W - px P)) + d * cross a b P)
      by (unfold cross; ring).
    rewrite Ex, Ey. unfold cross. ring. }
  destruct HV as (CV & VX & VY). rewrite CV, Z.mul_0_r, Z.add_0_r in Aff.
  destruct HW as (CW & WX & WY).
  rewrite seg_meet_unfold in Hm.
  destruct (Z.eq_dec (cross a b P) 0) as [EP|NP].
  - (* all on one line *)
    assert (CWab : cross a b W = 0) by nia.
    destruct Hm as [H|[H|[H|[H|[O1 O2]]]]].
    + destruct H as (_ & PX & PY). unfold on_seg. split; [exact CWab|]. lia.
    + exact H.
    + destruct H as (_ & AX & AY). unfold on_seg. split; [exact CWab|]. lia.
    + destruct H as (_ & BX & BY). unfold on_seg. split; [exact CWab|]. lia.
    + unfold opp in O1. rewrite EP, CWab in O1. lia.
  - (* P off the line of the edge: only V is shared *)
    destruct Hm as [H|[H|[H|[H|[O1 O2]]]]].
    + destruct H as (E & _). contradiction.
    + exact H.
    + (* a on [P, W]: then a = V = W or contradiction by signs *)
      destruct H as (CA & AX & AY).
      assert (n = d \/ cross a b W <> 0) as [->|NW] by nia.
      * assert (W = V) as -> by (apply pt_eq_coords; nia). unfold on_seg. split; [exact CV|]. lia.
      * exfalso. (* a, P, W collinear with a on the edge line: cross a b W and cross a b P proportional;
                    a between P and W *)
        assert (K : cross P W a = 0) by exact CA.
        assert (S1 : 0 < cross a b P * cross a b W).
        { assert (0 <= d - n) by lia. assert (d - n <> 0) by (intros Z0; apply NW; nia). nia. }
        (* parametrise a on [P, W] *)
        destruct (on_seg_param P W a (conj CA (conj AX AY))) as (m & e & He & Hm' & Fx & Fy).
        assert (Aff2 : e * cross a b a = (e - m) * cross a b P + m * cross a b W).
        { replace (e * cross a b a) with
            ((px b - px a) * (e * (py a - py P)) - (py b - py a) * (e * (px a - px P)) + e * cross a b P)
            by (unfold cross; ring).
          rewrite Fx, Fy. unfold cross. ring. }
        assert (Z0 : cross a b a = 0) by (unfold cross; ring). rewrite Z0, Z.mul_0_r in Aff2.
        destruct (Z.lt_trichotomy 0 (cross a b P)) as [G|[G|G]]; nia.
    + destruct H as (CB & BX & BY).
      assert (n = d \/ cross a b W <> 0) as [->|NW] by nia.
      * assert (W = V) as -> by (apply pt_eq_coords; nia). unfold on_seg. split; [exact CV|]. lia.
      * exfalso.
        assert (S1 : 0 < cross a b P * cross a b W).
        { assert (0 <= d - n) by lia. assert (d - n <> 0) by (intros Z0; apply NW; nia). nia. }
        destruct (on_seg_param P W b (conj CB (conj BX BY))) as (m & e & He & Hm' & Fx & Fy).
        assert (Aff2 : e * cross a b b = (e - m) * cross a b P + m * cross a b W).
        { replace (e * cross a b b) with
            ((px b - px a) * (e * (py b - py P)) - (py b - py a) * (e * (px b - px P)) + e * cross a b P)
            by (unfold cross; ring).
          rewrite Fx, Fy. unfold cross. ring. }
        assert (Z0 : cross a b b = 0) by (unfold cross; ring). rewrite Z0, Z.mul_0_r in Aff2.
        destruct (Z.lt_trichotomy 0 (cross a b P)) as [G|[G|G]]; nia.
    + unfold opp in O1.
      assert (0 <= d - n) by lia.
      destruct (Z.lt_trichotomy 0 (cross a b P)) as [G|[G|G]]; nia.
Qed.

(* ------------------------------------------------------------------ *)
(* 2. scaling bookkeeping                                               *)
(* ------------------------------------------------------------------ *)

Definition edges_at (k : Z) (ps : list pt) : list seg := ring_edges (map (sc k) ps).

Lemma edges_at_1 ps : edges_at 1 ps = ring_edges ps.
Proof. unfold edges_at. rewrite map_sc_1. reflexivity. Qed.

Lemma edges_at_mul j k ps : 0 < j -> edges_at (j * k) ps = map (scs j) (edges_at k ps).
Proof.
  intros Hj. unfold edges_at. rewrite <- sc_edges by exact Hj. f_equal.
  rewrite map_map. apply map_ext. intros p. symmetry. apply sc_sc.
Qed.

Lemma seg_meetb_sc j e P C : 0 < j -> seg_meetb (scs j e) (sc j P, sc j C) = seg_meetb e (P, C).
Proof.
  intros Hj. apply bool_eq_iff. rewrite !seg_meetb_iff.
  change (sc j P, sc j C) with (scs j (P, C)). apply seg_meet_sc. exact Hj.
Qed.

Lemma parityb_sc j E p : 0 < j -> parityb (map (scs j) E) (sc j p) = parityb E p.
Proof. intros Hj. unfold sc, scs. apply parityb_aff. exact Hj. Qed.

Lemma on_seg_sc j e p : 0 < j -> on_seg e p -> on_seg (scs j e) (sc j p).
Proof.
  intros Hj H. apply on_segb_iff. unfold scs, sc. rewrite on_segb_aff by exact Hj. apply on_segb_iff. exact H.
Qed.

Definition nmeet (E : list seg) (P C : pt) : nat := length (filter (fun e => seg_meetb e (P, C)) E).

Lemma nmeet_sc j E P C : 0 < j -> nmeet (map (scs j) E) (sc j P) (sc j C) = nmeet E P C.
Proof.
  intros Hj. unfold nmeet. induction E as [|e E IH]; [reflexivity|]. cbn [map filter].
  rewrite seg_meetb_sc by exact Hj. destruct (seg_meetb e (P, C)); cbn [length]; rewrite IH; reflexivity.
Qed.

Lemma filter_length_le {A : Type} (f g : A -> bool) (l : list A) :
  (forall x, In x l -> f x = true -> g x = true) -> (length (filter f l) <= length (filter g l))%nat.
Proof.
  induction l as [|x l IH]; intros H; [cbn; lia|]. cbn [filter].
  assert (IH' : (length (filter f l) <= length (filter g l))%nat) by (apply IH; intros y Hy; apply H; right; exact Hy).
  destruct (f x) eqn:Ef.
  - rewrite (H x (or_introl eq_refl) Ef). cbn [length]. lia.
  - destruct (g x); cbn [length]; lia.
Qed.

Lemma filter_length_lt {A : Type} (f g : A -> bool) (l : list A) (w : A) :
  (forall x, In x l -> f x = true -> g x = true) -> In w l -> g w = true -> f w = false ->
  (length (filter f l) < length (filter g l))%nat.
Proof.
  induction l as [|x l IH]; intros H Hin Hg Hf; [destruct Hin|]. cbn [filter].
  assert (Hl : forall y, In y l -> f y = true -> g y = true) by (intros y Hy; apply H; right; exact Hy).
  destruct Hin as [->|Hin].
  - rewrite Hf, Hg. cbn [length]. pose proof (filter_length_le f g l Hl). lia.
  - pose proof (IH Hl Hin Hg Hf) as IH'. destruct (f x) eqn:Ef.
    + rewrite (H x (or_introl eq_refl) Ef). cbn [length]. lia.
    + destruct (g x); cbn [length]; lia.
Qed.

(* ------------------------------------------------------------------ *)
(* 3. two rings whose boundaries lie outside each other are disjoint    *)
(* ------------------------------------------------------------------ *)

(* every rational boundary point of ring Y is outside the closed ring X *)
Definition boundary_outside (psX psY : list pt) : Prop :=
  forall k e S, 0 < k -> In e (edges_at k psY) -> on_seg e S -> in_ringb (edges_at k psX) S = false.

Lemma descent_step (psX psY : list pt) (n : nat) :
  boundary_outside psX psY -> boundary_outside psY psX ->
  (forall k P C, 0 < k -> parityb (edges_at k psX) P = true -> parityb (edges_at k psY) P = true ->
     (on_boundary (edges_at k psX) C \/ on_boundary (edges_at k psY) C) ->
     (nmeet (edges_at k psX) P C + nmeet (edges_at k psY) P C < n)%nat -> False) ->
  forall k P C, 0 < k -> parityb (edges_at k psX) P = true -> parityb (edges_at k psY) P = true ->
     on_boundary (edges_at k psY) C ->
     (nmeet (edges_at k psX) P C + nmeet (edges_at k psY) P C < S n)%nat -> False.
Proof.
  intros HXY HYX IH k P C Hk PX PY (eC & HeC & HonC) Hn.
  (* C is outside X, P inside: an X-edge meets [P, C] *)
  pose proof (HXY k eC C Hk HeC HonC) as OutC. unfold in_ringb in OutC. apply orb_false_iff in OutC.
  destruct OutC as [_ PXC].
  destruct (existsb (fun e => seg_meetb e (P, C)) (edges_at k psX)) eqn:Ex.
  2:{ rewrite existsb_false_iff in Ex.
      assert (parityb (edges_at k psX) P = parityb (edges_at k psX) C); [|congruence].
      apply parity_constant_off_boundary. intros e He Hm. apply seg_meetb_iff in Hm. rewrite (Ex e He) in Hm. discriminate Hm. }
  apply existsb_exists in Ex. destruct Ex as ([a b] & He' & Hm'). apply seg_meetb_iff in Hm'.
  destruct (seg_meet_common_scaled a b P C Hm') as (j & C' & Hj & On1 & On2).
  assert (Hjk : 0 < j * k) by nia.
  apply (IH (j * k) (sc j P) C' Hjk).
  - rewrite edges_at_mul by exact Hj. rewrite parityb_sc by exact Hj. exact PX.
  - rewrite edges_at_mul by exact Hj. rewrite parityb_sc by exact Hj. exact PY.
  - left. exists (scs j (a, b)). split; [rewrite edges_at_mul by exact Hj; apply in_map; exact He'|exact On1].
  - rewrite <- (nmeet_sc j (edges_at k psX) P C Hj), <- (nmeet_sc j (edges_at k psY) P C Hj) in Hn.
    rewrite <- !edges_at_mul in Hn by exact Hj.
    assert (Sub : forall e, seg_meetb e (sc j P, C') = true -> seg_meetb e (sc j P, sc j C) = true).
    { intros e Hm. apply seg_meetb_iff. apply seg_meetb_iff in Hm. apply (sub_segment_meet e _ _ C' On2 Hm). }
    assert (LX : (nmeet (edges_at (j * k) psX) (sc j P) C' <= nmeet (edges_at (j * k) psX) (sc j P) (sc j C))%nat).
    { apply filter_length_le. intros e _. apply Sub. }
    assert (LY : (nmeet (edges_at (j * k) psY) (sc j P) C' < nmeet (edges_at (j * k) psY) (sc j P) (sc j C))%nat).
    { apply (filter_length_lt _ _ _ (scs j eC)).
      - intros e _. apply Sub.
      - rewrite edges_at_mul by exact Hj. apply in_map. exact HeC.
      - apply seg_meetb_iff. destruct eC as [c d]. change (scs j (c, d)) with (sc j c, sc j d).
        rewrite seg_meet_unfold. right. left. apply (on_seg_sc j (c, d) C Hj HonC).
      - destruct (seg_meetb (scs j eC) (sc j P, C')) eqn:Em; [exfalso|reflexivity].
        apply seg_meetb_iff in Em. destruct eC as [c d].
        pose proof (meet_before_on_edge (sc j c) (sc j d) (sc j P) (sc j C) C'
                      (on_seg_sc j (c, d) C Hj HonC) On2 Em) as OnY.
        (* C' is on the boundary of both rings *)
        assert (InY : In (scs j (c, d)) (edges_at (j * k) psY)) by (rewrite edges_at_mul by exact Hj; apply in_map; exact HeC).
        pose proof (HXY (j * k) _ C' Hjk InY OnY) as Out. unfold in_ringb in Out. apply orb_false_iff in Out.
        destruct Out as [Nb _].
        assert (on_boundaryb (edges_at (j * k) psX) C' = true); [|congruence].
        apply on_boundaryb_iff. exists (scs j (a, b)). split; [rewrite edges_at_mul by exact Hj; apply in_map; exact He'|exact On1]. }
    lia.
Qed.

Theorem no_common_interior_point (psX psY : list pt) :
  boundary_outside psX psY -> boundary_outside psY psX ->
  forall k P, 0 < k -> parityb (edges_at k psX) P = true -> parityb (edges_at k psY) P = true -> False.
Proof.
  intros HXY HYX.
  assert (D : forall n k P C, 0 < k -> parityb (edges_at k psX) P = true -> parityb (edges_at k psY) P = true ->
     (on_boundary (edges_at k psX) C \/ on_boundary (edges_at k psY) C) ->
     (nmeet (edges_at k psX) P C + nmeet (edges_at k psY) P C < n)%nat -> False).
  { induction n as [|n IH]; intros k P C Hk PX PY HC Hn; [lia|].
    destruct HC as [HC|HC].
    - apply (descent_step psY psX n HYX HXY) with (k := k) (P := P) (C := C); try assumption.
      + intros k' P' C' Hk' PY' PX' HC' Hn'. apply (IH k' P' C' Hk' PX' PY'); [tauto|lia].
      + lia.
    - apply (descent_step psX psY n HXY HYX IH k P C); assumption. }
  intros k P Hk PX PY.
  (* a boundary point of Y: an end of an edge crossed by the ray from P *)
  assert (Ex : exists e, In e (edges_at k psY) /\ crossesb e P = true).
  { clear -PY. unfold parityb in PY. induction (edges_at k psY) as [|e E IH]; [discriminate PY|].
    cbn [fold_right] in PY. destruct (crossesb e P) eqn:Ec.
    - exists e. split; [left; reflexivity|exact Ec].
    - rewrite xorb_false_l in PY. destruct (IH PY) as (e' & He' & Hc'). exists e'. split; [right; exact He'|exact Hc']. }
  destruct Ex as ([a b] & He & _).
  apply (D (S (nmeet (edges_at k psX) P a + nmeet (edges_at k psY) P a)) k P a Hk PX PY).
  - right. exists (a, b). split; [exact He|apply on_seg_left].
  - lia.
Qed.

Print Assumptions no_common_interior_point.

(* ------------------------------------------------------------------ *)
(* 4. no edge of Q shares a point with the closed ring P                *)
(* ------------------------------------------------------------------ *)

Lemma edges_at_map k ps : 0 < k -> edges_at k ps = map (scs k) (ring_edges ps).
Proof. intros Hk. unfold edges_at. apply sc_edges. exact Hk. Qed.

(* the edges of a ring form a closed path through exactly its points *)
Lemma ring_edges_closed_path' (ps : list pt) : (3 <= length ps)%nat ->
  exists l, ring_edges ps = path_segs l /\ (forall p, In p ps -> In p l) /\ hd pt0 l = hd pt0 ps.
Proof.
  intros H3. unfold ring_edges, segments_spec. cbn [closed pts].
  destruct (Nat.ltb_spec (length ps) 3) as [?|_]; [lia|].
  destruct (pt_eqb (last ps pt0) (hd pt0 ps)).
  - exists ps. split; [reflexivity|]. split; [auto|reflexivity].
  - exists (ps ++ [hd pt0 ps]). assert (Hne : ps <> []) by (intros ->; cbn in H3; lia).
    split; [symmetry; apply path_segs_snoc; exact Hne|]. split.
    + intros p Hp. apply in_or_app. left. exact Hp.
    + destruct ps; [congruence|reflexivity].
Qed.

Section NoShare.
Variables ps qs : list pt.
Hypothesis NoShare : forall sg, In sg (ring_edges qs) -> ~ shares_point ps (fst sg) (snd sg).

(* (a) every boundary point of Q is outside the closed ring P *)
Lemma noshare_boundary_outside : boundary_outside ps qs.
Proof.
  intros k e S Hk He Hon. rewrite edges_at_map in He by exact Hk. apply in_map_iff in He.
  destruct He as ([a b] & <- & He0). destruct (in_ringb (edges_at k ps) S) eqn:Ein; [exfalso|reflexivity].
  apply (NoShare (a, b) He0). exists k, S. split; [exact Hk|]. split; [exact Hon|exact Ein].
Qed.

(* edges of the two rings never meet, at any scale *)
Lemma noshare_edges_apart k e f : 0 < k -> In e (edges_at k ps) -> In f (edges_at k qs) -> ~ seg_meet f e.
Proof.
  intros Hk He Hf Hm. destruct f as [c d], e as [a b].
  destruct (seg_meet_common_scaled c d a b Hm) as (j & T & Hj & On1 & On2).
  assert (Hjk : 0 < j * k) by nia.
  assert (Inf : In (scs j (c, d)) (edges_at (j * k) qs)) by (rewrite edges_at_mul by exact Hj; apply in_map; exact Hf).
  pose proof (noshare_boundary_outside (j * k) _ T Hjk Inf On1) as Out.
  unfold in_ringb in Out. apply orb_false_iff in Out. destruct Out as [Nb _].
  assert (on_boundaryb (edges_at (j * k) ps) T = true); [|congruence].
  apply on_boundaryb_iff. exists (scs j (a, b)). split; [rewrite edges_at_mul by exact Hj; apply in_map; exact He|exact On2].
Qed.

(* the Q-parity is the same at the two ends of every edge of P *)
Lemma noshare_edge_ends u v : In (u, v) (ring_edges ps) -> parityb (ring_edges qs) u = parityb (ring_edges qs) v.
Proof.
  intros He. apply parity_constant_off_boundary. intros f Hf Hm.
  apply (noshare_edges_apart 1 (u, v) f); [lia|rewrite edges_at_1; exact He|rewrite edges_at_1; exact Hf|exact Hm].
Qed.

Lemma path_const (f : pt -> bool) (l : list pt) :
  (forall u v, In (u, v) (path_segs l) -> f u = f v) -> forall x, In x l -> f x = f (hd pt0 l).
Proof.
  induction l as [|a l IH]; intros H x Hx; [destruct Hx|].
  destruct Hx as [<-|Hx]; [reflexivity|]. destruct l as [|b r]; [destruct Hx|].
  rewrite path_segs_cons2 in H. cbn [hd].
  rewrite (IH (fun u v Huv => H u v (or_intror Huv)) x Hx). cbn [hd]. symmetry. apply H. left. reflexivity.
Qed.

(* every vertex of P has the Q-parity of the first one *)
Lemma noshare_vertices_same : (3 <= length ps)%nat ->
  forall p, In p ps -> parityb (ring_edges qs) p = parityb (ring_edges qs) (hd pt0 ps).
Proof.
  intros H3 p Hp. destruct (ring_edges_closed_path' ps H3) as (l & Hl & Hsub & Hhd).
  rewrite <- Hhd. apply (path_const (parityb (ring_edges qs)) l).
  - intros u v Huv. apply noshare_edge_ends. rewrite Hl. exact Huv.
  - apply Hsub. exact Hp.
Qed.

(* (b) when the vertices of P have even Q-parity: every boundary point of P is outside the closed ring Q *)
Lemma noshare_boundary_outside_rev : (3 <= length ps)%nat ->
  parityb (ring_edges qs) (hd pt0 ps) = false -> boundary_outside qs ps.
Proof.
  intros H3 Hpar k e S Hk He Hon. unfold in_ringb. apply orb_false_iff. split.
  - (* S cannot be a boundary point of Q: it is in the closed ring P *)
    destruct (on_boundaryb (edges_at k qs) S) eqn:Hb; [exfalso|reflexivity].
    apply on_boundaryb_iff in Hb. destruct Hb as (f & Hf & Honf).
    pose proof (noshare_boundary_outside k f S Hk Hf Honf) as Out. unfold in_ringb in Out.
    apply orb_false_iff in Out. destruct Out as [Nb _].
    assert (on_boundaryb (edges_at k ps) S = true); [|congruence].
    apply on_boundaryb_iff. exists e. split; assumption.
  - pose proof He as He'. rewrite edges_at_map in He' by exact Hk. apply in_map_iff in He'.
    destruct He' as ([u v] & <- & He0).
    assert (Hu : In u ps) by (apply (ring_edges_endpoints ps u v He0)).
    transitivity (parityb (edges_at k qs) (sc k u)).
    + symmetry. unfold edges_at. apply parity_constant_off_boundary. intros f Hf Hm. fold (edges_at k qs) in Hf.
      apply (noshare_edges_apart k (scs k (u, v)) f Hk He Hf).
      apply (sub_segment_meet f (sc k u) (sc k v) S Hon Hm).
    + rewrite edges_at_map by exact Hk. rewrite parityb_sc by exact Hk.
      rewrite (noshare_vertices_same H3 u Hu). exact Hpar.
Qed.

End NoShare.

(* ------------------------------------------------------------------ *)
(* 5. nesting forces a strictly larger bounding box                     *)
(* ------------------------------------------------------------------ *)

Lemma crossing_right (a b p : pt) :
  crossesb (a, b) p = true ->
  px p < Z.max (px a) (px b) /\ Z.min (py a) (py b) <= py p < Z.max (py a) (py b).
Proof.
  rewrite crossesb_iff. destruct a as [ax ay], b as [bx by_], p as [x y].
  unfold crosses, cross, px, py. cbn [fst snd].
  intros [[[H1 H2] H3]|[[H1 H2] H3]]; (split; [|lia]).
  - destruct (Z.lt_ge_cases x (Z.max ax bx)) as [?|G]; [assumption|exfalso].
    assert (0 <= (x - bx) * (y - ay)) by nia. assert (0 <= (x - ax) * (by_ - y)) by nia. nia.
  - destruct (Z.lt_ge_cases x (Z.max ax bx)) as [?|G]; [assumption|exfalso].
    assert (0 <= (x - ax) * (y - by_)) by nia. assert (0 <= (x - bx) * (ay - y)) by nia. nia.
Qed.

Lemma parity_true_crossing (E : list seg) (p : pt) :
  parityb E p = true -> exists e, In e E /\ crossesb e p = true.
Proof.
  unfold parityb. induction E as [|e E IH]; [discriminate|]. cbn [fold_right]. intros H.
  destruct (crossesb e p) eqn:Ec.
  - exists e. split; [left; reflexivity|exact Ec].
  - rewrite xorb_false_l in H. destruct (IH H) as (e' & He' & Hc'). exists e'. split; [right; exact He'|exact Hc'].
Qed.

Lemma nested_bigger_box (ps qs : list pt) : ps <> [] ->
  (forall p, In p ps -> parityb (ring_edges qs) p = true) ->
  rect_area (bbox_spec ps) < rect_area (bbox_spec qs).
Proof.
  intros Hne Hall.
  destruct (bbox_spec_attained ps Hne) as (p1 & p2 & p3 & p4 & I1 & I2 & I3 & I4 & E1 & E2 & E3 & E4).
  cbv zeta in *.
  assert (Hin : forall p, In p ps -> inbox (bbox_spec qs) p).
  { intros p Hp. apply rect_contains_point_inbox. apply in_ringb_in_bbox. unfold in_ringb.
    rewrite (Hall p Hp). apply orb_true_r. }
  pose proof (Hin p1 I1) as B1. pose proof (Hin p2 I2) as B2. pose proof (Hin p3 I3) as B3. pose proof (Hin p4 I4) as B4.
  destruct (parity_true_crossing _ p3 (Hall p3 I3)) as ([a b] & He & Hc).
  destruct (ring_edges_endpoints qs a b He) as [Ha Hb].
  pose proof (bbox_spec_tight qs a Ha) as Ta. pose proof (bbox_spec_tight qs b Hb) as Tb. cbv zeta in Ta, Tb.
  pose proof (crossing_right a b p3 Hc) as [Cx Cy].
  pose proof (bbox_spec_tight ps p1 I1) as T1. pose proof (bbox_spec_tight ps p2 I2) as T2. cbv zeta in T1, T2.
  unfold inbox in *. destruct (bbox_spec ps) as [[mnx mny] [mxx mxy]], (bbox_spec qs) as [[qnx qny] [qxx qxy]].
  unfold rect_area, px, py in *. cbn [fst snd] in *. nia.
Qed.

(* a point of the k-fold scaled closed ring lies in the k-fold scaled bounding box *)
Lemma in_ring_scaled_box (ps : list pt) (k : Z) (P : pt) : 0 < k -> ps <> [] ->
  in_ringb (edges_at k ps) P = true ->
  k * px (fst (bbox_spec ps)) <= px P <= k * px (snd (bbox_spec ps)) /\
  k * py (fst (bbox_spec ps)) <= py P <= k * py (snd (bbox_spec ps)).
Proof.
  intros Hk Hne Hin. unfold edges_at in Hin. apply in_ringb_in_bbox in Hin. apply rect_contains_point_inbox in Hin.
  assert (Hne' : map (sc k) ps <> []) by (destruct ps; [congruence|discriminate]).
  destruct (bbox_spec_attained (map (sc k) ps) Hne') as (q1 & q2 & q3 & q4 & I1 & I2 & I3 & I4 & E1 & E2 & E3 & E4).
  cbv zeta in *. apply in_map_iff in I1, I2, I3, I4.
  destruct I1 as (u1 & <- & U1), I2 as (u2 & <- & U2), I3 as (u3 & <- & U3), I4 as (u4 & <- & U4).
  pose proof (bbox_spec_tight ps u1 U1) as T1. pose proof (bbox_spec_tight ps u2 U2) as T2.
  pose proof (bbox_spec_tight ps u3 U3) as T3. pose proof (bbox_spec_tight ps u4 U4) as T4. cbv zeta in *.
  set (Bk := bbox_spec (map (sc k) ps)) in *. clearbody Bk.
  unfold inbox in Hin. unfold sc, aff in E1, E2, E3, E4. unfold px, py in *. cbn [fst snd] in *. nia.
Qed.

(* ------------------------------------------------------------------ *)
(* 6. the core: no edge of the smaller-box ring shares a point with the *)
(*    other closed ring  =>  the closed rings are disjoint              *)
(* ------------------------------------------------------------------ *)

Definition rings_share_point (ps qs : list pt) : Prop :=
  exists k P, 0 < k /\ in_ringb (edges_at k ps) P = true /\ in_ringb (edges_at k qs) P = true.

Lemma noshare_disjoint (ps qs : list pt) :
  (3 <= length ps)%nat ->
  rect_area (bbox_spec qs) <= rect_area (bbox_spec ps) ->
  (forall sg, In sg (ring_edges qs) -> ~ shares_point ps (fst sg) (snd sg)) ->
  ~ rings_share_point ps qs.
Proof.
  intros H3 Harea NoShare (k & P & Hk & InP & InQ).
  pose proof (noshare_boundary_outside ps qs NoShare) as HA.
  (* P is not a boundary point of Q *)
  assert (NbQ : on_boundaryb (edges_at k qs) P = false).
  { destruct (on_boundaryb (edges_at k qs) P) eqn:Hb; [exfalso|reflexivity].
    apply on_boundaryb_iff in Hb. destruct Hb as (f & Hf & Honf). rewrite (HA k f P Hk Hf Honf) in InP. discriminate InP. }
  assert (PQ : parityb (edges_at k qs) P = true).
  { unfold in_ringb in InQ. rewrite NbQ in InQ. exact InQ. }
  destruct (parityb (ring_edges qs) (hd pt0 ps)) eqn:Hc.
  - (* nested: every vertex of P strictly inside Q *)
    assert (Hne : ps <> []) by (intros ->; cbn in H3; lia).
    pose proof (nested_bigger_box ps qs Hne) as NB.
    assert (rect_area (bbox_spec ps) < rect_area (bbox_spec qs)); [|lia].
    apply NB. intros p Hp. rewrite (noshare_vertices_same ps qs NoShare H3 p Hp). exact Hc.
  - pose proof (noshare_boundary_outside_rev ps qs NoShare H3 Hc) as HB.
    assert (NbP : on_boundaryb (edges_at k ps) P = false).
    { destruct (on_boundaryb (edges_at k ps) P) eqn:Hb; [exfalso|reflexivity].
      apply on_boundaryb_iff in Hb. destruct Hb as (e & He & Hone). rewrite (HB k e P Hk He Hone) in InQ. discriminate InQ. }
    assert (PP : parityb (edges_at k ps) P = true).
    { unfold in_ringb in InP. rewrite NbP in InP. exact InP. }
    exact (no_common_interior_point ps qs HA HB k P Hk PP PQ).
Qed.

(* ------------------------------------------------------------------ *)
(* 7. ringIntersectsRing (ring.go), allowOnEdge = true                  *)
(* ------------------------------------------------------------------ *)

Lemma shares_point_rings (ps : list pt) (sg : seg) (qs : list pt) :
  In sg (ring_edges qs) -> shares_point ps (fst sg) (snd sg) -> rings_share_point ps qs.
Proof.
  intros Hin (k & P & Hk & Hon & HinP). exists k, P. split; [exact Hk|]. split; [exact HinP|].
  unfold in_ringb. apply orb_true_iff. left. apply on_boundaryb_iff.
  exists (scs k sg). split; [rewrite edges_at_map by exact Hk; apply in_map; exact Hin|].
  destruct sg as [a b]. exact Hon.
Qed.

Lemma rings_share_point_sym ps qs : rings_share_point ps qs -> rings_share_point qs ps.
Proof. intros (k & P & Hk & H1 & H2). exists k, P. tauto. Qed.

Theorem ring_intersects_ring_pointset (ps qs : list pt) :
  ring_intersects_ring (RS {| closed := true; pts := ps |}) (RS {| closed := true; pts := qs |}) true = true <->
  (3 <= length ps)%nat /\ (3 <= length qs)%nat /\ rings_share_point ps qs.
Proof.
  unfold ring_intersects_ring, ring_empty, ring_rect, ring_segments.
  rewrite !RS_empty, !RS_rect, !closed_series_empty.
  destruct (Nat.ltb_spec (length ps) 3) as [S1|H1]; cbn [orb].
  { split; [discriminate|]. intros (? & _). lia. }
  destruct (Nat.ltb_spec (length qs) 3) as [S2|H2].
  { split; [discriminate|]. intros (_ & ? & _). lia. }
  rewrite !series_rect_spec by (rewrite closed_series_empty; apply Nat.ltb_ge; assumption). cbn [pts].
  assert (Hne1 : ps <> []) by (intros ->; cbn in H1; lia).
  assert (Hne2 : qs <> []) by (intros ->; cbn in H2; lia).
  split.
  - destruct (rect_intersects_rect (bbox_spec ps) (bbox_spec qs)); cbn [negb]; [|discriminate].
    intros H. split; [exact H1|]. split; [exact H2|].
    destruct (rect_area (bbox_spec ps) <? rect_area (bbox_spec qs)).
    + rewrite RS_segs in H. fold (ring_edges ps) in H. apply existsb_exists in H. destruct H as ([a b] & Hin & Hm).
      apply ring_intersects_segment_pointset in Hm. apply rings_share_point_sym.
      apply (shares_point_rings qs (a, b) ps Hin Hm).
    + rewrite RS_segs in H. fold (ring_edges qs) in H. apply existsb_exists in H. destruct H as ([a b] & Hin & Hm).
      apply ring_intersects_segment_pointset in Hm. apply (shares_point_rings ps (a, b) qs Hin Hm).
  - intros (_ & _ & Hsh).
    assert (Hbox : rect_intersects_rect (bbox_spec ps) (bbox_spec qs) = true).
    { destruct Hsh as (k & P & Hk & I1 & I2).
      pose proof (in_ring_scaled_box ps k P Hk Hne1 I1) as B1. pose proof (in_ring_scaled_box qs k P Hk Hne2 I2) as B2.
      apply rir_iff. nia. }
    rewrite Hbox. cbn [negb].
    destruct (Z.ltb_spec (rect_area (bbox_spec ps)) (rect_area (bbox_spec qs))) as [Lt|Ge].
    + rewrite RS_segs. fold (ring_edges ps).
      destruct (existsb (fun sg => ring_intersects_segment (RS {| closed := true; pts := qs |}) sg true) (ring_edges ps)) eqn:Ex;
        [reflexivity|exfalso].
      rewrite existsb_false_iff in Ex.
      apply (noshare_disjoint qs ps H2); [lia| |apply rings_share_point_sym; exact Hsh].
      intros [a b] Hin Hs. cbn [fst snd] in Hs. apply (proj2 (ring_intersects_segment_pointset qs a b)) in Hs.
      rewrite (Ex (a, b) Hin) in Hs. discriminate Hs.
    + rewrite RS_segs. fold (ring_edges qs).
      destruct (existsb (fun sg => ring_intersects_segment (RS {| closed := true; pts := ps |}) sg true) (ring_edges qs)) eqn:Ex;
        [reflexivity|exfalso].
      rewrite existsb_false_iff in Ex.
      apply (noshare_disjoint ps qs H1); [lia| |exact Hsh].
      intros [a b] Hin Hs. cbn [fst snd] in Hs. apply (proj2 (ring_intersects_segment_pointset ps a b)) in Hs.
      rewrite (Ex (a, b) Hin) in Hs. discriminate Hs.
Qed.

(* operand order cannot matter *)
Corollary ring_intersects_ring_sym (ps qs : list pt) :
  ring_intersects_ring (RS {| closed := true; pts := ps |}) (RS {| closed := true; pts := qs |}) true =
  ring_intersects_ring (RS {| closed := true; pts := qs |}) (RS {| closed := true; pts := ps |}) true.
Proof.
  apply bool_eq_iff. rewrite !ring_intersects_ring_pointset. split; intros (A & B & C); (split; [|split]); try assumption;
    apply rings_share_point_sym; exact C.
Qed.

Print Assumptions ring_intersects_ring_pointset.
Print Assumptions ring_intersects_ring_sym.

(* ------------------------------------------------------------------ *)
(* 8. polygons without holes (Poly.IntersectsPoly, Poly.IntersectsLine) *)
(* ------------------------------------------------------------------ *)

Theorem poly_intersects_poly_noholes (e1 e2 : list pt) :
  poly_intersects_poly (Pg e1 []) (Pg e2 []) = true <->
  (3 <= length e1)%nat /\ (3 <= length e2)%nat /\ rings_share_point e1 e2.
Proof.
  unfold poly_intersects_poly, Pg, Rg. cbn [exterior holes map existsb].
  destruct (ring_intersects_ring (RS {| closed := true; pts := e2 |}) (RS {| closed := true; pts := e1 |}) true) eqn:E;
    cbn [negb].
  - apply ring_intersects_ring_pointset in E. destruct E as (A & B & C). split; [intros _|reflexivity].
    split; [exact B|]. split; [exact A|]. apply rings_share_point_sym. exact C.
  - split; [discriminate|]. intros (A & B & C).
    assert (ring_intersects_ring (RS {| closed := true; pts := e2 |}) (RS {| closed := true; pts := e1 |}) true = true); [|congruence].
    apply ring_intersects_ring_pointset. split; [exact B|]. split; [exact A|]. apply rings_share_point_sym. exact C.
Qed.

Corollary poly_intersects_poly_noholes_sym (e1 e2 : list pt) :
  poly_intersects_poly (Pg e1 []) (Pg e2 []) = poly_intersects_poly (Pg e2 []) (Pg e1 []).
Proof.
  apply bool_eq_iff. rewrite !poly_intersects_poly_noholes. split; intros (A & B & C); (split; [|split]); try assumption;
    apply rings_share_point_sym; exact C.
Qed.

Theorem poly_intersects_line_noholes (e qs : list pt) :
  poly_intersects_line (Pg e []) (Lr qs) = true <->
  (3 <= length e)%nat /\ (2 <= length qs)%nat /\
  exists sg, In sg (path_segs qs) /\ shares_point e (fst sg) (snd sg).
Proof.
  unfold poly_intersects_line, Pg, Rg, Lr. cbn [exterior holes map existsb].
  rewrite <- ring_intersects_line_pointset.
  destruct (ring_intersects_line _ _ true); cbn [negb]; tauto.
Qed.

Print Assumptions poly_intersects_poly_noholes.
Print Assumptions poly_intersects_line_noholes.
