(* Holes.v — property C02 with holes: Poly.IntersectsLine for a polygon WITH holes and a line string
   of fewer than 16 points (so that ringContainsRing's bounding-box shortcut is not taken).
   Hypotheses on each hole: it is either not flagged convex, or flagged convex and really convex
   (Convex.hpc, no zero-length edges) — then "the line is inside the hole" as the code decides it
   is exactly "every rational point of the line is strictly inside the hole".  Result:
   (1) the code answers true exactly when the line shares a point with the closed exterior and is
       not wholly strictly inside a hole (no validity assumption);
   (2) for a valid polygon — every boundary point of a hole lies in the closed exterior and is not
       strictly inside another hole — that is: the line string and the polygon (exterior minus
       the interiors of the holes) share a rational point. *)
From Coq Require Import ZArith Bool List Lia.
From GJ Require Import Base Kernel KernelSpec Series SeriesSpec Ring RingSpec
  RaycastProofs KernelProofs IntersectsProofs IntersectsQ SeriesProofs PipProofs PairProofs Invariance
  Jordan JordanQ JordanRing Convex.
Import ListNotations.
Open Scope Z_scope.

Definition hole_ok (h : list pt) : Prop :=
  ring_convex (Rg h) = false \/
  (ring_convex (Rg h) = true /\ exists sigma, (sigma = 1 \/ sigma = -1) /\ hpc sigma h /\ no_zero_edges h).

Lemma rcs_strict_ok (h : list pt) (A B : pt) : hole_ok h ->
  (rcs (Rg h) (A, B) false = true <-> all_strictly_inside h A B).
Proof.
  intros [Hf|(Ht & sigma & Hs & Hc & Hz)].
  - apply ring_contains_segment_strict_pointset. exact Hf.
  - apply (ring_contains_segment_convex_pointset sigma); assumption.
Qed.

Definition line_strictly_inside (h qs : list pt) : Prop :=
  forall sg, In sg (path_segs qs) -> all_strictly_inside h (fst sg) (snd sg).

Lemma all_strictly_inside_ends h A B : all_strictly_inside h A B ->
  strictly_in_ringb (ring_edges h) A = true /\ strictly_in_ringb (ring_edges h) B = true.
Proof.
  intros Hall. split.
  - pose proof (Hall 1 A) as H1. rewrite !sc_1, map_sc_1 in H1. apply H1; [lia|apply on_seg_left].
  - pose proof (Hall 1 B) as H1. rewrite !sc_1, map_sc_1 in H1. apply H1; [lia|apply on_seg_right].
Qed.

Lemma strictly_in_in_bbox (h : list pt) (p : pt) :
  strictly_in_ringb (ring_edges h) p = true -> rect_contains_point (bbox_spec h) p = true.
Proof.
  intros H. apply in_ringb_in_bbox. unfold strictly_in_ringb in H. unfold in_ringb.
  apply andb_true_iff in H. destruct H as [_ Hp]. rewrite Hp. apply orb_true_r.
Qed.

(* the body of ringContainsRing for a hole and a line, strict *)
Lemma rcr_core_line_strict (h qs : list pt) : hole_ok h -> (2 <= length qs)%nat ->
  (rcr_core (Rg h) (Lr qs) false = true <-> (3 <= length h)%nat /\ line_strictly_inside h qs).
Proof.
  intros Hok H2. unfold rcr_core, ring_empty, ring_rect, ring_points, ring_segments, Rg, Lr.
  rewrite !RS_empty, !RS_rect, RS_pts, RS_segs, closed_series_empty. cbn [pts].
  assert (Eo : series_empty {| closed := false; pts := qs |} = false).
  { unfold series_empty, npoints. cbn [closed pts andb orb]. apply Nat.ltb_ge. exact H2. }
  rewrite Eo. change (segments_spec {| closed := false; pts := qs |}) with (path_segs qs).
  destruct (Nat.ltb_spec (length h) 3) as [S3|H3]; cbn [orb].
  { split; [discriminate|]. intros [? _]. lia. }
  rewrite series_rect_spec by (rewrite closed_series_empty; apply Nat.ltb_ge; exact H3).
  rewrite (series_rect_spec {| closed := false; pts := qs |}) by exact Eo. cbn [pts].
  fold (Rg h).
  assert (Hne : qs <> []) by (intros ->; cbn in H2; lia).
  (* when every vertex of the line is strictly inside, the boxes nest *)
  assert (Hbox : (forall q, In q qs -> strictly_in_ringb (ring_edges h) q = true) ->
                 rect_contains_rect (bbox_spec h) (bbox_spec qs) = true).
  { intros Hall. destruct (bbox_spec_attained qs Hne) as (p1 & p2 & p3 & p4 & I1 & I2 & I3 & I4 & E1 & E2 & E3 & E4).
    cbv zeta in *.
    pose proof (proj1 (rect_contains_point_inbox _ _) (strictly_in_in_bbox h p1 (Hall p1 I1))) as B1.
    pose proof (proj1 (rect_contains_point_inbox _ _) (strictly_in_in_bbox h p2 (Hall p2 I2))) as B2.
    pose proof (proj1 (rect_contains_point_inbox _ _) (strictly_in_in_bbox h p3 (Hall p3 I3))) as B3.
    pose proof (proj1 (rect_contains_point_inbox _ _) (strictly_in_in_bbox h p4 (Hall p4 I4))) as B4.
    apply rcr_iff. unfold inbox in *. lia. }
  assert (Hs : forall p, rcp_hit (Rg h) p false = strictly_in_ringb (ring_edges h) p).
  { intros p. unfold Rg. rewrite ring_contains_point_spec. unfold strictly_in_ringb.
    destruct (on_boundaryb (ring_edges h) p); reflexivity. }
  split.
  - destruct (rect_contains_rect (bbox_spec h) (bbox_spec qs)); cbn [negb]; [|discriminate].
    intros H. split; [exact H3|]. intros [a b] Hin. cbn [fst snd].
    destruct (ring_convex (Rg h)) eqn:Ecv.
    + rewrite forallb_forall in H. destruct (path_segs_endpoints qs a b Hin) as [Ha Hb].
      pose proof (H a Ha) as SA. pose proof (H b Hb) as SB. rewrite Hs in SA, SB.
      destruct Hok as [Hf|(_ & sigma & Hsg & Hc & Hz)]; [congruence|].
      apply (convex_segment_strictly_inside sigma); assumption.
    + rewrite forallb_forall in H. apply (rcs_strict_ok h a b Hok). apply (H (a, b) Hin).
  - intros [_ Hall].
    assert (Hv : forall q, In q qs -> strictly_in_ringb (ring_edges h) q = true).
    { intros q Hq. destruct (in_path_endpoint qs q Hq H2) as ([a b] & Hin & Hab).
      destruct (all_strictly_inside_ends h a b (Hall (a, b) Hin)) as [SA SB]. cbn [fst snd] in Hab.
      destruct Hab as [<-|<-]; assumption. }
    rewrite (Hbox Hv). cbn [negb].
    destruct (ring_convex (Rg h)) eqn:Ecv.
    + apply forallb_forall. intros q Hq. rewrite Hs. apply Hv. exact Hq.
    + apply forallb_forall. intros [a b] Hin. apply (rcs_strict_ok h a b Hok). apply (Hall (a, b) Hin).
Qed.

(* ringContainsRing itself, for a line of fewer than 16 points *)
Lemma rcr_line_strict (h qs : list pt) : hole_ok h -> (2 <= length qs)%nat -> (length qs < 16)%nat ->
  (ring_contains_ring (Rg h) (Lr qs) false = true <-> (3 <= length h)%nat /\ line_strictly_inside h qs).
Proof.
  intros Hok H2 H16. rewrite <- (rcr_core_line_strict h qs Hok H2).
  unfold ring_contains_ring. unfold ring_npoints, ring_points, Lr at 2. rewrite RS_pts. cbn [pts].
  unfold complexRingMinPoints. replace (16 <=? length qs)%nat with false by (symmetry; apply Nat.leb_gt; exact H16).
  cbn [andb].
  destruct (ring_empty (Rg h) || ring_empty (Lr qs)) eqn:Ee; [|tauto].
  unfold rcr_core. rewrite Ee. tauto.
Qed.

Lemma line_strictly_inside_nonempty (h qs : list pt) : (2 <= length qs)%nat ->
  line_strictly_inside h qs -> (3 <= length h)%nat.
Proof.
  intros H2 Hall. destruct qs as [|a [|b r]]; cbn in H2; try lia.
  destruct (all_strictly_inside_ends h a b (Hall (a, b) (or_introl eq_refl))) as [SA _].
  destruct (le_lt_dec 3 (length h)) as [?|S]; [assumption|exfalso].
  rewrite (ring_edges_short h S) in SA. discriminate SA.
Qed.

(* (1) Poly.IntersectsLine with holes, no validity assumption *)
Theorem poly_intersects_line_holes (e : list pt) (hs : list (list pt)) (qs : list pt) :
  Forall hole_ok hs -> (length qs < 16)%nat ->
  (poly_intersects_line (Pg e hs) (Lr qs) = true <->
   ((3 <= length e)%nat /\ (2 <= length qs)%nat /\
    exists sg, In sg (path_segs qs) /\ shares_point e (fst sg) (snd sg)) /\
   forall h, In h hs -> ~ line_strictly_inside h qs).
Proof.
  intros Hok H16. unfold poly_intersects_line, Pg. cbn [exterior holes].
  pose proof (ring_intersects_line_pointset e qs) as EX.
  change (RS {| closed := true; pts := e |}) with (Rg e) in EX.
  change (RS {| closed := false; pts := qs |}) with (Lr qs) in EX.
  destruct (ring_intersects_line (Rg e) (Lr qs) true) eqn:Ei; cbn [negb].
  - destruct (proj1 EX eq_refl) as (H3 & H2 & Hsh). rewrite negb_true_iff. rewrite existsb_false_iff. split.
    + intros Hno. split; [split; [exact H3|split; [exact H2|exact Hsh]]|].
      intros h Hh Hin. rewrite Forall_forall in Hok.
      assert (Hc : ring_contains_ring (Rg h) (Lr qs) false = true).
      { apply (rcr_line_strict h qs (Hok h Hh) H2 H16). split; [|exact Hin].
        apply (line_strictly_inside_nonempty h qs H2 Hin). }
      rewrite (Hno (Rg h)) in Hc; [discriminate Hc|]. apply in_map. exact Hh.
    + intros [_ Hno] r Hr. apply in_map_iff in Hr. destruct Hr as (h & <- & Hh). rewrite Forall_forall in Hok.
      destruct (ring_contains_ring (Rg h) (Lr qs) false) eqn:Hc; [exfalso|reflexivity].
      apply (rcr_line_strict h qs (Hok h Hh) H2 H16) in Hc. apply (Hno h Hh). apply Hc.
  - split; [discriminate|]. intros [Hx _]. apply (proj2 EX) in Hx. discriminate Hx.
Qed.

(* ------------------------------------------------------------------ *)
(* (2) valid polygons: the point-set statement                          *)

Definition in_polyQ (e : list pt) (hs : list (list pt)) (k : Z) (P : pt) : Prop :=
  in_ringb (edges_at k e) P = true /\ forall h, In h hs -> strictly_in_ringb (edges_at k h) P = false.

Definition poly_shares_point (e : list pt) (hs : list (list pt)) (A B : pt) : Prop :=
  exists k P, 0 < k /\ on_seg (sc k A, sc k B) P /\ in_polyQ e hs k P.

(* every boundary point of a hole is in the closed exterior, and strictly inside no hole *)
Definition holes_valid (e : list pt) (hs : list (list pt)) : Prop :=
  forall h, In h hs -> forall k f S, 0 < k -> In f (edges_at k h) -> on_seg f S ->
    in_ringb (edges_at k e) S = true /\ forall h', In h' hs -> strictly_in_ringb (edges_at k h') S = false.

(* a segment that is not wholly strictly inside has a witness *)
Lemma not_strict_witness (h : list pt) (A B : pt) : hole_ok h ->
  rcs (Rg h) (A, B) false = false ->
  exists k P, 0 < k /\ on_seg (sc k A, sc k B) P /\ strictly_in_ringb (edges_at k h) P = false.
Proof.
  intros Hok Hr.
  assert (Cases : strictly_in_ringb (ring_edges h) A = false \/ strictly_in_ringb (ring_edges h) B = false \/
                  exists f, In f (ring_edges h) /\ seg_meet f (A, B)).
  { destruct Hok as [Hf|(Ht & _)].
    - unfold Rg in *. rewrite (ring_contains_segment_strict_exact h A B Hf) in Hr.
      destruct (strictly_in_ringb (ring_edges h) A); [|left; reflexivity].
      destruct (strictly_in_ringb (ring_edges h) B); [|right; left; reflexivity].
      cbn [andb] in Hr. apply negb_false_iff in Hr. apply existsb_exists in Hr. destruct Hr as (f & Hf' & Hm).
      right; right. exists f. split; [exact Hf'|apply seg_meetb_iff; exact Hm].
    - unfold Rg in *. rewrite (ring_contains_segment_convex_flag h A B Ht) in Hr.
      destruct (strictly_in_ringb (ring_edges h) A); [|left; reflexivity].
      destruct (strictly_in_ringb (ring_edges h) B); [|right; left; reflexivity]. discriminate Hr. }
  destruct Cases as [SA|[SB|(f & Hf & Hm)]].
  - exists 1, A. rewrite !sc_1, edges_at_1. split; [lia|]. split; [apply on_seg_left|exact SA].
  - exists 1, B. rewrite !sc_1, edges_at_1. split; [lia|]. split; [apply on_seg_right|exact SB].
  - destruct f as [c d]. destruct (seg_meet_common_scaled c d A B Hm) as (k & P & Hk & On1 & On2).
    exists k, P. split; [exact Hk|]. split; [exact On2|].
    unfold strictly_in_ringb. apply andb_false_iff. left. apply negb_false_iff. apply on_boundaryb_iff.
    exists (scs k (c, d)). split; [rewrite edges_at_map by exact Hk; apply in_map; exact Hf|exact On1].
Qed.

(* if no edge of the ring meets any segment of the line, all rational points of the line have the
   status of its first vertex *)
Lemma chain_status (h qs : list pt) :
  (forall f sg, In f (ring_edges h) -> In sg (path_segs qs) -> seg_meetb f sg = false) ->
  forall sg k P, In sg (path_segs qs) -> 0 < k -> on_seg (sc k (fst sg), sc k (snd sg)) P ->
    strictly_in_ringb (edges_at k h) P = parityb (ring_edges h) (hd pt0 qs).
Proof.
  intros Hno.
  (* vertices: same parity along the chain *)
  assert (Hv : forall x, In x qs -> parityb (ring_edges h) x = parityb (ring_edges h) (hd pt0 qs)).
  { apply (path_const (parityb (ring_edges h)) qs). intros u v Huv.
    apply parity_constant_off_boundary. intros f Hf Hm. apply seg_meetb_iff in Hm.
    rewrite (Hno f (u, v) Hf Huv) in Hm. discriminate Hm. }
  intros [a b] k P Hin Hk HP. cbn [fst snd] in HP.
  destruct (path_segs_endpoints qs a b Hin) as [Ha _].
  rewrite <- (Hv a Ha).
  assert (N : forall f', In f' (edges_at k h) -> ~ seg_meet f' (sc k a, sc k b)).
  { intros f' Hf' Hm. rewrite edges_at_map in Hf' by exact Hk. apply in_map_iff in Hf'. destruct Hf' as (f & <- & Hf).
    change (sc k a, sc k b) with (scs k (a, b)) in Hm. apply (seg_meet_sc k f (a, b) Hk) in Hm.
    apply seg_meetb_iff in Hm. rewrite (Hno f (a, b) Hf Hin) in Hm. discriminate Hm. }
  unfold strictly_in_ringb.
  assert (Hb : on_boundaryb (edges_at k h) P = false).
  { destruct (on_boundaryb (edges_at k h) P) eqn:E; [exfalso|reflexivity].
    apply on_boundaryb_iff in E. destruct E as (f' & Hf' & Hon). apply (N f' Hf').
    apply (shared_point_meet f' _ _ P Hon HP). }
  rewrite Hb. cbn [negb andb].
  transitivity (parityb (edges_at k h) (sc k a)).
  - symmetry. unfold edges_at. apply parity_constant_off_boundary. intros f' Hf' Hm. fold (edges_at k h) in Hf'.
    apply (N f' Hf'). apply (sub_segment_meet f' (sc k a) (sc k b) P HP Hm).
  - rewrite edges_at_map by exact Hk. apply parityb_sc. exact Hk.
Qed.

Theorem poly_intersects_line_pointset (e : list pt) (hs : list (list pt)) (qs : list pt) :
  Forall hole_ok hs -> holes_valid e hs -> (length qs < 16)%nat ->
  (poly_intersects_line (Pg e hs) (Lr qs) = true <->
   (3 <= length e)%nat /\ (2 <= length qs)%nat /\
   exists sg, In sg (path_segs qs) /\ poly_shares_point e hs (fst sg) (snd sg)).
Proof.
  intros Hok Hval H16. rewrite (poly_intersects_line_holes e hs qs Hok H16). split.
  - intros [(H3 & H2 & [a b] & Hin & k0 & P0 & Hk0 & On0 & In0) Hno]. cbn [fst snd] in On0.
    split; [exact H3|]. split; [exact H2|].
    (* is P0 strictly inside some hole? decide hole by hole *)
    assert (Dec : (forall h, In h hs -> strictly_in_ringb (edges_at k0 h) P0 = false) \/
                  exists h, In h hs /\ strictly_in_ringb (edges_at k0 h) P0 = true).
    { clear -hs. induction hs as [|h l IH]; [left; intros ? []|].
      destruct (strictly_in_ringb (edges_at k0 h) P0) eqn:E.
      - right. exists h. split; [left; reflexivity|exact E].
      - destruct IH as [IH|(h' & Hh' & E')]; [left|right].
        + intros x [<-|Hx]; [exact E|apply IH; exact Hx].
        + exists h'. split; [right; exact Hh'|exact E']. }
    destruct Dec as [Free|(h1 & Hh1 & S1)].
    { exists (a, b). split; [exact Hin|]. exists k0, P0. split; [exact Hk0|]. split; [exact On0|]. split; [exact In0|exact Free]. }
    (* P0 is strictly inside h1, but the line is not wholly inside h1 *)
    rewrite Forall_forall in Hok. pose proof (Hok h1 Hh1) as Hok1.
    (* some edge of h1 meets some segment of the line: otherwise the whole line would be strictly inside *)
    assert (Hmeet : exists f sg, In f (ring_edges h1) /\ In sg (path_segs qs) /\ seg_meetb f sg = true).
    { destruct (existsb (fun f => existsb (fun sg => seg_meetb f sg) (path_segs qs)) (ring_edges h1)) eqn:Ex.
      - apply existsb_exists in Ex. destruct Ex as (f & Hf & Ex). apply existsb_exists in Ex.
        destruct Ex as (sg & Hsg & Hm). exists f, sg. auto.
      - exfalso. apply (Hno h1 Hh1).
        assert (Hnm : forall f sg, In f (ring_edges h1) -> In sg (path_segs qs) -> seg_meetb f sg = false).
        { intros f sg Hf Hsg. rewrite existsb_false_iff in Ex. pose proof (Ex f Hf) as Ex'.
          rewrite existsb_false_iff in Ex'. apply Ex'. exact Hsg. }
        pose proof (chain_status h1 qs Hnm) as CS.
        assert (Par : parityb (ring_edges h1) (hd pt0 qs) = true).
        { rewrite <- (CS (a, b) k0 P0 Hin Hk0 On0). exact S1. }
        intros sg Hsg k P Hk HP. fold (edges_at k h1). rewrite (CS sg k P Hsg Hk HP). exact Par. }
    destruct Hmeet as ([c d] & [a2 b2] & Hf & Hsg & Hm). apply seg_meetb_iff in Hm.
    destruct (seg_meet_common_scaled c d a2 b2 Hm) as (k & T & Hk & On1 & On2).
    exists (a2, b2). split; [exact Hsg|]. exists k, T. split; [exact Hk|]. split; [exact On2|].
    assert (Hfk : In (scs k (c, d)) (edges_at k h1)) by (rewrite edges_at_map by exact Hk; apply in_map; exact Hf).
    destruct (Hval h1 Hh1 k (scs k (c, d)) T Hk Hfk On1) as [V1 V2]. split; assumption.
  - intros (H3 & H2 & [a b] & Hin & k & P & Hk & On & InE & Free). cbn [fst snd] in On. split.
    + split; [exact H3|]. split; [exact H2|]. exists (a, b). split; [exact Hin|].
      exists k, P. split; [exact Hk|]. split; [exact On|exact InE].
    + intros h Hh Hall. pose proof (Hall (a, b) Hin k P Hk On) as S. fold (edges_at k h) in S. rewrite (Free h Hh) in S. discriminate S.
Qed.

Print Assumptions poly_intersects_line_holes.
Print Assumptions poly_intersects_line_pointset.
