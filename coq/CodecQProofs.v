(* CodecQProofs.v — "compressed segment indexes are exact accelerators",
   quadtree codec: searching the BYTES produced by compressing a quadtree
   (qenc / set_compressed) returns exactly the candidate list (same order) of
   searching the tree itself (qsearch), and every read is in bounds (qcsearch
   returns Some), for every tree of depth <= qMaxDepth whose encoding is
   shorter than 2^32 bytes and whose items lie in [0, 2^32).

   NOTE: qenc, read_items, q_ibytes, set_nth, get_quad do not use the section
   variables [mid]/[rect_of] of Index.QTree, hence take no such arguments. *)
From GJ Require Import Base Kernel Index.

Local Open Scope Z_scope.

Section CodecQ.
  (* mid models (a + b) / 2, rect_of the rectangle of a segment: both arbitrary.
     Everything up to part 3 is independent of them (and is not generalised
     over them when the section closes). *)
  Variable mid : Z -> Z -> Z.
  Variable rect_of : Z -> rect.

(* ------------------------------------------------------------------ *)
(* Vocabulary                                                           *)

(* [s] occurs in [data] at absolute address [a] *)
Definition at_addr (data : list Z) (a : Z) (s : list Z) : Prop :=
  exists pre post, data = pre ++ s ++ post /\ a = Z.of_nat (length pre).

Definition okid (P : qnode -> Prop) (o : option qnode) : Prop :=
  match o with None => True | Some c => P c end.

(* well-formed tree of depth <= d: quads has length 4 everywhere, no child
   below depth d *)
Fixpoint qshape (d : nat) (n : qnode) {struct d} : Prop :=
  match n with
  | QNode _ _ quads =>
      length quads = 4%nat /\
      Forall (okid (match d with O => fun _ => False | S d' => qshape d' end)) quads
  end.

(* every item stored anywhere in the tree satisfies P *)
Fixpoint qall (P : Z -> Prop) (n : qnode) {struct n} : Prop :=
  match n with
  | QNode _ items quads =>
      Forall P items /\
      (fix go (l : list (option qnode)) : Prop :=
         match l with
         | [] => True
         | o :: l' => match o with None => True | Some c => qall P c end /\ go l'
         end) quads
  end.

Definition item_ok (it : Z) : Prop := 0 <= it < 2 ^ 32.

Lemma qall_unfold P s items quads :
  qall P (QNode s items quads) <-> Forall P items /\ Forall (okid (qall P)) quads.
Proof.
  cbn [qall].
  set (go := fix go (l : list (option qnode)) : Prop :=
         match l with
         | [] => True
         | o :: l' => match o with None => True | Some c => qall P c end /\ go l'
         end).
  assert (E : forall l, go l <-> Forall (okid (qall P)) l).
  { induction l as [|o l IH]; cbn [go].
    - split; auto.
    - rewrite IH. split.
      + intros [H1 H2]. constructor; [destruct o; exact H1 | exact H2].
      + intros H. inversion H; subst. split; [destruct o; assumption | assumption]. }
  rewrite E. reflexivity.
Qed.

Lemma qshape_unfold_S d s items quads :
  qshape (S d) (QNode s items quads) <->
  length quads = 4%nat /\ Forall (okid (qshape d)) quads.
Proof. reflexivity. Qed.

Lemma qshape_unfold_O s items quads :
  qshape O (QNode s items quads) <->
  length quads = 4%nat /\ Forall (okid (fun _ => False)) quads.
Proof. reflexivity. Qed.

Lemma okid_impl (P Q : qnode -> Prop) o :
  (forall c, P c -> Q c) -> okid P o -> okid Q o.
Proof. destruct o; cbn; auto. Qed.

Lemma qshape_S d : forall n, qshape d n -> qshape (S d) n.
Proof.
  induction d as [|d IH]; intros [s items quads] [HL HF]; split; try exact HL.
  - eapply Forall_impl; [|exact HF]. intros o. apply okid_impl. intros c [].
  - eapply Forall_impl; [|exact HF]. intros o. apply okid_impl. exact (IH).
Qed.

Lemma qshape_le d d' n : (d <= d')%nat -> qshape d n -> qshape d' n.
Proof. induction 1; auto using qshape_S. Qed.

Lemma list4 {A} (l : list A) :
  length l = 4%nat -> exists a b c d, l = [a; b; c; d].
Proof.
  destruct l as [|a [|b [|c [|d [|e l]]]]]; cbn; try discriminate.
  intros _. eauto.
Qed.

(* ------------------------------------------------------------------ *)
(* at_addr algebra                                                      *)

Lemma at_addr_intro pre s post : at_addr (pre ++ s ++ post) (Z.of_nat (length pre)) s.
Proof. exists pre, post. auto. Qed.

Lemma at_app_l data a x y : at_addr data a (x ++ y) -> at_addr data a x.
Proof.
  intros (pre & post & E & Ea). exists pre, (y ++ post).
  rewrite E, <- app_assoc. auto.
Qed.

Lemma at_app_r data a x y :
  at_addr data a (x ++ y) -> at_addr data (a + Z.of_nat (length x)) y.
Proof.
  intros (pre & post & E & Ea). exists (pre ++ x), post.
  rewrite E, <- !app_assoc. split; [reflexivity|].
  rewrite app_length, Nat2Z.inj_add. lia.
Qed.

Lemma at_cons_r data a x s : at_addr data a (x :: s) -> at_addr data (a + 1) s.
Proof. intros H. apply (at_app_r data a [x] s) in H. exact H. Qed.

Lemma at_bounds data a s :
  at_addr data a s -> 0 <= a /\ a + Z.of_nat (length s) <= Z.of_nat (length data).
Proof.
  intros (pre & post & E & Ea). subst. rewrite !app_length, !Nat2Z.inj_add. lia.
Qed.

Lemma byte_at_nat data k : byte_at data (Z.of_nat k) = nth_error data k.
Proof.
  unfold byte_at. destruct (Z.ltb_spec (Z.of_nat k) 0); [lia|].
  rewrite Nat2Z.id. reflexivity.
Qed.

Lemma nth_error_mid {A} (pre : list A) x post :
  nth_error (pre ++ x :: post) (length pre) = Some x.
Proof. rewrite nth_error_app2, Nat.sub_diag by lia. reflexivity. Qed.

Lemma at_byte data a x s : at_addr data a (x :: s) -> byte_at data a = Some x.
Proof.
  intros (pre & post & E & Ea). subst.
  rewrite byte_at_nat. cbn [app]. apply nth_error_mid.
Qed.

(* ------------------------------------------------------------------ *)
(* 1. Number codec                                                      *)

Lemma le_bytes_length k n : length (le_bytes k n) = k.
Proof. unfold le_bytes. rewrite map_length, seq_length. reflexivity. Qed.

Lemma le_bytes_S k n : le_bytes (S k) n = n mod 256 :: le_bytes k (n / 256).
Proof.
  unfold le_bytes. cbn [seq map]. f_equal.
  - change (8 * Z.of_nat 0) with 0. rewrite Z.pow_0_r, Z.div_1_r. reflexivity.
  - rewrite <- seq_shift, map_map. apply map_ext. intros i.
    rewrite Nat2Z.inj_succ.
    replace (8 * Z.succ (Z.of_nat i)) with (8 + 8 * Z.of_nat i) by lia.
    rewrite Z.pow_add_r by lia. change (2 ^ 8) with 256.
    rewrite Z.div_div; [reflexivity | lia | ].
    apply Z.pow_pos_nonneg; lia.
Qed.

Lemma read_le_at k : forall data a n,
  at_addr data a (le_bytes k n) -> 0 <= n < 2 ^ (8 * Z.of_nat k) ->
  read_le data a k = Some n.
Proof.
  induction k as [|k IH]; intros data a n Hat Hn.
  - cbn [read_le]. change (8 * Z.of_nat 0) with 0 in Hn. rewrite Z.pow_0_r in Hn.
    f_equal. lia.
  - rewrite le_bytes_S in Hat. cbn [read_le].
    rewrite (at_byte _ _ _ _ Hat).
    rewrite (IH data (a + 1) (n / 256)).
    + f_equal. pose proof (Z.div_mod n 256). lia.
    + eapply at_cons_r; eauto.
    + rewrite Nat2Z.inj_succ in Hn.
      replace (8 * Z.succ (Z.of_nat k)) with (8 + 8 * Z.of_nat k) in Hn by lia.
      rewrite Z.pow_add_r in Hn by lia. change (2 ^ 8) with 256 in Hn.
      split.
      * apply Z.div_pos; lia.
      * apply Z.div_lt_upper_bound; lia.
Qed.

Lemma read_le_le_bytes data pre post k n a :
  data = pre ++ le_bytes k n ++ post -> a = Z.of_nat (length pre) ->
  0 <= n < 2 ^ (8 * Z.of_nat k) ->
  read_le data a k = Some n.
Proof. intros -> -> Hn. apply read_le_at; auto using at_addr_intro. Qed.

Definition ib_ok (ib : Z) : Prop := ib = 1 \/ ib = 2 \/ ib = 4.

Lemma width_ok ib : ib_ok ib -> width ib = ib.
Proof. intros [->|[->| ->]]; reflexivity. Qed.

Lemma num_bytes_ok n : ib_ok (num_bytes n).
Proof.
  unfold num_bytes, ib_ok.
  destruct (n <=? 255); auto. destruct (n <=? 65535); auto.
Qed.

Lemma num_bytes_cases n :
  0 <= n -> n < 2 ^ 32 ->
  (num_bytes n = 1 \/ num_bytes n = 2 \/ num_bytes n = 4) /\
  n < 2 ^ (8 * width (num_bytes n)).
Proof.
  intros H0 H1. split; [apply num_bytes_ok|].
  change (2 ^ 32) with 4294967296 in H1.
  unfold num_bytes.
  destruct (Z.leb_spec n 255); [change (2 ^ (8 * width 1)) with 256; lia|].
  destruct (Z.leb_spec n 65535); [change (2 ^ (8 * width 2)) with 65536; lia|].
  change (2 ^ (8 * width 4)) with 4294967296; lia.
Qed.

(* an element whose num_bytes is below ib fits in ib bytes *)
Lemma fits_le n ib :
  0 <= n < 2 ^ 32 -> ib_ok ib -> num_bytes n <= ib -> n < 2 ^ (8 * ib).
Proof.
  intros [H0 H1] Hib Hle. change (2 ^ 32) with 4294967296 in H1.
  unfold num_bytes in Hle.
  destruct (Z.leb_spec n 255); destruct (Z.leb_spec n 65535);
    destruct Hib as [->|[->| ->]];
    try change (2 ^ (8 * 1)) with 256; try change (2 ^ (8 * 2)) with 65536;
    try change (2 ^ (8 * 4)) with 4294967296; lia.
Qed.

Definition maxfold (l : list Z) (a0 : Z) : Z :=
  fold_left (fun acc it => Z.max acc (num_bytes it)) l a0.

Lemma maxfold_ok l : forall a0, ib_ok a0 -> ib_ok (maxfold l a0).
Proof.
  unfold maxfold. induction l as [|x l IH]; intros a0 H0; cbn [fold_left]; auto.
  apply IH. pose proof (num_bytes_ok x) as Hx. unfold ib_ok in *. lia.
Qed.

Lemma maxfold_ge_init l : forall a0, a0 <= maxfold l a0.
Proof.
  unfold maxfold. induction l as [|x l IH]; intros a0; cbn [fold_left]; [lia|].
  specialize (IH (Z.max a0 (num_bytes x))). lia.
Qed.

Lemma maxfold_ge_elem l : forall a0 x, In x l -> num_bytes x <= maxfold l a0.
Proof.
  induction l as [|y l IH]; intros a0 x Hin; [destruct Hin|].
  unfold maxfold. cbn [fold_left]. fold (maxfold l (Z.max a0 (num_bytes y))).
  destruct Hin as [->|Hin].
  - pose proof (maxfold_ge_init l (Z.max a0 (num_bytes x))). lia.
  - apply IH; assumption.
Qed.

(* monotonicity: every element of the list fits in [width ib] bytes *)
Lemma maxfold_fits l a0 :
  ib_ok a0 -> Forall item_ok l ->
  let ib := maxfold l a0 in
  ib_ok ib /\ width ib = ib /\ Forall (fun x => 0 <= x < 2 ^ (8 * width ib)) l.
Proof.
  intros H0 Hall ib.
  assert (Hib : ib_ok ib) by (apply maxfold_ok; assumption).
  split; [assumption|]. split; [apply width_ok; assumption|].
  rewrite width_ok by assumption.
  rewrite Forall_forall in *. intros x Hx. specialize (Hall x Hx).
  unfold item_ok in Hall. split; [lia|].
  apply fits_le; auto. apply maxfold_ge_elem; assumption.
Qed.

Lemma q_ibytes_eq items :
  q_ibytes items = maxfold items (num_bytes (Z.of_nat (length items))).
Proof. reflexivity. Qed.

Lemma q_ibytes_ok items : ib_ok (q_ibytes items).
Proof. rewrite q_ibytes_eq. apply maxfold_ok, num_bytes_ok. Qed.

Lemma enc_num_le n ib : ib_ok ib -> enc_num n ib = le_bytes (Z.to_nat ib) n.
Proof. intros [->|[->| ->]]; reflexivity. Qed.

Lemma enc_num_length n ib : ib_ok ib -> Z.of_nat (length (enc_num n ib)) = ib.
Proof.
  intros H. rewrite enc_num_le, le_bytes_length by assumption.
  unfold ib_ok in H. lia.
Qed.

Lemma read_num_at data a ib n :
  ib_ok ib -> 0 <= n < 2 ^ (8 * ib) -> at_addr data a (enc_num n ib) ->
  read_num data a ib = Some n.
Proof.
  intros Hib Hn Hat. unfold read_num. rewrite width_ok by assumption.
  rewrite enc_num_le in Hat by assumption.
  apply read_le_at; [assumption|].
  rewrite Z2Nat.id by (unfold ib_ok in Hib; lia). assumption.
Qed.

Lemma read_num_enc_num data pre post ib n :
  ib_ok ib -> 0 <= n < 2 ^ (8 * ib) -> data = pre ++ enc_num n ib ++ post ->
  read_num data (Z.of_nat (length pre)) ib = Some n.
Proof. intros Hib Hn ->. apply read_num_at; auto using at_addr_intro. Qed.

Definition enc_items (ib : Z) (items : list Z) : list Z :=
  flat_map (fun it => enc_num it ib) items.

Lemma enc_items_length ib items :
  ib_ok ib -> Z.of_nat (length (enc_items ib items)) = Z.of_nat (length items) * ib.
Proof.
  intros Hib. induction items as [|x l IH]; [reflexivity|].
  unfold enc_items in *. cbn [flat_map length].
  rewrite app_length, Nat2Z.inj_add, IH, enc_num_length by assumption.
  rewrite Nat2Z.inj_succ. lia.
Qed.

Lemma read_items_at ib items : forall data a,
  ib_ok ib -> Forall (fun x => 0 <= x < 2 ^ (8 * ib)) items ->
  at_addr data a (enc_items ib items) ->
  read_items data a ib (length items) = Some items.
Proof.
  induction items as [|x l IH]; intros data a Hib Hall Hat; [reflexivity|].
  inversion Hall as [|? ? Hx Hl]; subst.
  unfold enc_items in Hat. cbn [flat_map] in Hat.
  cbn [length read_items].
  rewrite (read_num_at data a ib x Hib Hx (at_app_l _ _ _ _ Hat)).
  apply at_app_r in Hat. rewrite enc_num_length in Hat by assumption.
  rewrite (IH data (a + ib) Hib Hl Hat). reflexivity.
Qed.

Lemma read_items_flat_map data pre post ib items :
  ib_ok ib -> Forall (fun x => 0 <= x < 2 ^ (8 * ib)) items ->
  data = pre ++ flat_map (fun it => enc_num it ib) items ++ post ->
  read_items data (Z.of_nat (length pre)) ib (length items) = Some items.
Proof. intros Hib Hall ->. apply read_items_at; auto. apply at_addr_intro. Qed.

(* ------------------------------------------------------------------ *)
(* 2. Structural description of qenc                                    *)

Definition qhdr (items : list Z) : list Z :=
  let ib := q_ibytes items in
  [ib] ++ enc_num (Z.of_nat (length items)) ib ++ enc_items ib items.

Definition slot_len (o : option qnode) : Z :=
  match o with None => 1 | Some _ => 5 end.

Definition slot_of (o : option qnode) (addr : Z) : list Z :=
  match o with None => [0] | Some _ => [1] ++ le_bytes 4 (u32 addr) end.

Definition kid_of (f : nat) (o : option qnode) (addr : Z) : list Z :=
  match o with None => [] | Some c => qenc f addr c end.

Definition qstep (f : nat) (st : list Z * list Z * Z) (o : option qnode)
  : list Z * list Z * Z :=
  let '(slots, kids, addr) := st in
  match o with
  | None => (slots ++ [0], kids, addr)
  | Some c =>
      let e := qenc f addr c in
      (slots ++ [1] ++ le_bytes 4 (u32 addr), kids ++ e, addr + Z.of_nat (length e))
  end.

Definition slots_len (quads : list (option qnode)) : Z :=
  fold_left (fun acc o => acc + match o with None => 1 | Some _ => 5 end) quads 0.

Lemma qenc_unsplit f base items quads :
  qenc f base (QNode false items quads) = qhdr items ++ [0].
Proof. destruct f; reflexivity. Qed.

Lemma qenc_split_fold f base items quads :
  qenc (S f) base (QNode true items quads) =
  let start := base + Z.of_nat (length (qhdr items)) + 1 + slots_len quads in
  let '(slots, kids, _) := fold_left (qstep f) quads ([], [], start) in
  qhdr items ++ [1] ++ slots ++ kids.
Proof. reflexivity. Qed.

Lemma qstep_eq f slots kids addr o :
  qstep f (slots, kids, addr) o =
  (slots ++ slot_of o addr, kids ++ kid_of f o addr,
   addr + Z.of_nat (length (kid_of f o addr))).
Proof.
  destruct o; cbn [qstep slot_of kid_of]; [reflexivity|].
  cbn [length]. rewrite app_nil_r, Z.add_0_r. reflexivity.
Qed.

Lemma slot_of_length o addr : Z.of_nat (length (slot_of o addr)) = slot_len o.
Proof.
  destruct o; cbn [slot_of slot_len]; [|reflexivity].
  rewrite app_length, le_bytes_length. reflexivity.
Qed.

(* explicit layout for a split node with its four quads *)
Lemma qenc_layout f base items o0 o1 o2 o3 :
  let hdr := qhdr items in
  let a0 := base + Z.of_nat (length hdr) + 1
            + slot_len o0 + slot_len o1 + slot_len o2 + slot_len o3 in
  let e0 := kid_of f o0 a0 in
  let a1 := a0 + Z.of_nat (length e0) in
  let e1 := kid_of f o1 a1 in
  let a2 := a1 + Z.of_nat (length e1) in
  let e2 := kid_of f o2 a2 in
  let a3 := a2 + Z.of_nat (length e2) in
  let e3 := kid_of f o3 a3 in
  qenc (S f) base (QNode true items [o0; o1; o2; o3]) =
  hdr ++ [1] ++ slot_of o0 a0 ++ slot_of o1 a1 ++ slot_of o2 a2 ++ slot_of o3 a3
      ++ e0 ++ e1 ++ e2 ++ e3.
Proof.
  intros hdr a0 e0 a1 e1 a2 e2 a3 e3.
  rewrite qenc_split_fold.
  assert (Es : slots_len [o0; o1; o2; o3]
               = slot_len o0 + slot_len o1 + slot_len o2 + slot_len o3).
  { unfold slots_len. cbn [fold_left]. fold (slot_len o0) (slot_len o1) (slot_len o2) (slot_len o3).
    lia. }
  rewrite Es. cbv zeta. fold hdr.
  replace (base + Z.of_nat (length hdr) + 1
           + (slot_len o0 + slot_len o1 + slot_len o2 + slot_len o3)) with a0
    by (unfold a0; lia).
  cbn [fold_left]. rewrite !qstep_eq.
  fold e0. fold a1. fold e1. fold a2. fold e2. fold a3. fold e3.
  cbn [app]. rewrite <- !app_assoc. reflexivity.
Qed.

(* ------------------------------------------------------------------ *)
(* 3. Search side                                                       *)

(* the inner [fix slots] of qcsearch as a top-level function *)
Section SlotsSearch.
  Variable quad_bounds_ : rect -> Z -> rect.
  Variable rec : Z -> rect -> option (list Z).
  Variable data : list Z.
  Variables bounds q : rect.

  Fixpoint slots_search (ks : list Z) (a : Z) (acc : list Z) {struct ks}
    : option (list Z) :=
    match ks with
    | [] => Some acc
    | k :: ks' =>
        match byte_at data a with
        | None => None
        | Some use =>
            if use =? 1 then
              match read_le data (a + 1) 4 with
              | None => None
              | Some naddr =>
                  let qb := quad_bounds_ bounds k in
                  if rect_intersects_rect qb q then
                    match rec naddr qb with
                    | None => None
                    | Some r => slots_search ks' (a + 5) (acc ++ r)
                    end
                  else slots_search ks' (a + 5) acc
              end
            else slots_search ks' (a + 1) acc
        end
    end.
End SlotsSearch.

  Definition hits (q : rect) (its : list Z) : list Z :=
    filter (fun it => rect_intersects_rect (rect_of it) q) its.

  Lemma qcsearch_S f data addr bounds q :
    qcsearch mid rect_of (S f) data addr bounds q =
    match byte_at data addr with
    | None => None
    | Some ib =>
        match read_num data (addr + 1) ib with
        | None => None
        | Some nitems =>
            match read_items data (addr + 1 + ib) ib (Z.to_nat nitems) with
            | None => None
            | Some its =>
                match byte_at data (addr + 1 + ib + nitems * ib) with
                | None => None
                | Some sp =>
                    if sp =? 1 then
                      slots_search (quad_bounds mid)
                        (fun naddr qb => qcsearch mid rect_of f data naddr qb q)
                        data bounds q [0; 1; 2; 3]
                        (addr + 1 + ib + nitems * ib + 1) (hits q its)
                    else Some (hits q its)
                end
            end
        end
    end.
  Proof. reflexivity. Qed.

  (* contribution of quad k on the tree side *)
  Definition contrib (f : nat) (bounds q : rect) (o : option qnode) (k : Z) : list Z :=
    match o with
    | Some c =>
        let qb := quad_bounds mid bounds k in
        if rect_intersects_rect qb q then qsearch mid rect_of f c qb q else []
    | None => []
    end.

  Lemma qsearch_unsplit f items quads bounds q :
    qsearch mid rect_of f (QNode false items quads) bounds q = hits q items.
  Proof. destruct f; cbn [qsearch]; rewrite app_nil_r; reflexivity. Qed.

  Lemma qsearch_split4 f items o0 o1 o2 o3 bounds q :
    qsearch mid rect_of (S f) (QNode true items [o0; o1; o2; o3]) bounds q =
    hits q items ++ contrib f bounds q o0 0 ++ contrib f bounds q o1 1
                 ++ contrib f bounds q o2 2 ++ contrib f bounds q o3 3.
  Proof.
    cbn [qsearch]. unfold hits. f_equal.
    cbn [flat_map].
    change (Z.to_nat 0) with 0%nat. change (Z.to_nat 1) with 1%nat.
    change (Z.to_nat 2) with 2%nat. change (Z.to_nat 3) with 3%nat.
    cbn [nth_error]. rewrite app_nil_r.
    destruct o0, o1, o2, o3; reflexivity.
  Qed.

  (* reading the header of a node *)
  Lemma hdr_read data base items rest :
    at_addr data base (qhdr items ++ rest) ->
    Z.of_nat (length data) < 2 ^ 32 ->
    Forall item_ok items ->
    let ib := q_ibytes items in
    let L := Z.of_nat (length items) in
    ib_ok ib /\
    byte_at data base = Some ib /\
    read_num data (base + 1) ib = Some L /\
    read_items data (base + 1 + ib) ib (length items) = Some items /\
    Z.of_nat (length (qhdr items)) = 1 + ib + L * ib /\
    at_addr data (base + 1 + ib + L * ib) rest.
  Proof.
    intros Hat Hlen Hall ib L.
    assert (Hib : ib_ok ib) by apply q_ibytes_ok.
    pose proof (at_app_l _ _ _ _ Hat) as Hh.
    pose proof (at_app_r _ _ _ _ Hat) as Hrest.
    unfold qhdr in Hh. fold ib in Hh. fold L in Hh.
    assert (Hhl : Z.of_nat (length (qhdr items)) = 1 + ib + L * ib).
    { unfold qhdr. fold ib. fold L. rewrite !app_length, !Nat2Z.inj_add.
      rewrite enc_num_length, enc_items_length by assumption. cbn [length]. fold L. lia. }
    rewrite Hhl in Hrest.
    pose proof (at_app_l _ _ _ _ Hh) as Hb.
    pose proof (at_app_r _ _ _ _ Hh) as Hh2. cbn [length] in Hh2.
    change (Z.of_nat 1) with 1 in Hh2.
    pose proof (at_app_l _ _ _ _ Hh2) as Hn.
    pose proof (at_app_r _ _ _ _ Hh2) as Hi.
    rewrite enc_num_length in Hi by assumption.
    (* the item count fits *)
    assert (HL : 0 <= L < 2 ^ (8 * ib)).
    { split; [unfold L; lia|].
      apply fits_le; [|assumption|].
      - pose proof (at_bounds _ _ _ Hi) as [Hbd0 Hbd].
        pose proof (at_bounds _ _ _ Hat) as [Hbase _].
        rewrite enc_items_length in Hbd by assumption. fold L in Hbd.
        change (2 ^ 32) with 4294967296 in *.
        assert (0 <= L) by (unfold L; lia).
        split; [assumption|]. destruct Hib as [Hib|[Hib|Hib]]; rewrite Hib in *; lia.
      - unfold ib. rewrite q_ibytes_eq. apply maxfold_ge_init. }
    destruct (maxfold_fits items (num_bytes L) (num_bytes_ok L) Hall) as (_ & Hw & Hfit).
    unfold L in Hw, Hfit. rewrite <- q_ibytes_eq in Hw, Hfit. fold ib in Hw, Hfit.
    rewrite Hw in Hfit.
    split; [assumption|].
    split; [eapply at_byte; exact Hb|].
    split; [apply read_num_at; assumption|].
    split; [apply read_items_at; assumption|].
    split; [assumption|].
    replace (base + 1 + ib + L * ib) with (base + (1 + ib + L * ib)) by lia.
    exact Hrest.
  Qed.

  Lemma slot_step rec data bounds q f k ks a acc o addr :
    at_addr data a (slot_of o addr) ->
    0 <= addr < 2 ^ 32 ->
    (forall c, o = Some c ->
               rect_intersects_rect (quad_bounds mid bounds k) q = true ->
               rec addr (quad_bounds mid bounds k)
               = Some (qsearch mid rect_of f c (quad_bounds mid bounds k) q)) ->
    slots_search (quad_bounds mid) rec data bounds q (k :: ks) a acc =
    slots_search (quad_bounds mid) rec data bounds q ks (a + slot_len o)
                 (acc ++ contrib f bounds q o k).
  Proof.
    intros Hat Haddr Hrec. cbn [slots_search].
    destruct o as [c|]; cbn [slot_of slot_len contrib] in *.
    - cbn [app] in Hat. rewrite (at_byte _ _ _ _ Hat).
      change (1 =? 1) with true. cbv iota.
      rewrite (read_le_at 4 data (a + 1) addr).
      + cbv zeta.
        destruct (rect_intersects_rect (quad_bounds mid bounds k) q) eqn:E.
        * rewrite (Hrec c eq_refl eq_refl). reflexivity.
        * rewrite app_nil_r. reflexivity.
      + apply at_cons_r in Hat. unfold u32 in Hat.
        change (2 ^ 32) with 4294967296 in Haddr.
        rewrite Z.mod_small in Hat by lia. exact Hat.
      + change (2 ^ (8 * Z.of_nat 4)) with (2 ^ 32). exact Haddr.
    - rewrite (at_byte _ _ _ _ Hat).
      change (0 =? 1) with false. cbv iota.
      rewrite app_nil_r. reflexivity.
  Qed.

  Lemma kid_addr_ok data a f o :
    at_addr data a (kid_of f o a) -> Z.of_nat (length data) < 2 ^ 32 ->
    0 <= a < 2 ^ 32.
  Proof. intros H Hl. apply at_bounds in H. lia. Qed.

  (* one node, given the result for its children *)
  Lemma qcsearch_node F f data base bounds q s items o0 o1 o2 o3 :
    Z.of_nat (length data) < 2 ^ 32 ->
    Forall item_ok items ->
    at_addr data base (qenc (S f) base (QNode s items [o0; o1; o2; o3])) ->
    (forall c a bnds, In (Some c) [o0; o1; o2; o3] ->
                      at_addr data a (qenc f a c) ->
                      qcsearch mid rect_of F data a bnds q
                      = Some (qsearch mid rect_of f c bnds q)) ->
    qcsearch mid rect_of (S F) data base bounds q =
    Some (qsearch mid rect_of (S f) (QNode s items [o0; o1; o2; o3]) bounds q).
  Proof.
    intros Hlen Hall Hat Hkids.
    rewrite qcsearch_S.
    destruct s.
    - (* split *)
      rewrite qenc_layout in Hat. cbv zeta in Hat.
      set (hdr := qhdr items) in *.
      set (a0 := base + Z.of_nat (length hdr) + 1
                 + slot_len o0 + slot_len o1 + slot_len o2 + slot_len o3) in *.
      set (e0 := kid_of f o0 a0) in *.
      set (a1 := a0 + Z.of_nat (length e0)) in *.
      set (e1 := kid_of f o1 a1) in *.
      set (a2 := a1 + Z.of_nat (length e1)) in *.
      set (e2 := kid_of f o2 a2) in *.
      set (a3 := a2 + Z.of_nat (length e2)) in *.
      set (e3 := kid_of f o3 a3) in *.
      destruct (hdr_read data base items _ Hat Hlen Hall)
        as (Hib & Hb & Hn & Hi & Hhl & Hrest).
      fold hdr in Hhl.
      set (ib := q_ibytes items) in *. set (L := Z.of_nat (length items)) in *.
      rewrite Hb, Hn. unfold L at 1. rewrite Nat2Z.id. rewrite Hi.
      fold L.
      set (p := base + 1 + ib + L * ib) in *.
      cbn [app] in Hrest. rewrite (at_byte _ _ _ _ Hrest).
      change (1 =? 1) with true. cbv iota.
      apply at_cons_r in Hrest.
      (* split the buffer into the four slots and the four kids *)
      pose proof (at_app_l _ _ _ _ Hrest) as Hs0.
      apply at_app_r in Hrest. rewrite slot_of_length in Hrest.
      pose proof (at_app_l _ _ _ _ Hrest) as Hs1.
      apply at_app_r in Hrest. rewrite slot_of_length in Hrest.
      pose proof (at_app_l _ _ _ _ Hrest) as Hs2.
      apply at_app_r in Hrest. rewrite slot_of_length in Hrest.
      pose proof (at_app_l _ _ _ _ Hrest) as Hs3.
      apply at_app_r in Hrest. rewrite slot_of_length in Hrest.
      replace (p + 1 + slot_len o0 + slot_len o1 + slot_len o2 + slot_len o3)
        with a0 in Hrest by (unfold a0, p; lia).
      pose proof (at_app_l _ _ _ _ Hrest) as He0.
      apply at_app_r in Hrest. fold a1 in Hrest.
      pose proof (at_app_l _ _ _ _ Hrest) as He1.
      apply at_app_r in Hrest. fold a2 in Hrest.
      pose proof (at_app_l _ _ _ _ Hrest) as He2.
      apply at_app_r in Hrest. fold a3 in Hrest.
      rename Hrest into He3.
      rewrite (slot_step _ data bounds q f 0 _ _ _ o0 a0 Hs0
                 (kid_addr_ok _ _ _ _ He0 Hlen)).
      2:{ intros c -> _. apply Hkids; [cbn; auto|exact He0]. }
      rewrite (slot_step _ data bounds q f 1 _ _ _ o1 a1 Hs1
                 (kid_addr_ok _ _ _ _ He1 Hlen)).
      2:{ intros c -> _. apply Hkids; [cbn; auto|exact He1]. }
      rewrite (slot_step _ data bounds q f 2 _ _ _ o2 a2 Hs2
                 (kid_addr_ok _ _ _ _ He2 Hlen)).
      2:{ intros c -> _. apply Hkids; [cbn; auto|exact He2]. }
      rewrite (slot_step _ data bounds q f 3 _ _ _ o3 a3 Hs3
                 (kid_addr_ok _ _ _ _ He3 Hlen)).
      2:{ intros c -> _. apply Hkids; [cbn; auto 6|exact He3]. }
      cbn [slots_search]. rewrite qsearch_split4, <- !app_assoc. reflexivity.
    - (* not split *)
      rewrite qenc_unsplit in Hat.
      destruct (hdr_read data base items _ Hat Hlen Hall)
        as (Hib & Hb & Hn & Hi & Hhl & Hrest).
      set (ib := q_ibytes items) in *. set (L := Z.of_nat (length items)) in *.
      rewrite Hb, Hn. unfold L at 1. rewrite Nat2Z.id. rewrite Hi.
      fold L. rewrite (at_byte _ _ _ _ Hrest).
      change (0 =? 1) with false. cbv iota.
      rewrite qsearch_unsplit. reflexivity.
  Qed.


  (* ---------------------------------------------------------------- *)
  (* MAIN LEMMA                                                        *)

  Lemma qcsearch_at d : forall n data base bounds q,
    qshape d n ->
    Z.of_nat (length data) < 2 ^ 32 ->
    qall item_ok n ->
    at_addr data base (qenc (S d) base n) ->
    qcsearch mid rect_of (S (S d)) data base bounds q
    = Some (qsearch mid rect_of (S d) n bounds q).
  Proof.
    induction d as [|d IH]; intros [s items quads] data base bounds q [HL HF] Hlen Hall Hat;
      apply list4 in HL as (o0 & o1 & o2 & o3 & ->);
      apply qall_unfold in Hall as [Hit Hk];
      (apply qcsearch_node; [assumption|assumption|assumption|]);
      intros c a bnds Hin Hat';
      rewrite Forall_forall in HF, Hk;
      pose proof (HF _ Hin) as Hc; pose proof (Hk _ Hin) as Hci; cbn [okid] in Hc, Hci.
    - destruct Hc.
    - apply IH; assumption.
  Qed.

  Lemma qcsearch_qenc : forall d n pre post bounds q,
    qshape d n ->
    let base := Z.of_nat (length pre) in
    let data := pre ++ qenc (S d) base n ++ post in
    Z.of_nat (length data) < 2 ^ 32 ->
    qall item_ok n ->
    qcsearch mid rect_of (S (S d)) data base bounds q
    = Some (qsearch mid rect_of (S d) n bounds q).
  Proof.
    intros d n pre post bounds q Hs base data Hlen Hall.
    apply qcsearch_at; try assumption. apply at_addr_intro.
  Qed.

  (* ---------------------------------------------------------------- *)
  (* MAIN THEOREM                                                      *)

  Theorem q_codec (d : nat) (n : qnode) (bounds q : rect) :
    qshape d n -> (d <= qMaxDepth)%nat -> qall item_ok n ->
    let data := set_compressed 2 (qenc (S qMaxDepth) 5 n) in
    Z.of_nat (length data) < 2 ^ 32 ->
    qcsearch mid rect_of (S (S qMaxDepth)) data 5 bounds q
    = Some (qsearch mid rect_of (S qMaxDepth) n bounds q).
  Proof.
    intros Hs Hd Hall data Hlen.
    apply qcsearch_at; try assumption.
    - eapply qshape_le; eassumption.
    - exists ([2] ++ le_bytes 4 (u32 (5 + Z.of_nat (length (qenc (S qMaxDepth) 5 n))))), [].
      split.
      + unfold data, set_compressed. rewrite app_nil_r, <- app_assoc. reflexivity.
      + rewrite app_length, le_bytes_length. reflexivity.
  Qed.


  (* ---------------------------------------------------------------- *)
  (* Trees built by the model's inserts are well-shaped                *)

  Definition into_quad (d' : nat) (bounds : rect) (sp : bool) (its : list Z)
             (qs : list (option qnode)) (r0 : rect) (it0 : Z) : qnode :=
    let q := choose_quad mid bounds r0 in
    if q =? -1 then QNode sp (its ++ [it0]) qs
    else QNode sp its
           (set_nth qs (Z.to_nat q)
              (Some (qinsert mid rect_of d' (get_quad qs q) (quad_bounds mid bounds q) r0 it0))).

  Definition redistribute (d' : nat) (bounds : rect) (items : list Z) (acc : qnode) : qnode :=
    fold_left (fun acc it0 =>
                 let '(QNode _ its qs) := acc in
                 into_quad d' bounds false its qs (rect_of it0) it0) items acc.

  Lemma qinsert_O split items quads bounds r item :
    qinsert mid rect_of O (QNode split items quads) bounds r item
    = QNode split (items ++ [item]) quads.
  Proof. reflexivity. Qed.

  Lemma qinsert_S d' split items quads bounds r item :
    qinsert mid rect_of (S d') (QNode split items quads) bounds r item =
    if split then into_quad d' bounds true items quads r item
    else if (length items =? qMaxItems)%nat then
           let '(QNode _ its qs) := redistribute d' bounds items (QNode false [] quads) in
           into_quad d' bounds true its qs r item
         else QNode split (items ++ [item]) quads.
  Proof. reflexivity. Qed.

  Lemma qshape_flags d s i s' i' quads :
    qshape d (QNode s i quads) -> qshape d (QNode s' i' quads).
  Proof. destruct d; exact (fun H => H). Qed.

  Lemma qshape_empty d : qshape d qempty.
  Proof. destruct d; (split; [reflexivity | repeat constructor]). Qed.

  Lemma qall_empty P : qall P qempty.
  Proof. apply qall_unfold. split; repeat constructor. Qed.

  Lemma set_nth_length {A} (l : list A) : forall i x, length (set_nth l i x) = length l.
  Proof. induction l as [|y l IH]; intros [|i] x; cbn [set_nth length]; auto. Qed.

  Lemma Forall_set_nth {A} (P : A -> Prop) (l : list A) : forall i x,
    Forall P l -> P x -> Forall P (set_nth l i x).
  Proof.
    induction l as [|y l IH]; intros [|i] x HF Hx; cbn [set_nth]; auto;
      inversion HF; subst; constructor; auto.
  Qed.

  Lemma get_quad_prop (P : qnode -> Prop) qs q :
    P qempty -> Forall (okid P) qs -> P (get_quad qs q).
  Proof.
    intros He HF. unfold get_quad.
    destruct (nth_error qs (Z.to_nat q)) as [[c|]|] eqn:E; try assumption.
    apply nth_error_In in E. rewrite Forall_forall in HF. exact (HF _ E).
  Qed.

  Lemma into_quad_shape d' bounds sp its qs sp' its' r0 it0 :
    (forall n b r item, qshape d' n -> qshape d' (qinsert mid rect_of d' n b r item)) ->
    qshape (S d') (QNode sp its qs) ->
    qshape (S d') (into_quad d' bounds sp' its' qs r0 it0).
  Proof.
    intros IH [HL HF]. unfold into_quad.
    destruct (choose_quad mid bounds r0 =? -1); [split; assumption|].
    split; [rewrite set_nth_length; assumption|].
    apply Forall_set_nth; [assumption|]. cbn [okid].
    apply IH. apply get_quad_prop; [apply qshape_empty | assumption].
  Qed.

  Lemma redistribute_shape d' bounds items : forall acc,
    (forall n b r item, qshape d' n -> qshape d' (qinsert mid rect_of d' n b r item)) ->
    qshape (S d') acc -> qshape (S d') (redistribute d' bounds items acc).
  Proof.
    unfold redistribute.
    induction items as [|x l IHl]; intros acc IH Hacc; cbn [fold_left]; [assumption|].
    apply IHl; [assumption|]. destruct acc as [s its qs].
    eapply into_quad_shape; eassumption.
  Qed.

  Theorem qinsert_shape d : forall n bounds r item,
    qshape d n -> qshape d (qinsert mid rect_of d n bounds r item).
  Proof.
    induction d as [|d' IH]; intros [split items quads] bounds r item Hs.
    - rewrite qinsert_O. eapply qshape_flags; eassumption.
    - rewrite qinsert_S. destruct split.
      + eapply into_quad_shape; eassumption.
      + destruct (length items =? qMaxItems)%nat.
        * pose proof (redistribute_shape d' bounds items (QNode false [] quads) IH
                        (qshape_flags _ _ _ _ _ _ Hs)) as Hr.
          destruct (redistribute d' bounds items (QNode false [] quads)) as [s2 its2 qs2].
          eapply into_quad_shape; eassumption.
        * eapply qshape_flags; eassumption.
  Qed.

  (* ... and keep every stored item inside P *)
  Lemma into_quad_all P d' bounds sp its qs sp' r0 it0 :
    (forall n b r item, qall P n -> P item -> qall P (qinsert mid rect_of d' n b r item)) ->
    qall P (QNode sp its qs) -> P it0 ->
    qall P (into_quad d' bounds sp' its qs r0 it0).
  Proof.
    intros IH Hall Hit. apply qall_unfold in Hall as [Hi Hq]. unfold into_quad.
    destruct (choose_quad mid bounds r0 =? -1); apply qall_unfold.
    - split; [|assumption]. apply Forall_app; split; [assumption|]. constructor; auto.
    - split; [assumption|]. apply Forall_set_nth; [assumption|]. cbn [okid].
      apply IH; [|assumption]. apply get_quad_prop; [apply qall_empty | assumption].
  Qed.

  Lemma redistribute_all P d' bounds items : forall acc,
    (forall n b r item, qall P n -> P item -> qall P (qinsert mid rect_of d' n b r item)) ->
    Forall P items -> qall P acc -> qall P (redistribute d' bounds items acc).
  Proof.
    unfold redistribute.
    induction items as [|x l IHl]; intros acc IH HF Hacc; cbn [fold_left]; [assumption|].
    inversion HF; subst.
    apply IHl; [assumption|assumption|]. destruct acc as [s its qs].
    eapply into_quad_all; eassumption.
  Qed.

  Theorem qinsert_all P d : forall n bounds r item,
    qall P n -> P item -> qall P (qinsert mid rect_of d n bounds r item).
  Proof.
    induction d as [|d' IH]; intros [split items quads] bounds r item Hall Hit.
    - rewrite qinsert_O. apply qall_unfold in Hall as [Hi Hq]. apply qall_unfold.
      split; [|assumption]. apply Forall_app; split; [assumption|]. constructor; auto.
    - rewrite qinsert_S. destruct split.
      + eapply into_quad_all; eassumption.
      + destruct (length items =? qMaxItems)%nat.
        * pose proof Hall as Hall'. apply qall_unfold in Hall' as [Hi Hq].
          assert (H0 : qall P (QNode false [] quads))
            by (apply qall_unfold; split; [constructor | assumption]).
          pose proof (redistribute_all P d' bounds items _ IH Hi H0) as Hr.
          destruct (redistribute d' bounds items (QNode false [] quads)) as [s2 its2 qs2].
          eapply into_quad_all; eassumption.
        * apply qall_unfold in Hall as [Hi Hq]. apply qall_unfold.
          split; [|assumption]. apply Forall_app; split; [assumption|]. constructor; auto.
  Qed.

  Lemma qbuild_gen D bounds (P : Z -> Prop) (l : list nat) : forall root,
    Forall (fun i => P (Z.of_nat i)) l ->
    qshape D root -> qall P root ->
    let t := fold_left (fun root i => qinsert mid rect_of D root bounds
                                        (rect_of (Z.of_nat i)) (Z.of_nat i)) l root in
    qshape D t /\ qall P t.
  Proof.
    induction l as [|i l IH]; intros root HF Hs Ha; cbn [fold_left]; [split; assumption|].
    inversion HF; subst.
    apply IH; [assumption | apply qinsert_shape; assumption | apply qinsert_all; assumption].
  Qed.

  Theorem qbuild_shape bounds n : qshape qMaxDepth (qbuild mid rect_of bounds n).
  Proof.
    unfold qbuild.
    apply (qbuild_gen qMaxDepth bounds (fun _ => True) (seq 0 n) qempty).
    - apply Forall_forall; auto.
    - apply qshape_empty.
    - apply qall_empty.
  Qed.

  Theorem qbuild_items bounds n :
    qall (fun it => 0 <= it < Z.of_nat n) (qbuild mid rect_of bounds n).
  Proof.
    unfold qbuild.
    apply (qbuild_gen qMaxDepth bounds (fun it => 0 <= it < Z.of_nat n) (seq 0 n) qempty).
    - apply Forall_forall. intros i Hi. apply in_seq in Hi. lia.
    - apply qshape_empty.
    - apply qall_empty.
  Qed.

  Lemma qall_impl (P Q : Z -> Prop) :
    (forall x, P x -> Q x) -> forall d n, qshape d n -> qall P n -> qall Q n.
  Proof.
    intros HPQ. induction d as [|d IH]; intros [s items quads] [HL HF] Ha;
      apply qall_unfold in Ha as [Hi Hq]; apply qall_unfold;
      (split; [eapply Forall_impl; [|exact Hi]; auto|]);
      rewrite Forall_forall in *; intros o Ho;
      specialize (HF o Ho); specialize (Hq o Ho); destruct o as [c|]; cbn [okid] in *; auto.
    destruct HF.
  Qed.

  Corollary q_codec_build (bounds : rect) (n : nat) (q : rect) :
    Z.of_nat n < 2 ^ 32 ->
    let data := set_compressed 2 (qenc (S qMaxDepth) 5 (qbuild mid rect_of bounds n)) in
    Z.of_nat (length data) < 2 ^ 32 ->
    qcsearch mid rect_of (S (S qMaxDepth)) data 5 bounds q
    = Some (qsearch mid rect_of (S qMaxDepth) (qbuild mid rect_of bounds n) bounds q).
  Proof.
    intros Hn data Hlen.
    apply (q_codec qMaxDepth); [apply qbuild_shape | apply le_n | | exact Hlen].
    eapply qall_impl; [| apply qbuild_shape | apply qbuild_items].
    unfold item_ok. intros x Hx. cbv beta in Hx. lia.
  Qed.

End CodecQ.

Print Assumptions le_bytes_length.
Print Assumptions read_le_le_bytes.
Print Assumptions num_bytes_cases.
Print Assumptions maxfold_fits.
Print Assumptions read_num_enc_num.
Print Assumptions read_items_flat_map.
Print Assumptions qenc_layout.
Print Assumptions qcsearch_qenc.
Print Assumptions q_codec.
Print Assumptions qinsert_shape.
Print Assumptions qbuild_shape.
Print Assumptions qbuild_items.
Print Assumptions q_codec_build.
