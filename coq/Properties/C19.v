(* Property C19 — segment-level kernels are exact and symmetric.
   Only statements, each closed by the lemma that proves it. *)
From Coq Require Import QArith.
From GJ Require Import Base Kernel KernelSpec RaycastProofs KernelProofs IntersectsProofs IntersectsQ.
Open Scope Z_scope.

(* 'on' exactly when the point lies on the closed segment *)
Theorem C19_raycast_on : forall s p, raycast_on s p = true <-> on_seg s p.
Proof. exact raycast_on_iff. Qed.

(* otherwise 'in' exactly when the rightward ray crosses under the half-open rule *)
Theorem C19_raycast_in : forall s p, raycast_in s p = true <-> (~ on_seg s p /\ crosses s p).
Proof. exact raycast_in_iff. Qed.

Theorem C19_raycast_endpoint_order : forall a b p, raycast (a, b) p = raycast (b, a) p.
Proof. exact raycast_sym. Qed.

(* segment-intersects-segment: true exactly when the closed segments share a point *)
Theorem C19_intersects_orientation : forall s o, intersects_segment s o = true <-> seg_meet s o.
Proof. exact intersects_segment_iff. Qed.

Theorem C19_intersects_common_point : forall s o,
  intersects_segment s o = true <-> exists q, on_segQ s q /\ on_segQ o q.
Proof. exact intersects_segment_iff_common_point. Qed.

Theorem C19_intersects_symmetric : forall s o, intersects_segment s o = intersects_segment o s.
Proof. exact intersects_segment_sym. Qed.

Theorem C19_contains_segment : forall s o,
  seg_contains_segment s o = true <-> (on_seg s (fst o) /\ on_seg s (snd o)).
Proof. exact seg_contains_segment_iff. Qed.

Theorem C19_collinear_point : forall s p, collinear_point s p = true <-> cross (fst s) (snd s) p = 0.
Proof. exact collinear_point_iff. Qed.

(* the pinned (pre-repair) code violated symmetry and exactness: finding F1, fixed in /repo *)
Theorem C19_pinned_refuted : exists s o,
  intersects_segment_pinned s o = false /\ intersects_segment_pinned o s = true /\ seg_meet s o.
Proof. exact intersects_segment_pinned_refuted. Qed.

Print Assumptions C19_raycast_on.
Print Assumptions C19_raycast_in.
Print Assumptions C19_raycast_endpoint_order.
Print Assumptions C19_intersects_orientation.
Print Assumptions C19_intersects_common_point.
Print Assumptions C19_intersects_symmetric.
Print Assumptions C19_contains_segment.
Print Assumptions C19_collinear_point.
Print Assumptions C19_pinned_refuted.
