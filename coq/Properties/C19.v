(* Property C19 — segment-level kernels are exact and symmetric.
   This file holds only the statements, each closed by the lemma that proves it. *)
From GJ Require Import Base Kernel KernelSpec RaycastProofs KernelProofs.

(* 'on' exactly when the point lies on the closed segment *)
Theorem C19_raycast_on : forall s p, raycast_on s p = true <-> on_seg s p.
Proof. exact raycast_on_iff. Qed.

(* otherwise 'in' exactly when the rightward ray crosses under the half-open rule *)
Theorem C19_raycast_in : forall s p, raycast_in s p = true <-> (~ on_seg s p /\ crosses s p).
Proof. exact raycast_in_iff. Qed.

Theorem C19_raycast_endpoint_order : forall a b p, raycast (a, b) p = raycast (b, a) p.
Proof. exact raycast_sym. Qed.

Print Assumptions C19_raycast_on.
Print Assumptions C19_raycast_in.
Print Assumptions C19_raycast_endpoint_order.
