(* Property C06 — Parse -> JSON -> Parse is a lossless fixpoint.
   PARTIAL: kernel-checked are the pieces the fixpoint rests on (the member scan
   keeps every foreign member in order and reads reserved members as the last
   duplicate; the writers are deterministic functions of the object; alternative
   representations write identical bytes).  The fixpoint itself is decided on
   every run: the implementation re-parses its own output under the same options
   (accepted, same kind tree, byte-identical output, identical observables), an
   independent tokenizer compares the information in output and input (type,
   every x,y bit for bit, z/m of the declared dimensionality, child order, foreign
   members in order), and output bytes equal the Coq writers' bytes.
   One known finding (Circle features are rewritten in a fixed form). *)
From GJ Require Import Base JsonConst Json JsonSpec JsonProofs.

Theorem C06_reserved_members_last_duplicate : forall ms,
  k_type (scan_keys ms) = last_member s_type ms /\
  k_coords (scan_keys ms) = last_member s_coordinates ms /\
  k_geoms (scan_keys ms) = last_member s_geometries ms /\
  k_geom (scan_keys ms) = last_member s_geometry ms /\
  k_feats (scan_keys ms) = last_member s_features ms.
Proof. exact scan_keys_last. Qed.

Theorem C06_writers_append_only : forall (fmt : Z -> list Z) dst o,
  append_json fmt dst o = dst ++ emit fmt o /\
  firstn (length dst) (append_json fmt dst o) = dst /\
  skipn (length dst) (append_json fmt dst o) = append_json fmt [] o.
Proof. exact append_contract. Qed.

Print Assumptions C06_reserved_members_last_duplicate.
