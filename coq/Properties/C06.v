(* Property C06 — Parse -> JSON -> Parse is a lossless fixpoint.
   PROVED on the parse / emit model, for every document whose numbers are finite,
   every option set and every number formatter (RoundTrip.v, ParsedForm.v):
   if Parse accepts the document tree v and returns g, then Parse of the tree
   that the writers produce for g is accepted under the same options and returns
   g' = norm g (g itself, a Feature having gained the default "properties"
   member); g' writes byte-identical output; Parse of that output returns g'
   again (a fixpoint after one step); and g' has the same kind tree, the same
   coordinates and the same image in the predicate model, so every geometry
   answer is identical.  The writers' bytes are the minified print of that tree
   (C17).  Outside the theorem: the tokenizer (text <-> tree; the harness's
   independent tokenizer supplies trees and is compared with encoding/json), and
   strconv (the formatter prints a lexeme that reads back as the same value:
   by construction of num_jv in the model, bit-for-bit in the stream).
   "Lossless" (the output carries the input's information): proved are (ParseInfo.v,
   ParseSpec.v) that the object stores, and the writers put right after the two
   reserved members, exactly the document's non-reserved members with their values
   in their original order; that the z/m values kept are, position by position and
   across the rings of a polygon, the ordinates beyond the second of each position
   cut or zero-padded to the dimensionality the first position declares; and (C07)
   that kind tree, child order and every x,y are the document's.  The same clause
   is decided on every run by the independent tokenizer comparison.  One known finding (Circle features are rewritten in a
   fixed form): a Circle is a fixpoint of the theorem too, it is the first
   Parse that drops information. *)
From GJ Require Import Base JsonConst Json JsonSpec JsonProofs EmitProofs RoundTrip Obj JsonExec ParsedForm ParseSpec ParseInfo.

Theorem C06_reserved_members_last_duplicate : forall ms,
  k_type (scan_keys ms) = last_member s_type ms /\
  k_coords (scan_keys ms) = last_member s_coordinates ms /\
  k_geoms (scan_keys ms) = last_member s_geometries ms /\
  k_geom (scan_keys ms) = last_member s_geometry ms /\
  k_feats (scan_keys ms) = last_member s_features ms.
Proof. exact scan_keys_last. Qed.

Theorem C06_writers_append_only : forall (fmt : Z -> list Z) dst o,
  append_json fmt dst o = dst ++ emit fmt o /\
  firstn (length dst) (append_json fmt dst o) = dst /\
  skipn (length dst) (append_json fmt dst o) = append_json fmt [] o.
Proof. exact append_contract. Qed.

Theorem C06_parse_json_parse_fixpoint : forall (fmt : Z -> list Z) (fuel fuel2 : nat) (o : popts) (one : Z) (v : jv) (g : gobj),
  fin_doc v = true -> parse fuel o one v = POk g -> (gdepth g <= fuel2)%nat ->
  let g' := norm g in
  parse fuel2 o one (emit_jv fmt g) = POk g' /\
  emit fmt g' = emit fmt g /\
  emit fmt g = print_min (emit_jv fmt g) /\
  parse fuel2 o one (emit_jv fmt g') = POk g'.
Proof. exact parse_json_parse. Qed.

Theorem C06_same_kind_and_answers : forall g, enc_tree (norm g) = enc_tree g /\ to_obj (norm g) = to_obj g.
Proof. exact norm_same_geometry. Qed.

Theorem C06_parsed_objects_are_in_parsed_form : forall fuel o one v g,
  fin_doc v = true -> parse fuel o one v = POk g -> pf o one g.
Proof. exact parse_pf. Qed.

Theorem C06_fixpoint_of_parsed_form : forall (fmt : Z -> list Z) o one g, pf o one g ->
  forall fuel, (gdepth g <= fuel)%nat -> parse fuel o one (emit_jv fmt g) = POk (norm g).
Proof. exact parse_emit_fixpoint. Qed.

(* non-vacuity: a Feature (with an id, without properties) around a 3-dimensional LineString is accepted;
   its re-parsed form differs from it (the default member), and is its own re-parsed form *)
Definition ex_num (k : Z) : jv := JNum [48 + k] (FV k).
Definition ex_doc : jv :=
  JObj [(key s_type, JStr s_Feature s_Feature);
        (key [105; 100], ex_num 7);
        (key s_geometry, JObj [(key s_type, JStr s_LineString s_LineString);
                               (key s_coordinates, JArr [JArr [ex_num 1; ex_num 2; ex_num 3]; JArr [ex_num 4; ex_num 5; ex_num 6]])])].
Example C06_hypotheses_hold_somewhere :
  fin_doc ex_doc = true /\
  exists g, parse 3 (mk_opts 0 0) 1 ex_doc = POk g /\ (gdepth g <= 3)%nat /\ norm g <> g /\ norm (norm g) = norm g.
Proof.
  split; [reflexivity|]. eexists. split; [vm_compute; reflexivity|]. split; [cbn; lia|]. split; [discriminate|reflexivity].
Qed.

(* information clause: foreign members, in order, with their values; a Feature always has a properties member *)
Theorem C06_foreign_members_written_in_order : forall (fmt : Z -> list Z) fuel o one ms g,
  parse fuel o one (JObj ms) = POk g -> is_circle g = false ->
  exists a b, emit_jv fmt g =
    JObj (a :: b :: filter foreign_key ms ++
          (if is_feature g then match first_member s_properties (filter foreign_key ms) with Some _ => [] | None => [props_member] end else [])).
Proof. exact written_members. Qed.

(* information clause: z/m values of the declared dimensionality *)
Theorem C06_line_values : forall top l ps ex,
  Forall wfposv l -> parse_line_coords top (Some (JArr l)) = ROk (ps, ex) ->
  ex = declared_extra l /\ ps = map pos_xy l.
Proof. exact line_values. Qed.
Theorem C06_polygon_values : forall top rs rings ex,
  Forall wfring_pos rs -> (match rs with r1 :: _ => elems r1 <> [] | [] => True end) ->
  parse_poly_coords top (Some (JArr rs)) = ROk (rings, ex) ->
  ex = declared_extra (concat (map elems rs)) /\ rings = map ring_pts rs.
Proof. exact polygon_values. Qed.

Print Assumptions C06_reserved_members_last_duplicate.
Print Assumptions C06_foreign_members_written_in_order.
Print Assumptions C06_polygon_values.
Print Assumptions C06_parse_json_parse_fixpoint.
Print Assumptions C06_same_kind_and_answers.
Print Assumptions C06_parsed_objects_are_in_parsed_form.
