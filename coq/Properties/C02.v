(* Property C02 — Intersects is exact and symmetric.  PARTIAL: the statements
   below are kernel-checked for every input.  Ring x segment and ring x line
   string (= polygon without holes x line string) and ring x ring (= polygon x
   polygon without holes) are proved exact as point sets, hence symmetric,
   through a discrete Jordan-curve argument (Jordan.v, JordanQ.v, JordanRing.v);
   with holes: polygon x line string (fewer than 16 points) under explicit validity
   hypotheses (Holes.v); the other pairs involving holes are NOT proved and are decided by the
   differential correspondence against the executable oracle PairSpec.meets_x on
   every run. *)
From Coq Require Import QArith.
From GJ Require Import Base Kernel KernelSpec KernelProofs IntersectsProofs IntersectsQ Series SeriesSpec
  Ring RingSpec PipProofs PairProofs Jordan JordanQ JordanRing JordanRect Convex Holes HoleBox.
Open Scope Z_scope.

(* segments: true exactly when the closed segments share a point; symmetric *)
Theorem C02_segment_exact : forall s o, intersects_segment s o = true <-> seg_meet s o.
Proof. exact intersects_segment_iff. Qed.
Theorem C02_segment_symmetric : forall s o, intersects_segment s o = intersects_segment o s.
Proof. exact intersects_segment_sym. Qed.

(* point x {rect, line, polygon} and the mirrored pairs: the point-set membership of C01 *)
Theorem C02_point_rect : forall p r, point_intersects_rect p r = in_rectb r p.
Proof. exact point_intersects_rect_spec. Qed.
Theorem C02_point_line : forall p ps, point_intersects_line p (Lr ps) = in_lineb ps p.
Proof. exact point_intersects_line_spec. Qed.
Theorem C02_point_poly : forall p e hs,
  point_intersects_poly p (Pg e hs) = in_polyb (ring_edges e) (map ring_edges hs) p.
Proof. exact point_intersects_poly_spec. Qed.
Theorem C02_line_point : forall ps p, line_contains_point_r (Lr ps) p = in_lineb ps p.
Proof. exact line_intersects_point_spec. Qed.
Theorem C02_poly_point : forall e hs p,
  poly_contains_point (Pg e hs) p = in_polyb (ring_edges e) (map ring_edges hs) p.
Proof. exact poly_intersects_point_spec. Qed.

(* rect x rect: the closed boxes share a (rational) point; symmetric *)
Theorem C02_rect_rect : forall r o, rect_wf r -> rect_wf o ->
  (rect_intersects_rect r o = true <-> exists x y, in_rectQ r x y /\ in_rectQ o x y).
Proof. exact rect_intersects_rect_meets. Qed.
Theorem C02_rect_rect_symmetric : forall r o, rect_intersects_rect r o = rect_intersects_rect o r.
Proof. exact rect_intersects_rect_sym. Qed.

(* line x line: both have a segment and some pair of segments shares a point;
   the bounding-box pre-tests and the shorter-line-first swap are invisible; symmetric *)
Theorem C02_line_line : forall ps qs,
  line_intersects_line (Lr ps) (Lr qs) = true <->
  (2 <= length ps)%nat /\ (2 <= length qs)%nat /\
  exists sa sb, In sa (path_segs ps) /\ In sb (path_segs qs) /\ seg_meet sa sb.
Proof. exact line_intersects_line_spec. Qed.
Theorem C02_line_line_symmetric : forall l o, line_intersects_line l o = line_intersects_line o l.
Proof. exact line_intersects_line_sym. Qed.
Theorem C02_seg_meet_is_common_point : forall s o,
  seg_meet s o <-> exists q : Q * Q, on_segQ s q /\ on_segQ o q.
Proof. exact seg_meet_iff_common_point. Qed.

(* the remaining mixed pairs delegate to one implementation, so operand order cannot matter *)
Theorem C02_rect_line_symmetric : forall q l, rect_intersects_line q l = line_intersects_rect l q.
Proof. reflexivity. Qed.
Theorem C02_rect_poly_symmetric : forall q p, rect_intersects_poly q p = poly_intersects_rect p q.
Proof. reflexivity. Qed.
Theorem C02_line_poly_symmetric : forall l p, line_intersects_poly l p = poly_intersects_line p l.
Proof. reflexivity. Qed.

(* ---- rings: a discrete Jordan-curve argument (any closed vertex sequence) ---- *)

(* the crossing parity is constant along a grid segment that no ring edge meets *)
Theorem C02_parity_constant_off_boundary : forall ps A B,
  (forall e, In e (ring_edges ps) -> ~ seg_meet e (A, B)) ->
  parityb (ring_edges ps) A = parityb (ring_edges ps) B.
Proof. exact parity_constant_off_boundary. Qed.

(* both ends strictly outside and an edge meets the segment: at least two edges do —
   the fact behind ringIntersectsSegment's "count >= 2" rule *)
Theorem C02_two_edges_meet : forall ps A B,
  in_ringb (ring_edges ps) A = false -> in_ringb (ring_edges ps) B = false ->
  existsb (fun e => intersects_segment (A, B) e) (ring_edges ps) = true ->
  (2 <= length (filter (fun e => intersects_segment (A, B) e) (ring_edges ps)))%nat.
Proof. exact two_edges_meet. Qed.

(* ringIntersectsSegment (contact allowed) = an end is in the closed ring or an edge meets the segment *)
Theorem C02_ring_segment_exact : forall ps A B,
  ring_intersects_segment (RS {| closed := true; pts := ps |}) (A, B) true =
  in_ringb (ring_edges ps) A || in_ringb (ring_edges ps) B ||
  existsb (fun e => seg_meetb e (A, B)) (ring_edges ps).
Proof. exact ring_intersects_segment_exact. Qed.

(* ... which is: the closed segment and the closed ring share a rational point
   (P, k) = P / k *)
Theorem C02_ring_segment_pointset : forall ps A B,
  ring_intersects_segment (RS {| closed := true; pts := ps |}) (A, B) true = true <->
  exists k P, 0 < k /\ on_seg (sc k A, sc k B) P /\ in_ringb (ring_edges (map (sc k) ps)) P = true.
Proof. exact ring_intersects_segment_pointset. Qed.

(* membership of P / k in the ring does not depend on the representative *)
Theorem C02_rational_membership_well_defined : forall ps j k P, 0 < j ->
  in_ringb (ring_edges (map (sc (j * k)) ps)) (sc j P) = in_ringb (ring_edges (map (sc k) ps)) P.
Proof. exact in_ring_scale_invariant. Qed.

(* ringIntersectsLine = Poly.IntersectsLine / Line.IntersectsPoly for a polygon without holes:
   true exactly when some segment of the line shares a point with the closed ring *)
Theorem C02_ring_line_pointset : forall ps qs,
  ring_intersects_line (RS {| closed := true; pts := ps |}) (RS {| closed := false; pts := qs |}) true = true <->
  (3 <= length ps)%nat /\ (2 <= length qs)%nat /\
  exists sg, In sg (path_segs qs) /\ shares_point ps (fst sg) (snd sg).
Proof. exact ring_intersects_line_pointset. Qed.

(* ringIntersectsRing = Poly.IntersectsPoly for polygons without holes: true exactly when the two
   closed rings share a rational point (P, k) = P / k — a statement symmetric in the operands.
   Any closed vertex sequences: the ring chosen as "the ring" is the one with the larger box, and
   nesting the other way is excluded by the boxes (JordanRing.nested_bigger_box), boundaries
   lying outside each other by a descent on the edges met (no_common_interior_point). *)
Theorem C02_ring_ring_pointset : forall ps qs,
  ring_intersects_ring (RS {| closed := true; pts := ps |}) (RS {| closed := true; pts := qs |}) true = true <->
  (3 <= length ps)%nat /\ (3 <= length qs)%nat /\
  exists k P, 0 < k /\ in_ringb (ring_edges (map (sc k) ps)) P = true /\
                       in_ringb (ring_edges (map (sc k) qs)) P = true.
Proof. exact ring_intersects_ring_pointset. Qed.
Theorem C02_ring_ring_symmetric : forall ps qs,
  ring_intersects_ring (RS {| closed := true; pts := ps |}) (RS {| closed := true; pts := qs |}) true =
  ring_intersects_ring (RS {| closed := true; pts := qs |}) (RS {| closed := true; pts := ps |}) true.
Proof. exact ring_intersects_ring_sym. Qed.
Theorem C02_polygons_without_holes : forall e1 e2,
  poly_intersects_poly (Pg e1 []) (Pg e2 []) = true <->
  (3 <= length e1)%nat /\ (3 <= length e2)%nat /\ rings_share_point e1 e2.
Proof. exact poly_intersects_poly_noholes. Qed.
Theorem C02_polygons_without_holes_symmetric : forall e1 e2,
  poly_intersects_poly (Pg e1 []) (Pg e2 []) = poly_intersects_poly (Pg e2 []) (Pg e1 []).
Proof. exact poly_intersects_poly_noholes_sym. Qed.
Theorem C02_polygon_without_holes_line : forall e qs,
  poly_intersects_line (Pg e []) (Lr qs) = true <->
  (3 <= length e)%nat /\ (2 <= length qs)%nat /\
  exists sg, In sg (path_segs qs) /\ shares_point e (fst sg) (snd sg).
Proof. exact poly_intersects_line_noholes. Qed.

(* a Rect operand: Rect.IntersectsLine / Line.IntersectsRect and Poly.IntersectsRect /
   Rect.IntersectsPoly (polygon without holes): true exactly when the closed box and the other
   closed set share a rational point *)
Theorem C02_rect_line_pointset : forall q qs, rect_wf q ->
  (rect_intersects_line q (Lr qs) = true <->
   (2 <= length qs)%nat /\
   exists sg k P, In sg (path_segs qs) /\ 0 < k /\ on_seg (sc k (fst sg), sc k (snd sg)) P /\ in_rectb (scr k q) P = true).
Proof. exact rect_intersects_line_pointset. Qed.
Theorem C02_polygon_without_holes_rect : forall e q, rect_wf q ->
  (poly_intersects_rect (Pg e []) q = true <->
   (3 <= length e)%nat /\
   exists k P, 0 < k /\ in_ringb (edges_at k e) P = true /\ in_rectb (scr k q) P = true).
Proof. exact poly_intersects_rect_noholes. Qed.

(* ---- a polygon WITH holes against a line string of fewer than 16 points (Holes.v) ----
   each hole either not flagged convex, or flagged convex and really convex (Convex.hpc):
   (1) no validity assumption: true exactly when the line shares a point with the closed exterior
       and is not wholly strictly inside a hole;
   (2) valid polygon (every boundary point of a hole is in the closed exterior and strictly inside
       no hole): true exactly when the line string and exterior-minus-hole-interiors share a
       rational point *)
Theorem C02_polygon_with_holes_line : forall e hs qs,
  Forall hole_ok hs -> (length qs < 16)%nat ->
  (poly_intersects_line (Pg e hs) (Lr qs) = true <->
   ((3 <= length e)%nat /\ (2 <= length qs)%nat /\
    exists sg, In sg (path_segs qs) /\ shares_point e (fst sg) (snd sg)) /\
   forall h, In h hs -> ~ line_strictly_inside h qs).
Proof. exact poly_intersects_line_holes. Qed.
Theorem C02_polygon_with_holes_line_pointset : forall e hs qs,
  Forall hole_ok hs -> holes_valid e hs -> (length qs < 16)%nat ->
  (poly_intersects_line (Pg e hs) (Lr qs) = true <->
   (3 <= length e)%nat /\ (2 <= length qs)%nat /\
   exists sg, In sg (path_segs qs) /\ poly_shares_point e hs (fst sg) (snd sg)).
Proof. exact poly_intersects_line_pointset. Qed.
(* ... for line strings of ANY length: the bounding-box shortcut of ringContainsRing (arguments of 16
   points and more) is sound in strict mode - if the four sides of the box of the line lie strictly
   inside the hole, so does every rational point of the box (no edge of the hole can enter the box: its
   ends would be strictly inside the box, then every vertex of the hole would be, and a corner of the
   box could not lie inside the hole's own bounding box) *)
Theorem C02_box_shortcut_strict : forall h qs, hole_ok h -> (2 <= length qs)%nat ->
  rcr_core (Rg h) (RR (ring_rect (Lr qs))) false = true -> rcr_core (Rg h) (Lr qs) false = true.
Proof. exact shortcut_strict. Qed.
Theorem C02_polygon_with_holes_line_any_length : forall e hs qs,
  Forall hole_ok hs ->
  (poly_intersects_line (Pg e hs) (Lr qs) = true <->
   ((3 <= length e)%nat /\ (2 <= length qs)%nat /\
    exists sg, In sg (path_segs qs) /\ shares_point e (fst sg) (snd sg)) /\
   forall h, In h hs -> ~ line_strictly_inside h qs).
Proof. exact poly_intersects_line_holes_all. Qed.
Theorem C02_polygon_with_holes_line_pointset_any_length : forall e hs qs,
  Forall hole_ok hs -> holes_valid e hs ->
  (poly_intersects_line (Pg e hs) (Lr qs) = true <->
   (3 <= length e)%nat /\ (2 <= length qs)%nat /\
   exists sg, In sg (path_segs qs) /\ poly_shares_point e hs (fst sg) (snd sg)).
Proof. exact poly_intersects_line_pointset_all. Qed.
(* a line string of 17 points inside the hole of a square: the shortcut is taken, the answer is "no" *)
Example C02_long_line_in_hole :
  poly_intersects_line (Pg (rect_points ((0,0),(40,40))) [rect_points ((2,2),(30,30))])
    (Lr [(3,3);(4,5);(5,3);(6,5);(7,3);(8,5);(9,3);(10,5);(11,3);(12,5);(13,3);(14,5);(15,3);(16,5);(17,3);(18,5);(19,3)]) = false.
Proof. vm_compute. reflexivity. Qed.
(* non-vacuity: a square with a square hole *)
Example C02_holes_hypotheses_hold_somewhere :
  let e := rect_points ((0,0),(8,8)) in let h := rect_points ((2,2),(4,4)) in
  Forall hole_ok [h] /\ holes_valid e [h] /\
  poly_intersects_line (Pg e [h]) (Lr [(3,3); (3,6)]) = true /\
  poly_intersects_line (Pg e [h]) (Lr [(3,3); (3,4)]) = true /\
  poly_intersects_line (Pg e [h]) (Lr [(3,3); (3,3)]) = false.
Proof.
  cbv zeta. split; [|split; [|vm_compute; repeat split]].
  - constructor; [|constructor]. right. split; [vm_compute; reflexivity|]. exists 1. split; [left; reflexivity|]. split.
    + intros a b c d Hab Hcd. vm_compute in Hab, Hcd.
      destruct Hab as [E1|[E1|[E1|[E1|[]]]]]; destruct Hcd as [E2|[E2|[E2|[E2|[]]]]];
        inversion E1; inversion E2; subst; vm_compute; split; discriminate.
    + intros a b Hab. vm_compute in Hab. destruct Hab as [E1|[E1|[E1|[E1|[]]]]]; inversion E1; subst; discriminate.
  - intros h [<-|[]] k f S Hk Hf Hon. split.
    + rewrite in_ringb_rect_at by (try exact Hk; unfold rect_wf; cbn; lia).
      rewrite edges_at_map in Hf by exact Hk. apply in_map_iff in Hf. destruct Hf as (f0 & <- & Hf0).
      vm_compute in Hf0. destruct Hf0 as [<-|[<-|[<-|[<-|[]]]]];
        unfold scs, Invariance.affs, Invariance.aff, on_seg, px, py in Hon; cbn [fst snd] in Hon;
        unfold in_rectb, scr, sc, Invariance.aff, px, py; cbn [fst snd];
        rewrite !andb_true_iff, !Z.leb_le; lia.
    + intros h' [<-|[]]. unfold strictly_in_ringb. apply andb_false_iff. left. apply negb_false_iff.
      apply on_boundaryb_iff. exists f. split; assumption.
Qed.

(* non-vacuity of the ring x ring statement: a small square nested in a big one (no edges meet;
   either operand order), two overlapping squares, two disjoint squares *)
Example C02_ring_ring_examples :
  let big := [(0,0); (8,0); (8,8); (0,8); (0,0)] in
  let small := [(3,3); (5,3); (5,5); (3,5); (3,3)] in
  let shifted := [(6,6); (12,6); (12,12); (6,12); (6,6)] in
  let far := [(20,20); (22,20); (22,22); (20,22); (20,20)] in
  let ri a b := ring_intersects_ring (RS {| closed := true; pts := a |}) (RS {| closed := true; pts := b |}) true in
  ri big small = true /\ ri small big = true /\ ri big shifted = true /\ ri shifted big = true /\
  ri big far = false /\ ri small shifted = false /\
  existsb (fun e => existsb (fun f => seg_meetb e f) (ring_edges small)) (ring_edges big) = false.
Proof. vm_compute. repeat split. Qed.

(* non-vacuity: a square, a segment through it with both ends outside (two edges
   meet it), and a rational shared point that is not a grid point of the unscaled plane *)
Example C02_two_edges_example :
  let ps := [(0,0); (4,0); (4,4); (0,4); (0,0)] in
  in_ringb (ring_edges ps) (-1, 1) = false /\ in_ringb (ring_edges ps) (5, 2) = false /\
  existsb (fun e => intersects_segment ((-1, 1), (5, 2)) e) (ring_edges ps) = true /\
  length (filter (fun e => intersects_segment ((-1, 1), (5, 2)) e) (ring_edges ps)) = 2%nat /\
  ring_intersects_segment (RS {| closed := true; pts := ps |}) ((-1, 1), (5, 2)) true = true.
Proof. vm_compute. repeat split. Qed.
Example C02_rational_point_example :
  let ps := [(0,0); (4,0); (4,4); (0,4); (0,0)] in
  (* (7/2, 7/4): the point of the segment above at parameter 3/4; with k = 4 it is P = (14, 7) *)
  on_seg (sc 4 (-1, 1), sc 4 (5, 2)) (14, 7) /\ in_ringb (ring_edges (map (sc 4) ps)) (14, 7) = true.
Proof. split; [unfold on_seg; vm_compute; repeat split; discriminate|vm_compute; reflexivity]. Qed.
Example C02_parity_constant_example :
  let ps := [(0,0); (4,0); (4,4); (0,4); (0,0)] in
  (forall e, In e (ring_edges ps) -> seg_meetb e ((1, 1), (3, 2)) = false) /\
  parityb (ring_edges ps) (1, 1) = true /\ parityb (ring_edges ps) (3, 2) = true.
Proof. vm_compute. split; [|split; reflexivity]. intros e [<-|[<-|[<-|[<-|[]]]]]; reflexivity. Qed.

Print Assumptions C02_segment_exact.
Print Assumptions C02_parity_constant_off_boundary.
Print Assumptions C02_two_edges_meet.
Print Assumptions C02_ring_segment_exact.
Print Assumptions C02_ring_segment_pointset.
Print Assumptions C02_rational_membership_well_defined.
Print Assumptions C02_ring_line_pointset.
Print Assumptions C02_ring_ring_pointset.
Print Assumptions C02_ring_ring_symmetric.
Print Assumptions C02_polygons_without_holes.
Print Assumptions C02_polygons_without_holes_symmetric.
Print Assumptions C02_polygon_without_holes_line.
Print Assumptions C02_rect_line_pointset.
Print Assumptions C02_polygon_with_holes_line.
Print Assumptions C02_polygon_with_holes_line_pointset.
Print Assumptions C02_polygon_without_holes_rect.
Print Assumptions C02_rect_rect.
Print Assumptions C02_line_line.
Print Assumptions C02_line_line_symmetric.
Print Assumptions C02_seg_meet_is_common_point.
Print Assumptions C02_point_poly.
Print Assumptions C02_polygon_with_holes_line_pointset_any_length.
