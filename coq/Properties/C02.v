(* Property C02 — Intersects is exact and symmetric.  PARTIAL: the statements
   below are kernel-checked for every input; completeness of the ring x segment,
   ring x ring and polygon-pair algorithms is NOT proved (polygonal Jordan curve
   theorem, DESIGN §9) and is decided by the differential correspondence against
   the executable oracle PairSpec.meets_x on every run. *)
From Coq Require Import QArith.
From GJ Require Import Base Kernel KernelSpec KernelProofs IntersectsProofs IntersectsQ Series SeriesSpec
  Ring RingSpec PipProofs PairProofs.
Open Scope Z_scope.

(* segments: true exactly when the closed segments share a point; symmetric *)
Theorem C02_segment_exact : forall s o, intersects_segment s o = true <-> seg_meet s o.
Proof. exact intersects_segment_iff. Qed.
Theorem C02_segment_symmetric : forall s o, intersects_segment s o = intersects_segment o s.
Proof. exact intersects_segment_sym. Qed.

(* point x {rect, line, polygon} and the mirrored pairs: the point-set membership of C01 *)
Theorem C02_point_rect : forall p r, point_intersects_rect p r = in_rectb r p.
Proof. exact point_intersects_rect_spec. Qed.
Theorem C02_point_line : forall p ps, point_intersects_line p (Lr ps) = in_lineb ps p.
Proof. exact point_intersects_line_spec. Qed.
Theorem C02_point_poly : forall p e hs,
  point_intersects_poly p (Pg e hs) = in_polyb (ring_edges e) (map ring_edges hs) p.
Proof. exact point_intersects_poly_spec. Qed.
Theorem C02_line_point : forall ps p, line_contains_point_r (Lr ps) p = in_lineb ps p.
Proof. exact line_intersects_point_spec. Qed.
Theorem C02_poly_point : forall e hs p,
  poly_contains_point (Pg e hs) p = in_polyb (ring_edges e) (map ring_edges hs) p.
Proof. exact poly_intersects_point_spec. Qed.

(* rect x rect: the closed boxes share a (rational) point; symmetric *)
Theorem C02_rect_rect : forall r o, rect_wf r -> rect_wf o ->
  (rect_intersects_rect r o = true <-> exists x y, in_rectQ r x y /\ in_rectQ o x y).
Proof. exact rect_intersects_rect_meets. Qed.
Theorem C02_rect_rect_symmetric : forall r o, rect_intersects_rect r o = rect_intersects_rect o r.
Proof. exact rect_intersects_rect_sym. Qed.

(* line x line: both have a segment and some pair of segments shares a point;
   the bounding-box pre-tests and the shorter-line-first swap are invisible; symmetric *)
Theorem C02_line_line : forall ps qs,
  line_intersects_line (Lr ps) (Lr qs) = true <->
  (2 <= length ps)%nat /\ (2 <= length qs)%nat /\
  exists sa sb, In sa (path_segs ps) /\ In sb (path_segs qs) /\ seg_meet sa sb.
Proof. exact line_intersects_line_spec. Qed.
Theorem C02_line_line_symmetric : forall l o, line_intersects_line l o = line_intersects_line o l.
Proof. exact line_intersects_line_sym. Qed.
Theorem C02_seg_meet_is_common_point : forall s o,
  seg_meet s o <-> exists q : Q * Q, on_segQ s q /\ on_segQ o q.
Proof. exact seg_meet_iff_common_point. Qed.

(* the remaining mixed pairs delegate to one implementation, so operand order cannot matter *)
Theorem C02_rect_line_symmetric : forall q l, rect_intersects_line q l = line_intersects_rect l q.
Proof. reflexivity. Qed.
Theorem C02_rect_poly_symmetric : forall q p, rect_intersects_poly q p = poly_intersects_rect p q.
Proof. reflexivity. Qed.
Theorem C02_line_poly_symmetric : forall l p, line_intersects_poly l p = poly_intersects_line p l.
Proof. reflexivity. Qed.

Print Assumptions C02_segment_exact.
Print Assumptions C02_rect_rect.
Print Assumptions C02_line_line.
Print Assumptions C02_line_line_symmetric.
Print Assumptions C02_seg_meet_is_common_point.
Print Assumptions C02_point_poly.
