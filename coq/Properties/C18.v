(* Property C18 — derived ring attributes (convex, clockwise, segment count) are exact.
   Only statements, each closed by the lemma that proves it. *)
From GJ Require Import Base Kernel Series SeriesSpec SeriesProofs.

(* convexity flag = no two turns of opposite orientation along the cyclic vertex sequence *)
Theorem C18_convex : forall ps, (3 <= length ps)%nat ->
  series_convex {| closed := true; pts := ps |} = true <-> convex_spec (ring_vertices ps).
Proof. intros ps H. rewrite (series_convex_spec ps H). apply convex_specb_iff. Qed.

(* clockwise flag = negative signed (shoelace) area *)
Theorem C18_clockwise : forall ps, (3 <= length ps)%nat ->
  series_clockwise {| closed := true; pts := ps |} = (shoelace2 (ring_vertices ps) <? 0).
Proof. exact series_clockwise_spec. Qed.

(* neither depends on the starting vertex ... *)
Theorem C18_convex_rotation : forall k vs, convex_specb (rot k vs) = convex_specb vs.
Proof. exact convex_rot. Qed.
Theorem C18_clockwise_rotation : forall k vs, clockwise_specb (rot k vs) = clockwise_specb vs.
Proof. exact clockwise_rot. Qed.

(* ... nor on whether the closing vertex is repeated *)
Theorem C18_closing_vertex : forall vs, vs <> [] -> pt_eqb (last vs pt0) (hd pt0 vs) = false ->
  ring_vertices (vs ++ [hd pt0 vs]) = vs /\ ring_vertices vs = vs.
Proof. exact ring_vertices_closing. Qed.

(* segment count and i-th segment *)
Theorem C18_segments : forall s, segments s = segments_spec s.
Proof. exact segments_eq_spec. Qed.
Theorem C18_open_count : forall ps, length (segments_spec {| closed := false; pts := ps |}) = (length ps - 1)%nat.
Proof. exact open_series_segments. Qed.
Theorem C18_closed_count : forall ps, (3 <= length ps)%nat ->
  length (segments_spec {| closed := true; pts := ps |}) =
  if pt_eqb (last ps pt0) (hd pt0 ps) then (length ps - 1)%nat else length ps.
Proof. exact closed_series_segments. Qed.
Theorem C18_segment_at_in_range : forall s i, (i < num_segments s)%nat -> (i < npoints s)%nat.
Proof. exact segment_at_in_range. Qed.

(* the pinned (pre-repair) code violated the convexity clause: finding F3, fixed in /repo *)
Theorem C18_pinned_refuted : exists ps, (3 <= length ps)%nat /\
  fst (fst (process_points_pinned ps true)) = true /\ convex_specb (ring_vertices ps) = false.
Proof. exact convex_seam_pinned_refuted. Qed.

Print Assumptions C18_convex.
Print Assumptions C18_clockwise.
Print Assumptions C18_convex_rotation.
Print Assumptions C18_clockwise_rotation.
Print Assumptions C18_closing_vertex.
Print Assumptions C18_segments.
Print Assumptions C18_open_count.
Print Assumptions C18_closed_count.
Print Assumptions C18_segment_at_in_range.
Print Assumptions C18_pinned_refuted.
