(* Property C15 — great-circle primitives are mutually consistent.  PARTIAL: the
   statements below are proved of the real-valued formulas of geo/geo.go
   (coq/Sphere.v); Go's float64 rounding is bounded per sampled input by certified
   interval enclosures on every run.  The destination clauses (distance back,
   bearing back) are proved over the reals too (SphereDest.v), the code's two
   Atan2 calls entering through their defining property; in float64 they, the
   semicircle encoding and monotonicity are checked as flags over generated
   inputs. *)
From Coq Require Import Reals ZArith Lra.
From GJ Require Import Sphere SphereRect SphereDest SphereTriangle SphereSemi.
Open Scope R_scope.

Theorem C15_distance_symmetric : forall a b c d, distance_to a b c d = distance_to c d a b.
Proof. exact distance_sym. Qed.
Theorem C15_distance_zero : forall a b, distance_to a b a b = 0.
Proof. exact distance_refl. Qed.
Theorem C15_distance_range : forall a b c d, lat_ok a -> lat_ok c -> 0 <= distance_to a b c d <= piR.
Proof. exact distance_range. Qed.
Theorem C15_haversine_range : forall a b c d, lat_ok a -> lat_ok c -> 0 <= hav a b c d /\ hav a b c d <= 1.
Proof. intros. split; [apply hav_nonneg|apply hav_le_1]; assumption. Qed.
Theorem C15_haversine_strictly_increasing : forall m1 m2,
  0 <= m1 -> m1 < m2 -> m2 <= piR -> dist_to_hav m1 < dist_to_hav m2.
Proof. exact dist_to_hav_increasing. Qed.
Theorem C15_metres_haversine_metres : forall m, 0 <= m <= piR -> dist_from_hav (dist_to_hav m) = m.
Proof. exact dist_hav_inverse. Qed.
Theorem C15_haversine_metres_haversine : forall h, 0 <= h <= 1 -> dist_to_hav (dist_from_hav h) = h.
Proof. exact hav_dist_inverse. Qed.
Theorem C15_normalize_keeps_haversine : forall m k, dist_to_hav (normalize m k) = dist_to_hav m.
Proof. exact normalize_keeps_hav. Qed.
Theorem C15_normalize_idempotent : forall m k, normalize (normalize m k) 0 = normalize m k.
Proof. exact normalize_idempotent. Qed.

(* whatever value the float haversine rounds to (even above 1: antipodal pairs, repaired by a5ec9f5),
   the metres DistanceFromHaversine returns never exceed half the circumference *)
Theorem C15_metres_never_exceed_half_circumference : forall h, dist_from_hav h <= piR.
Proof. exact dist_from_hav_le_piR. Qed.

(* the great-circle distance is a metric on the sphere: triangle inequality (with symmetry, zero on the
   diagonal and the range, proved above) *)
Theorem C15_distance_triangle : forall latA lonA latB lonB latC lonC, lat_ok latA -> lat_ok latB -> lat_ok latC ->
  distance_to latA lonA latC lonC <= distance_to latA lonA latB lonB + distance_to latB lonB latC lonC.
Proof. exact distance_triangle. Qed.

(* semicircle encoding: the round trip moves a coordinate by less than 180/2^31 degrees, under a centimetre of arc *)
Theorem C15_semicircle_roundtrip : forall x, Rabs (semi_to_degs (degs_to_semi x) - x) < 180 / 2 ^ 31.
Proof. exact semi_roundtrip. Qed.
Theorem C15_semicircle_roundtrip_on_the_ground : rad (180 / 2 ^ 31) * Rearth < 1 / 100.
Proof. exact semi_roundtrip_ground. Qed.

(* travelling d along bearing th from A: the haversine of (A, destination) is the haversine of d, the distance back
   is d, and the arguments of the initial-bearing atan2 are (sin th, cos th) * sin (d/R), i.e. the bearing back is th.
   The code's Atan2 calls enter through their defining property (hypotheses lat_sin .. lon_sin of SphereDest.v) *)
Theorem C15_destination_distance_back : forall latA lonA latB lonB d th,
  let del := d / Rearth in let p1 := rad latA in
  let s := sin p1 * cos del + cos p1 * sin del * cos (rad th) in
  let X := cos del - sin p1 * s in let Y := sin (rad th) * sin del * cos p1 in
  sin (rad latB) = s -> 0 <= cos (rad latB) ->
  cos (rad lonB - rad lonA) * sqrt (X * X + Y * Y) = X ->
  0 < cos p1 -> 0 <= d <= piR ->
  distance_to latA lonA latB lonB = d.
Proof. exact destination_distance_back. Qed.

Theorem C15_destination_bearing_back : forall latA lonA latB lonB d th,
  let del := d / Rearth in let p1 := rad latA in
  let s := sin p1 * cos del + cos p1 * sin del * cos (rad th) in
  let X := cos del - sin p1 * s in let Y := sin (rad th) * sin del * cos p1 in
  sin (rad latB) = s -> 0 <= cos (rad latB) ->
  cos (rad lonB - rad lonA) * sqrt (X * X + Y * Y) = X ->
  sin (rad lonB - rad lonA) * sqrt (X * X + Y * Y) = Y ->
  0 < cos p1 ->
  sin (rad lonB - rad lonA) * cos (rad latB) = sin (rad th) * sin del /\
  cos p1 * sin (rad latB) - sin p1 * cos (rad latB) * cos (rad lonB - rad lonA) = cos (rad th) * sin del.
Proof. exact destination_bearing_back. Qed.

(* non-vacuity: from (0,0) eastwards by 10 degrees of arc; all hypotheses hold and the conclusion is used *)
Example C15_destination_example : distance_to 0 0 0 10 = Rearth * rad 10.
Proof.
  assert (Hd : Rearth * rad 10 / Rearth = rad 10) by (unfold Rearth; field).
  assert (H90 : rad 90 = PI / 2) by (unfold rad; field).
  assert (H0 : rad 0 = 0) by (unfold rad; ring).
  pose proof PI_RGT_0 as Hpi. pose proof PI_4 as Hpi4.
  assert (Hr : 0 < rad 10 < PI / 2) by (unfold rad; lra).
  apply (destination_distance_back 0 0 0 10 (Rearth * rad 10) 90); rewrite ?Hd, ?H90, ?H0, ?sin_0, ?cos_0, ?cos_PI2, ?sin_PI2.
  - ring.
  - lra.
  - rewrite Rminus_0_r.
    replace ((cos (rad 10) - 0 * (0 * cos (rad 10) + 1 * sin (rad 10) * 0)) * (cos (rad 10) - 0 * (0 * cos (rad 10) + 1 * sin (rad 10) * 0)) + 1 * sin (rad 10) * 1 * (1 * sin (rad 10) * 1))
      with (sin (rad 10) * sin (rad 10) + cos (rad 10) * cos (rad 10)) by ring.
    rewrite sqr_sin_cos, sqrt_1. ring.
  - lra.
  - unfold piR. split; [unfold Rearth; nra|]. unfold Rearth, rad. nra.
Qed.

Print Assumptions C15_distance_range.
Print Assumptions C15_destination_distance_back.
Print Assumptions C15_metres_haversine_metres.
Print Assumptions C15_normalize_keeps_haversine.
