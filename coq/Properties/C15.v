(* Property C15 — great-circle primitives are mutually consistent.  PARTIAL: the
   statements below are proved of the real-valued formulas of geo/geo.go
   (coq/Sphere.v); Go's float64 rounding is bounded per sampled input by certified
   interval enclosures on every run, and the destination clauses (distance back,
   bearing back), semicircle encoding and monotonicity in float64 are checked as
   flags over generated inputs. *)
From Coq Require Import Reals ZArith.
From GJ Require Import Sphere.
Open Scope R_scope.

Theorem C15_distance_symmetric : forall a b c d, distance_to a b c d = distance_to c d a b.
Proof. exact distance_sym. Qed.
Theorem C15_distance_zero : forall a b, distance_to a b a b = 0.
Proof. exact distance_refl. Qed.
Theorem C15_distance_range : forall a b c d, lat_ok a -> lat_ok c -> 0 <= distance_to a b c d <= piR.
Proof. exact distance_range. Qed.
Theorem C15_haversine_range : forall a b c d, lat_ok a -> lat_ok c -> 0 <= hav a b c d /\ hav a b c d <= 1.
Proof. intros. split; [apply hav_nonneg|apply hav_le_1]; assumption. Qed.
Theorem C15_haversine_strictly_increasing : forall m1 m2,
  0 <= m1 -> m1 < m2 -> m2 <= piR -> dist_to_hav m1 < dist_to_hav m2.
Proof. exact dist_to_hav_increasing. Qed.
Theorem C15_metres_haversine_metres : forall m, 0 <= m <= piR -> dist_from_hav (dist_to_hav m) = m.
Proof. exact dist_hav_inverse. Qed.
Theorem C15_haversine_metres_haversine : forall h, 0 <= h <= 1 -> dist_to_hav (dist_from_hav h) = h.
Proof. exact hav_dist_inverse. Qed.
Theorem C15_normalize_keeps_haversine : forall m k, dist_to_hav (normalize m k) = dist_to_hav m.
Proof. exact normalize_keeps_hav. Qed.
Theorem C15_normalize_idempotent : forall m k, normalize (normalize m k) 0 = normalize m k.
Proof. exact normalize_idempotent. Qed.

(* whatever value the float haversine rounds to (even above 1: antipodal pairs, repaired by a5ec9f5),
   the metres DistanceFromHaversine returns never exceed half the circumference *)
Theorem C15_metres_never_exceed_half_circumference : forall h, dist_from_hav h <= piR.
Proof. exact dist_from_hav_le_piR. Qed.

Print Assumptions C15_distance_range.
Print Assumptions C15_metres_haversine_metres.
Print Assumptions C15_normalize_keeps_haversine.
