(* Property C11 — bounding rectangle, centre, validity and emptiness are exact
   functions of the coordinates.  Only statements. *)
From GJ Require Import Base Kernel Series SeriesSpec SeriesProofs Obj ObjSpec ObjProofs PairProofs.
Open Scope Z_scope.

(* the rectangle pass of processPoints is the tight box: every point inside, every side attained *)
Theorem C11_series_rect_tight : forall ps, points_rect ps = bbox_spec ps.
Proof. exact points_rect_tight. Qed.
Theorem C11_box_contains_all : forall ps p, In p ps ->
  let r := bbox_spec ps in px (fst r) <= px p <= px (snd r) /\ py (fst r) <= py p <= py (snd r).
Proof. exact bbox_spec_tight. Qed.
Theorem C11_box_attained : forall ps, ps <> [] ->
  let r := bbox_spec ps in
  exists p1 p2 p3 p4, In p1 ps /\ In p2 ps /\ In p3 ps /\ In p4 ps /\
    px p1 = px (fst r) /\ py p2 = py (fst r) /\ px p3 = px (snd r) /\ py p4 = py (snd r).
Proof. exact bbox_spec_attained. Qed.

(* every object of the eleven modelled kinds, any nesting *)
Theorem C11_rect : forall o, obj_wf o -> o_empty o = false -> o_rect o = bbox_spec (positions o).
Proof. exact o_rect_spec. Qed.
Theorem C11_center : forall o, obj_wf o -> o_empty o = false -> o_center2 o = spec_center2 o.
Proof. exact o_center_spec. Qed.
Theorem C11_valid : forall l180 l90 o, o_valid l180 l90 o = spec_valid l180 l90 o.
Proof. exact o_valid_spec. Qed.
Theorem C11_empty : forall o, o_empty o = spec_empty o.
Proof. exact o_empty_spec. Qed.
Theorem C11_npoints : forall o, o_npoints o = spec_npoints o.
Proof. exact o_npoints_spec. Qed.

(* the union of two tight boxes is the tight box of all the positions (unionRects) *)
Theorem C11_union : forall l1 l2, l1 <> [] -> l2 <> [] ->
  union_rects (bbox_spec l1) (bbox_spec l2) = bbox_spec (l1 ++ l2).
Proof. exact union_bbox. Qed.

(* non-vacuity: a nested collection with an empty child meets the hypotheses *)
Example C11_example :
  let o := OColl 3 [OLine [(5, 1)]; OFeature (OPoint (2, 7)); OColl 0 [OPoint (-3, 4); OPoint (0, 0)]] in
  obj_wf o /\ o_empty o = false /\ o_rect o = ((-3, 0), (2, 7)) /\ o_center2 o = (-1, 7).
Proof. cbn. repeat split; reflexivity. Qed.

Print Assumptions C11_rect.
Print Assumptions C11_center.
Print Assumptions C11_valid.
Print Assumptions C11_empty.
Print Assumptions C11_series_rect_tight.
