(* Property C12 — answers are invariant under symmetries and re-encodings.
   Translation and positive scaling: proved for every pair predicate of the model
   (AffinePairs.v), i.e. - the model being the code on every case of the
   correspondence, known findings included - the translation / power-of-two
   clause of C12 for the code as it is.  Re-encodings: kernel-checked for the
   ring attributes, the segment kernels and candidate order.  PARTIAL: reflection
   and re-encoding invariance of ring-level contains / intersects are checked
   metamorphically on every run (they fail exactly on the known C03/C12
   findings). *)
From Coq Require Import Sorting.Permutation.
From GJ Require Import Base Kernel KernelSpec KernelProofs IntersectsProofs Series SeriesSpec SeriesProofs
  Ring RingSpec PipProofs PairSpec Pairs Invariance AffinePairs.
Open Scope Z_scope.

(* translation by (dx,dy) and scaling by k > 0 (k = 2^j in the property) *)
Theorem C12_raycast_affine : forall k dx dy, 0 < k -> forall s p,
  raycast (affs k dx dy s) (aff k dx dy p) = raycast s p.
Proof. exact raycast_aff. Qed.
Theorem C12_intersects_segment_affine : forall k dx dy, 0 < k -> forall s o,
  intersects_segment (affs k dx dy s) (affs k dx dy o) = intersects_segment s o.
Proof. exact intersects_segment_aff. Qed.
Theorem C12_collinear_affine : forall k dx dy, 0 < k -> forall s p,
  collinear_point (affs k dx dy s) (aff k dx dy p) = collinear_point s p.
Proof. exact collinear_point_aff. Qed.
Theorem C12_ring_membership_affine : forall k dx dy, 0 < k -> forall ps p allow,
  rcp_hit (RS {| closed := true; pts := map (aff k dx dy) ps |}) (aff k dx dy p) allow
  = rcp_hit (RS {| closed := true; pts := ps |}) p allow.
Proof. exact ring_contains_point_aff. Qed.
Theorem C12_polygon_membership_affine : forall k dx dy, 0 < k -> forall e hs p,
  poly_contains_point {| exterior := RS {| closed := true; pts := map (aff k dx dy) e |};
                         holes := map (fun h => RS {| closed := true; pts := h |}) (map (map (aff k dx dy)) hs) |} (aff k dx dy p)
  = poly_contains_point {| exterior := RS {| closed := true; pts := e |};
                           holes := map (fun h => RS {| closed := true; pts := h |}) hs |} p.
Proof. exact poly_contains_point_aff. Qed.
Theorem C12_line_membership_affine : forall k dx dy, 0 < k -> forall ps p,
  line_contains_point {| closed := false; pts := map (aff k dx dy) ps |} (aff k dx dy p)
  = line_contains_point {| closed := false; pts := ps |} p.
Proof. exact line_contains_point_aff. Qed.
Theorem C12_rect_membership_affine : forall k dx dy, 0 < k -> forall (r : rect) p,
  rect_contains_point (aff k dx dy (fst r), aff k dx dy (snd r)) (aff k dx dy p) = rect_contains_point r p.
Proof. exact rect_contains_point_aff. Qed.

(* MAIN (translation / scaling clause): every contains / intersects answer of the model - all sixteen receiver x
   argument pairs, every decision site of ringContainsSegment, the Line.ContainsLine walk - is unchanged when both
   non-empty geometries are mapped by p |-> (k x + dx, k y + dy), k > 0 (Move: k = 1) *)
Theorem C12_pair_predicates_translation_scaling : forall k dx dy, 0 < k -> forall a b,
  shape_ok a -> shape_ok b ->
  g_intersects (g_of_shape (shape_aff k dx dy a)) (g_of_shape (shape_aff k dx dy b)) = g_intersects (g_of_shape a) (g_of_shape b) /\
  g_contains (g_of_shape (shape_aff k dx dy a)) (g_of_shape (shape_aff k dx dy b)) = g_contains (g_of_shape a) (g_of_shape b).
Proof. exact pair_predicates_affine. Qed.

(* re-encodings: endpoint order of a segment, candidate order, start vertex, closing vertex *)
Theorem C12_raycast_endpoint_order : forall a b p, raycast (a, b) p = raycast (b, a) p.
Proof. exact raycast_sym. Qed.
Theorem C12_intersects_operand_order : forall s o, intersects_segment s o = intersects_segment o s.
Proof. exact intersects_segment_sym. Qed.
Theorem C12_membership_candidate_order : forall allow p l l' inn,
  Permutation l l' -> fst (pip_fold allow p l inn) = fst (pip_fold allow p l' inn).
Proof. exact pip_fold_perm. Qed.
Theorem C12_convex_start_vertex : forall k vs, convex_specb (rot k vs) = convex_specb vs.
Proof. exact convex_rot. Qed.
Theorem C12_clockwise_start_vertex : forall k vs, clockwise_specb (rot k vs) = clockwise_specb vs.
Proof. exact clockwise_rot. Qed.
Theorem C12_closing_vertex : forall vs, vs <> [] -> pt_eqb (last vs pt0) (hd pt0 vs) = false ->
  ring_vertices (vs ++ [hd pt0 vs]) = vs /\ ring_vertices vs = vs.
Proof. exact ring_vertices_closing. Qed.

Print Assumptions C12_raycast_affine.
Print Assumptions C12_pair_predicates_translation_scaling.
Print Assumptions C12_intersects_segment_affine.
Print Assumptions C12_polygon_membership_affine.
Print Assumptions C12_membership_candidate_order.
Print Assumptions C12_convex_start_vertex.
