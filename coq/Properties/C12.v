(* Property C12 — answers are invariant under symmetries and re-encodings.
   Translation and positive scaling: proved for every pair predicate of the model
   (AffinePairs.v), i.e. - the model being the code on every case of the
   correspondence, known findings included - the translation / power-of-two
   clause of C12 for the code as it is.  Re-encodings: kernel-checked for the
   ring attributes, the segment kernels and candidate order.  Reflections and
   transposition (the eight symmetries of the square): proved for point membership
   in rings and polygons with holes, and for the Intersects answers of ring x
   segment / line / ring, through the general crossing-parity theorem
   (Crossing.v: the parity does not depend on the direction of the ray) and the
   point-set theorems.  PARTIAL: reflection and re-encoding invariance of
   ring-level contains, and of intersects with holes, are checked metamorphically
   on every run (they fail exactly on the known C03/C12 findings). *)
From Coq Require Import Sorting.Permutation.
From GJ Require Import Base Kernel KernelSpec KernelProofs IntersectsProofs Series SeriesSpec SeriesProofs
  Ring RingSpec PipProofs PairProofs PairSpec Pairs Invariance AffinePairs Jordan Crossing Mirror MirrorY Symmetry LineSound LineComplete SymmetryLine StartVertex SymmetrySeg.
Open Scope Z_scope.

(* translation by (dx,dy) and scaling by k > 0 (k = 2^j in the property) *)
Theorem C12_raycast_affine : forall k dx dy, 0 < k -> forall s p,
  raycast (affs k dx dy s) (aff k dx dy p) = raycast s p.
Proof. exact raycast_aff. Qed.
Theorem C12_intersects_segment_affine : forall k dx dy, 0 < k -> forall s o,
  intersects_segment (affs k dx dy s) (affs k dx dy o) = intersects_segment s o.
Proof. exact intersects_segment_aff. Qed.
Theorem C12_collinear_affine : forall k dx dy, 0 < k -> forall s p,
  collinear_point (affs k dx dy s) (aff k dx dy p) = collinear_point s p.
Proof. exact collinear_point_aff. Qed.
Theorem C12_ring_membership_affine : forall k dx dy, 0 < k -> forall ps p allow,
  rcp_hit (RS {| closed := true; pts := map (aff k dx dy) ps |}) (aff k dx dy p) allow
  = rcp_hit (RS {| closed := true; pts := ps |}) p allow.
Proof. exact ring_contains_point_aff. Qed.
Theorem C12_polygon_membership_affine : forall k dx dy, 0 < k -> forall e hs p,
  poly_contains_point {| exterior := RS {| closed := true; pts := map (aff k dx dy) e |};
                         holes := map (fun h => RS {| closed := true; pts := h |}) (map (map (aff k dx dy)) hs) |} (aff k dx dy p)
  = poly_contains_point {| exterior := RS {| closed := true; pts := e |};
                           holes := map (fun h => RS {| closed := true; pts := h |}) hs |} p.
Proof. exact poly_contains_point_aff. Qed.
Theorem C12_line_membership_affine : forall k dx dy, 0 < k -> forall ps p,
  line_contains_point {| closed := false; pts := map (aff k dx dy) ps |} (aff k dx dy p)
  = line_contains_point {| closed := false; pts := ps |} p.
Proof. exact line_contains_point_aff. Qed.
Theorem C12_rect_membership_affine : forall k dx dy, 0 < k -> forall (r : rect) p,
  rect_contains_point (aff k dx dy (fst r), aff k dx dy (snd r)) (aff k dx dy p) = rect_contains_point r p.
Proof. exact rect_contains_point_aff. Qed.

(* MAIN (translation / scaling clause): every contains / intersects answer of the model - all sixteen receiver x
   argument pairs, every decision site of ringContainsSegment, the Line.ContainsLine walk - is unchanged when both
   non-empty geometries are mapped by p |-> (k x + dx, k y + dy), k > 0 (Move: k = 1) *)
Theorem C12_pair_predicates_translation_scaling : forall k dx dy, 0 < k -> forall a b,
  shape_ok a -> shape_ok b ->
  g_intersects (g_of_shape (shape_aff k dx dy a)) (g_of_shape (shape_aff k dx dy b)) = g_intersects (g_of_shape a) (g_of_shape b) /\
  g_contains (g_of_shape (shape_aff k dx dy a)) (g_of_shape (shape_aff k dx dy b)) = g_contains (g_of_shape a) (g_of_shape b).
Proof. exact pair_predicates_affine. Qed.

(* re-encodings: endpoint order of a segment, candidate order, start vertex, closing vertex *)
Theorem C12_raycast_endpoint_order : forall a b p, raycast (a, b) p = raycast (b, a) p.
Proof. exact raycast_sym. Qed.
Theorem C12_intersects_operand_order : forall s o, intersects_segment s o = intersects_segment o s.
Proof. exact intersects_segment_sym. Qed.
Theorem C12_membership_candidate_order : forall allow p l l' inn,
  Permutation l l' -> fst (pip_fold allow p l inn) = fst (pip_fold allow p l' inn).
Proof. exact pip_fold_perm. Qed.
Theorem C12_convex_start_vertex : forall k vs, convex_specb (rot k vs) = convex_specb vs.
Proof. exact convex_rot. Qed.
Theorem C12_clockwise_start_vertex : forall k vs, clockwise_specb (rot k vs) = clockwise_specb vs.
Proof. exact clockwise_rot. Qed.
Theorem C12_closing_vertex : forall vs, vs <> [] -> pt_eqb (last vs pt0) (hd pt0 vs) = false ->
  ring_vertices (vs ++ [hd pt0 vs]) = vs /\ ring_vertices vs = vs.
Proof. exact ring_vertices_closing. Qed.

(* ---- reflections and transposition ---- *)

(* the parity of the ray to the right at the two ends of a non-horizontal segment differs by the
   parity of the edges crossing the segment (half-open rule along it): the count does not depend
   on the direction of the ray *)
Theorem C12_crossing_parity : forall ps L H, py L < py H ->
  on_boundaryb (ring_edges ps) L = false -> on_boundaryb (ring_edges ps) H = false ->
  xorb (parityb (ring_edges ps) L) (parityb (ring_edges ps) H) = xfold (Xc L H) (ring_edges ps).
Proof. exact crossing_parity. Qed.

(* point membership, any closed vertex sequence / polygon with holes *)
Theorem C12_ring_membership_mirror_x : forall ps p allow,
  rcp_hit (RS {| closed := true; pts := map mir ps |}) (mir p) allow = rcp_hit (RS {| closed := true; pts := ps |}) p allow.
Proof. exact ring_contains_point_mir. Qed.
Theorem C12_ring_membership_mirror_y : forall ps p,
  in_ringb (ring_edges (map my ps)) (my p) = in_ringb (ring_edges ps) p.
Proof. exact in_ringb_my. Qed.
Theorem C12_ring_membership_transpose : forall ps p,
  in_ringb (ring_edges (map tr ps)) (tr p) = in_ringb (ring_edges ps) p.
Proof. exact in_ringb_tr. Qed.
Theorem C12_polygon_membership_mirror_x : forall e hs p,
  poly_contains_point (Pg (map mir e) (map (map mir) hs)) (mir p) = poly_contains_point (Pg e hs) p.
Proof. exact poly_contains_point_mir. Qed.
Theorem C12_polygon_membership_mirror_y : forall e hs p,
  poly_contains_point (Pg (map my e) (map (map my) hs)) (my p) = poly_contains_point (Pg e hs) p.
Proof. exact poly_contains_point_my. Qed.
Theorem C12_polygon_membership_transpose : forall e hs p,
  poly_contains_point (Pg (map tr e) (map (map tr) hs)) (tr p) = poly_contains_point (Pg e hs) p.
Proof. exact poly_contains_point_tr. Qed.

(* Intersects of ring x segment, ring x line string, ring x ring (polygons without holes) *)
Theorem C12_ring_segment_intersects_mirror_x : forall ps A B,
  ring_intersects_segment (RS {| closed := true; pts := map mir ps |}) (mir A, mir B) true =
  ring_intersects_segment (RS {| closed := true; pts := ps |}) (A, B) true.
Proof. exact ring_intersects_segment_mir. Qed.
Theorem C12_ring_line_intersects_mirror_x : forall ps qs,
  ring_intersects_line (RS {| closed := true; pts := map mir ps |}) (RS {| closed := false; pts := map mir qs |}) true =
  ring_intersects_line (RS {| closed := true; pts := ps |}) (RS {| closed := false; pts := qs |}) true.
Proof. exact ring_intersects_line_mir. Qed.
Theorem C12_ring_ring_intersects_mirror_x : forall ps qs,
  ring_intersects_ring (RS {| closed := true; pts := map mir ps |}) (RS {| closed := true; pts := map mir qs |}) true =
  ring_intersects_ring (RS {| closed := true; pts := ps |}) (RS {| closed := true; pts := qs |}) true.
Proof. exact ring_intersects_ring_mir. Qed.
Theorem C12_ring_ring_intersects_mirror_y : forall ps qs,
  ring_intersects_ring (RS {| closed := true; pts := map my ps |}) (RS {| closed := true; pts := map my qs |}) true =
  ring_intersects_ring (RS {| closed := true; pts := ps |}) (RS {| closed := true; pts := qs |}) true.
Proof. exact ring_intersects_ring_my. Qed.
Theorem C12_ring_ring_intersects_transpose : forall ps qs,
  ring_intersects_ring (RS {| closed := true; pts := map tr ps |}) (RS {| closed := true; pts := map tr qs |}) true =
  ring_intersects_ring (RS {| closed := true; pts := ps |}) (RS {| closed := true; pts := qs |}) true.
Proof. exact ring_intersects_ring_tr. Qed.
Theorem C12_ring_line_intersects_mirror_y : forall ps qs,
  ring_intersects_line (RS {| closed := true; pts := map my ps |}) (RS {| closed := false; pts := map my qs |}) true =
  ring_intersects_line (RS {| closed := true; pts := ps |}) (RS {| closed := false; pts := qs |}) true.
Proof. exact ring_intersects_line_my. Qed.
Theorem C12_ring_line_intersects_transpose : forall ps qs,
  ring_intersects_line (RS {| closed := true; pts := map tr ps |}) (RS {| closed := false; pts := map tr qs |}) true =
  ring_intersects_line (RS {| closed := true; pts := ps |}) (RS {| closed := false; pts := qs |}) true.
Proof. exact ring_intersects_line_tr. Qed.
Theorem C12_polygons_without_holes_mirror_y : forall e1 e2,
  poly_intersects_poly (Pg (map my e1) []) (Pg (map my e2) []) = poly_intersects_poly (Pg e1 []) (Pg e2 []).
Proof. exact poly_intersects_poly_noholes_my. Qed.
Theorem C12_polygons_without_holes_transpose : forall e1 e2,
  poly_intersects_poly (Pg (map tr e1) []) (Pg (map tr e2) []) = poly_intersects_poly (Pg e1 []) (Pg e2 []).
Proof. exact poly_intersects_poly_noholes_tr. Qed.

(* non-vacuity: an L-shaped ring, a point inside its notch region and one inside it, under the three maps *)
Example C12_reflection_examples :
  let ps := [(0,0); (6,0); (6,2); (2,2); (2,6); (0,6); (0,0)] in
  in_ringb (ring_edges ps) (1, 5) = true /\ in_ringb (ring_edges ps) (4, 4) = false /\
  in_ringb (ring_edges (map my ps)) (my (1, 5)) = true /\ in_ringb (ring_edges (map tr ps)) (tr (4, 4)) = false /\
  in_ringb (ring_edges (map mir ps)) (mir (1, 5)) = true.
Proof. vm_compute. repeat split. Qed.

(* Line.ContainsLine under the reflections and the transposition (hence all eight symmetries of the square) *)
Theorem C12_line_contains_line_mirror_x : forall ps qs,
  line_contains_line (Lr (map mir ps)) (Lr (map mir qs)) = line_contains_line (Lr ps) (Lr qs).
Proof. exact line_contains_line_mx. Qed.
Theorem C12_line_contains_line_mirror_y : forall ps qs,
  line_contains_line (Lr (map my ps)) (Lr (map my qs)) = line_contains_line (Lr ps) (Lr qs).
Proof. exact line_contains_line_my. Qed.
Theorem C12_line_contains_line_transpose : forall ps qs,
  line_contains_line (Lr (map tr ps)) (Lr (map tr qs)) = line_contains_line (Lr ps) (Lr qs).
Proof. exact line_contains_line_tr. Qed.

(* the vertex a ring starts at and its winding direction do not matter (vertex list given without the
   repeated closing point, all vertices distinct): point membership in rings and in polygons with
   holes, and the Intersects answers of ring x segment / line string / ring *)
Theorem C12_ring_membership_start_vertex : forall k vs p, NoDup vs -> (3 <= length vs)%nat ->
  in_ringb (ring_edges (rot k vs)) p = in_ringb (ring_edges vs) p.
Proof. exact in_ringb_start_vertex. Qed.
Theorem C12_ring_membership_winding : forall vs p, NoDup vs -> (3 <= length vs)%nat ->
  in_ringb (ring_edges (rev vs)) p = in_ringb (ring_edges vs) p.
Proof. exact in_ringb_winding. Qed.
Theorem C12_polygon_membership_start_vertex : forall k e hs p,
  NoDup e -> (3 <= length e)%nat -> (forall h, In h hs -> NoDup h /\ (3 <= length h)%nat) ->
  poly_contains_point (Pg (rot k e) (map (rot k) hs)) p = poly_contains_point (Pg e hs) p.
Proof. exact poly_contains_point_start_vertex. Qed.
Theorem C12_polygon_membership_winding : forall e hs p,
  NoDup e -> (3 <= length e)%nat -> (forall h, In h hs -> NoDup h /\ (3 <= length h)%nat) ->
  poly_contains_point (Pg (rev e) (map (@rev pt) hs)) p = poly_contains_point (Pg e hs) p.
Proof. exact poly_contains_point_winding. Qed.
Theorem C12_ring_ring_intersects_start_vertex : forall k ps qs, NoDup ps -> NoDup qs ->
  ring_intersects_ring (RS {| closed := true; pts := rot k ps |}) (RS {| closed := true; pts := rot k qs |}) true =
  ring_intersects_ring (RS {| closed := true; pts := ps |}) (RS {| closed := true; pts := qs |}) true.
Proof. exact ring_intersects_ring_start_vertex. Qed.
Theorem C12_ring_ring_intersects_winding : forall ps qs, NoDup ps -> NoDup qs ->
  ring_intersects_ring (RS {| closed := true; pts := rev ps |}) (RS {| closed := true; pts := rev qs |}) true =
  ring_intersects_ring (RS {| closed := true; pts := ps |}) (RS {| closed := true; pts := qs |}) true.
Proof. exact ring_intersects_ring_winding. Qed.
Theorem C12_ring_line_intersects_start_vertex : forall k ps qs, NoDup ps -> (3 <= length ps)%nat ->
  ring_intersects_line (RS {| closed := true; pts := rot k ps |}) (RS {| closed := false; pts := qs |}) true =
  ring_intersects_line (RS {| closed := true; pts := ps |}) (RS {| closed := false; pts := qs |}) true.
Proof. exact ring_intersects_line_start_vertex. Qed.
Theorem C12_ring_line_intersects_winding : forall ps qs, NoDup ps -> (3 <= length ps)%nat ->
  ring_intersects_line (RS {| closed := true; pts := rev ps |}) (RS {| closed := false; pts := qs |}) true =
  ring_intersects_line (RS {| closed := true; pts := ps |}) (RS {| closed := false; pts := qs |}) true.
Proof. exact ring_intersects_line_winding. Qed.
Example C12_reorder_hypotheses_hold_somewhere :
  let vs := [(0,0);(8,0);(8,8);(4,4);(0,8)] in
  NoDup vs /\ rot 2 vs = [(8,8);(4,4);(0,8);(0,0);(8,0)] /\
  in_ringb (ring_edges (rot 2 vs)) (4,5) = false /\ in_ringb (ring_edges (rev vs)) (2,5) = true.
Proof. exact reorder_example. Qed.

(* segment x segment, line string x line string and line membership under the reflections and the transposition *)
Theorem C12_segment_intersects_mirror_x : forall s o, intersects_segment (mirs s) (mirs o) = intersects_segment s o.
Proof. exact intersects_segment_mx. Qed.
Theorem C12_segment_intersects_mirror_y : forall s o, intersects_segment (mys s) (mys o) = intersects_segment s o.
Proof. exact intersects_segment_my. Qed.
Theorem C12_segment_intersects_transpose : forall s o, intersects_segment (trs s) (trs o) = intersects_segment s o.
Proof. exact intersects_segment_tr. Qed.
Theorem C12_line_intersects_line_mirror_x : forall ps qs,
  line_intersects_line (Lr (map mir ps)) (Lr (map mir qs)) = line_intersects_line (Lr ps) (Lr qs).
Proof. exact line_intersects_line_mx. Qed.
Theorem C12_line_intersects_line_mirror_y : forall ps qs,
  line_intersects_line (Lr (map my ps)) (Lr (map my qs)) = line_intersects_line (Lr ps) (Lr qs).
Proof. exact line_intersects_line_my. Qed.
Theorem C12_line_intersects_line_transpose : forall ps qs,
  line_intersects_line (Lr (map tr ps)) (Lr (map tr qs)) = line_intersects_line (Lr ps) (Lr qs).
Proof. exact line_intersects_line_tr. Qed.
Theorem C12_line_membership_mirror_x : forall ps p, line_contains_point_r (Lr (map mir ps)) (mir p) = line_contains_point_r (Lr ps) p.
Proof. exact line_contains_point_mx. Qed.
Theorem C12_line_membership_mirror_y : forall ps p, line_contains_point_r (Lr (map my ps)) (my p) = line_contains_point_r (Lr ps) p.
Proof. exact line_contains_point_my. Qed.
Theorem C12_line_membership_transpose : forall ps p, line_contains_point_r (Lr (map tr ps)) (tr p) = line_contains_point_r (Lr ps) p.
Proof. exact line_contains_point_tr. Qed.

Print Assumptions C12_raycast_affine.
Print Assumptions C12_crossing_parity.
Print Assumptions C12_ring_membership_mirror_x.
Print Assumptions C12_ring_membership_mirror_y.
Print Assumptions C12_ring_membership_transpose.
Print Assumptions C12_polygon_membership_transpose.
Print Assumptions C12_ring_ring_intersects_mirror_y.
Print Assumptions C12_ring_ring_intersects_transpose.
Print Assumptions C12_ring_line_intersects_mirror_y.
Print Assumptions C12_pair_predicates_translation_scaling.
Print Assumptions C12_intersects_segment_affine.
Print Assumptions C12_polygon_membership_affine.
Print Assumptions C12_membership_candidate_order.
Print Assumptions C12_convex_start_vertex.
Print Assumptions C12_line_contains_line_mirror_x.
Print Assumptions C12_line_contains_line_transpose.
Print Assumptions C12_polygon_membership_winding.
Print Assumptions C12_ring_ring_intersects_start_vertex.
Print Assumptions C12_line_intersects_line_transpose.
