(* Property C09 — object-level predicates form a consistent algebra across the
   kinds.  PARTIAL: the dispatch algebra and the transparency of wrappers and
   alternative representations are kernel-checked below for the eleven modelled
   kinds (Circle is modelled over the reals, C13); the laws that lean on the
   geometry-level predicates being exact (contains => intersects, self
   containment, rect-as-polygon for polygon pairs) are checked on every run as
   law flags computed from the implementation's own answers. *)
From Coq Require Import Lia.
From GJ Require Import Base Kernel Series Ring PairSpec Pairs PairProofs Obj ObjSpec ObjProofs BoxLaws ContainsBoxes CoversBoxes
  JordanRing JordanRect ObjSym ObjSelf ObjLaws ObjLaws2 ObjLaws3 ObjSelf2 ObjSelf3.
Open Scope Z_scope.

Theorem C09_within_is_contains_swapped : forall a b, o_within a b = o_contains b a.
Proof. exact within_is_contains_swapped. Qed.

(* a Feature answers as its geometry *)
Theorem C09_feature_receiver_contains : forall a b, o_contains (OFeature a) b = o_contains a b.
Proof. exact feature_receiver_contains. Qed.
Theorem C09_feature_receiver_intersects : forall a b, o_intersects (OFeature a) b = o_intersects a b.
Proof. exact feature_receiver_intersects. Qed.
Theorem C09_feature_attributes : forall a,
  o_empty (OFeature a) = o_empty a /\ o_rect (OFeature a) = o_rect a /\ o_npoints (OFeature a) = o_npoints a
  /\ forall l180 l90, o_valid l180 l90 (OFeature a) = o_valid l180 l90 a.
Proof. exact feature_attrs. Qed.
Theorem C09_feature_argument_contains : forall a b,
  ends_in_coll b = false -> o_contains a (OFeature b) = o_contains a b.
Proof. exact feature_argument_contains. Qed.
Theorem C09_feature_argument_intersects : forall a b,
  ends_in_coll b = false -> o_intersects a (OFeature b) = o_intersects a b.
Proof. exact feature_argument_intersects. Qed.

(* a SimplePoint answers as the equivalent Point *)
Theorem C09_simplepoint_receiver : forall p b,
  o_contains (OSimple p) b = o_contains (OPoint p) b /\ o_intersects (OSimple p) b = o_intersects (OPoint p) b.
Proof. exact simplepoint_receiver. Qed.
Theorem C09_simplepoint_argument : forall a p,
  o_contains a (OSimple p) = o_contains a (OPoint p) /\ o_intersects a (OSimple p) = o_intersects a (OPoint p).
Proof. exact simplepoint_argument. Qed.

(* leaf objects answer as the geometry-level predicates on their base geometry *)
Theorem C09_leaf_contains : forall a b ga gb,
  leaf_geom a = Some ga -> leaf_geom b = Some gb -> o_contains a b = gcb ga gb.
Proof. exact leaf_contains. Qed.
Theorem C09_leaf_intersects : forall a b ga gb,
  leaf_geom a = Some ga -> leaf_geom b = Some gb -> o_intersects a b = g_intersects gb ga.
Proof. exact leaf_intersects. Qed.

(* if A intersects B their rectangles intersect: every pair of the eleven kinds, any nesting *)
Theorem C09_intersects_implies_rects_meet : forall a b, obj_wf a -> obj_wf b ->
  o_intersects a b = true -> rect_intersects_rect (o_rect a) (o_rect b) = true.
Proof. exact o_intersects_boxes. Qed.
(* if A contains a non-empty B their rectangles meet (weaker than C09_contains_implies_rect_covers below; kept) *)
Theorem C09_contains_implies_rects_meet_partial : forall a b, obj_wf a -> obj_wf b -> o_empty b = false ->
  o_contains a b = true -> rect_intersects_rect (o_rect a) (o_rect b) = true.
Proof. exact o_contains_boxes. Qed.

(* if A contains a non-empty B then A's rectangle covers B's: all sixteen geometry pairs (the Line.ContainsLine
   walk included), Features, collections, nested *)
Theorem C09_contains_implies_rect_covers : forall a b, obj_wf a -> obj_wf b -> o_empty b = false ->
  o_contains a b = true -> rect_contains_rect (o_rect a) (o_rect b) = true.
Proof. exact o_contains_covers. Qed.

(* A.Intersects(B) = B.Intersects(A) at the Geometry interface, all sixteen kind pairs, any
   shapes; excluded: two polygons that both carry holes (JordanRing.v: ring x ring is exact as
   point sets, hence symmetric; the other pairs delegate to one implementation or are exact) *)
Theorem C09_geometry_intersects_symmetric : forall a b, no_hole_pair a b ->
  g_intersects (g_of_shape a) (g_of_shape b) = g_intersects (g_of_shape b) (g_of_shape a).
Proof. exact g_intersects_sym. Qed.

(* ... and at the object level: any two trees of the eleven modelled kinds (Features, the five
   collections, nested; rectangles well-formed), provided no polygon with holes of A faces a polygon
   with holes of B.  Both answers are "some leaf of B intersects some leaf of A". *)
Theorem C09_intersects_symmetric : forall a b, obj_wf a -> obj_wf b ->
  (forall x y, In x (sleaves a) -> In y (sleaves b) -> no_hole_pair x y) ->
  o_intersects a b = o_intersects b a.
Proof. exact o_intersects_sym. Qed.
Theorem C09_intersects_is_leafwise : forall a b, obj_wf a -> obj_wf b ->
  (o_intersects a b = true <->
   exists x y, In x (sleaves a) /\ In y (sleaves b) /\ g_intersects (g_of_shape y) (g_of_shape x) = true).
Proof. exact o_intersects_flat. Qed.
(* non-vacuity: a GeometryCollection holding a polygon with a hole and a line, against a Feature
   of a collection of a point (inside the hole), a rectangle and a far line *)
Example C09_symmetric_hypotheses_hold_somewhere :
  let a := OColl 3 [OPoly [[(0,0);(8,0);(8,8);(0,8);(0,0)]; [(2,2);(4,2);(4,4);(2,4);(2,2)]]; OLine [(9,9);(12,12)]] in
  let b := OFeature (OColl 3 [OPoint (3,3); ORect ((7,7),(10,10)); OLine [(20,20);(22,20);(22,22)]]) in
  obj_wf a /\ obj_wf b /\
  (forall x y, In x (sleaves a) -> In y (sleaves b) -> no_hole_pair x y) /\
  o_intersects a b = true /\ o_intersects b a = true.
Proof.
  cbv zeta. split; [cbn; tauto|]. split; [cbn; unfold rect_wf; cbn; lia|]. split.
  - cbn [sleaves flat_map app poly_shape]. intros x y [<-|[<-|[]]] [<-|[<-|[<-|[]]]]; cbn; auto.
  - split; vm_compute; reflexivity.
Qed.

(* a non-empty object intersects itself (rectangles well-formed, polygons without holes) *)
Theorem C09_intersects_self : forall a, obj_wf a -> o_empty a = false ->
  (forall x, In x (sleaves a) -> s_wf x) -> o_intersects a a = true.
Proof. exact o_intersects_self. Qed.

(* if A contains a non-empty B then A intersects B — Geometry interface, receivers Point and Rect
   (whose Contains is decided by rectangles), all four argument kinds (polygons without holes) *)
Theorem C09_contains_implies_intersects_partial : forall a b,
  rect_decided a -> s_wf a -> s_wf b -> s_empty b = false ->
  g_contains (g_of_shape a) (g_of_shape b) = Some true ->
  g_intersects (g_of_shape a) (g_of_shape b) = true.
Proof. exact g_contains_intersects. Qed.
Theorem C09_contains_point_implies_intersects : forall a q,
  g_contains (g_of_shape a) (GPoint q) = Some true -> g_intersects (g_of_shape a) (GPoint q) = true.
Proof. exact g_contains_point_intersects. Qed.
(* ... Line receivers (all argument kinds, polygons without holes) and Polygon receivers (holes allowed
   in the receiver; the argument has fewer than 16 points — below the bounding-box shortcut of
   ringContainsRing — and no holes) *)
Theorem C09_line_contains_implies_intersects : forall ps b, s_wf b ->
  g_contains (g_of_shape (SLine ps)) (g_of_shape b) = Some true ->
  g_intersects (g_of_shape (SLine ps)) (g_of_shape b) = true.
Proof. exact g_contains_intersects_line. Qed.
Theorem C09_polygon_contains_implies_intersects : forall e hs b, s_wf b -> short b ->
  g_contains (g_of_shape (SPoly e hs)) (g_of_shape b) = Some true ->
  g_intersects (g_of_shape (SPoly e hs)) (g_of_shape b) = true.
Proof. exact g_contains_intersects_poly. Qed.
(* ... and at the object level, through Features, collections and nesting: A.Contains(B) for a
   non-empty B implies A.Intersects(B) *)
Theorem C09_contains_implies_intersects_objects : forall a b, obj_wf a -> obj_wf b ->
  (forall x, In x (sleaves a) -> recv_ok x) -> (forall y, In y (sleaves b) -> arg_ok y) ->
  (forall x y, In x (sleaves a) -> In y (sleaves b) -> no_hole_pair x y) ->
  o_empty b = false -> o_contains a b = true -> o_intersects a b = true.
Proof. exact o_contains_intersects. Qed.
Example C09_contains_intersects_objects_hypotheses_hold_somewhere :
  obj_wf law_a /\ obj_wf law_b /\ (forall x, In x (sleaves law_a) -> recv_ok x) /\ (forall y, In y (sleaves law_b) -> arg_ok y) /\
  (forall x y, In x (sleaves law_a) -> In y (sleaves law_b) -> no_hole_pair x y) /\
  o_empty law_b = false /\ o_contains law_a law_b = true.
Proof.
  split; [cbn; tauto|]. split; [cbn; unfold rect_wf, px, py; cbn; lia|].
  split; [intros x Hx; cbn in Hx; repeat (destruct Hx as [<-|Hx]; [exact I|]); destruct Hx|].
  split; [intros y Hy; cbn in Hy; repeat (destruct Hy as [<-|Hy]; [split; cbn; try exact I; try reflexivity; try lia; unfold rect_wf, px, py; cbn; lia|]); destruct Hy|].
  split; [intros x y Hx Hy; cbn in Hy; repeat (destruct Hy as [<-|Hy]; [destruct x; exact I|]); destruct Hy|].
  split; vm_compute; reflexivity.
Qed.
(* a non-empty valid object contains itself: at the Geometry interface (rectangles min <= max; no
   vertex of a polygon ring in the interior of an edge of the same ring - weaker than simplicity;
   holes allowed) and at the object level through Features, collections and nesting *)
Theorem C09_geometry_contains_self : forall s, self_ok s -> s_empty s = false ->
  g_contains (g_of_shape s) (g_of_shape s) = Some true.
Proof. exact g_contains_self. Qed.
Theorem C09_contains_self : forall a, obj_wf a -> (forall x, In x (sleaves a) -> self_ok x) ->
  o_empty a = false -> o_contains a a = true.
Proof. exact o_contains_self. Qed.
Example C09_contains_self_hypotheses_hold_somewhere :
  self_ok (SPoly [(0,0);(8,0);(8,8);(4,4);(0,8);(0,0)] [[(1,1);(3,1);(2,3);(1,1)]]) /\
  o_empty self_a = false /\ o_contains self_a self_a = true.
Proof. split; [exact self_ok_concave|exact self_objects]. Qed.
Example C09_self_and_contains_hypotheses_hold_somewhere :
  let a := OColl 3 [OPoly [[(0,0);(8,0);(8,8);(0,8);(0,0)]]; OLine [(9,9);(12,12)]; OLine []] in
  obj_wf a /\ o_empty a = false /\ (forall x, In x (sleaves a) -> s_wf x) /\
  g_contains (g_of_shape (SRect ((0,0),(9,9)))) (g_of_shape (SPoly [(1,1);(3,1);(3,3);(1,1)] [])) = Some true.
Proof.
  cbv zeta. split; [cbn; tauto|]. split; [vm_compute; reflexivity|]. split.
  - cbn [sleaves flat_map app poly_shape]. intros x [<-|[<-|[<-|[]]]]; cbn; auto.
  - vm_compute. reflexivity.
Qed.

(* a Rect used as a ring is the ring of its five corner points: the same record, so every
   ring-level algorithm answers alike on both *)
Theorem C09_rect_is_its_five_point_ring : forall q, rect_wf q ->
  RR q = RS {| closed := true; pts := rect_points q |}.
Proof. exact RR_as_RS. Qed.
Theorem C09_rect_poly_is_five_point_polygon : forall q, rect_wf q ->
  rect_poly q = Pg (rect_points q) [].
Proof. intros q Hw. unfold rect_poly, Pg, Rg. cbn [map]. rewrite (RR_as_RS q Hw). reflexivity. Qed.

(* non-vacuity: a rectangle containing a two-point line *)
Example C09_covers_hypotheses_hold_somewhere : obj_wf (ORect ((0,0),(4,4))) /\ obj_wf (OLine [(1,1);(3,2)]) /\ o_empty (OLine [(1,1);(3,2)]) = false /\
  o_contains (ORect ((0,0),(4,4))) (OLine [(1,1);(3,2)]) = true.
Proof. repeat split; try (cbn; lia); vm_compute; reflexivity. Qed.

Print Assumptions C09_intersects_implies_rects_meet.
Print Assumptions C09_geometry_intersects_symmetric.
Print Assumptions C09_intersects_symmetric.
Print Assumptions C09_intersects_is_leafwise.
Print Assumptions C09_intersects_self.
Print Assumptions C09_contains_implies_intersects_partial.
Print Assumptions C09_line_contains_implies_intersects.
Print Assumptions C09_polygon_contains_implies_intersects.
Print Assumptions C09_contains_implies_intersects_objects.
Print Assumptions C09_geometry_contains_self.
Print Assumptions C09_contains_self.
Print Assumptions C09_rect_is_its_five_point_ring.
Print Assumptions C09_rect_poly_is_five_point_polygon.
Print Assumptions C09_contains_implies_rect_covers.
Print Assumptions C09_contains_implies_rects_meet_partial.
Print Assumptions C09_feature_argument_contains.
Print Assumptions C09_simplepoint_argument.
Print Assumptions C09_leaf_contains.
