(* Property C16 — objects are immutable: concurrent queries are race-free and
   deterministic.  PARTIAL: the logic is kernel-checked — threads whose every
   store targets memory of their own call cannot race and end, under ANY
   schedule, exactly where they end when run alone, the shared heap unchanged.
   That the Go code has this shape is established on every run by the
   translator tools/effects (go/ssa): it regenerates the effect table of every
   store-like instruction reachable from the query / serialisation API, and the
   generated file closes [table_ok effect_table = true] by computation
   (coq/generated: EffectsCheck.v, counted as an obligation of this property).
   Real schedules are additionally observed under the race detector. *)
From Coq Require Import List ZArith.
From GJ Require Import Interleave.
Import ListNotations.

Theorem C16_schedule_irrelevant : forall sched sh ts, all_ok ts ->
  fst (run (sh, ts) sched) = sh /\
  forall k t, nth_error ts k = Some t ->
    nth_error (snd (run (sh, ts) sched)) k = Some (solo sh t (count k sched)).
Proof. exact readonly_interleaving. Qed.

Theorem C16_race_free : forall p q i j,
  prog_ok p = true -> prog_ok q = true -> In i p -> In j q -> conflict i j = false.
Proof. exact no_conflict. Qed.

Theorem C16_table_suffices : forall (A : Type) (table : list (A * Z)) ts sh sched,
  table_ok table = true ->
  (forall t, In t ts -> forall i, In i (code t) -> In i (abstract_prog table)) ->
  fst (run (sh, ts) sched) = sh /\
  forall k t, nth_error ts k = Some t -> nth_error (snd (run (sh, ts) sched)) k = Some (solo sh t (count k sched)).
Proof. intros A. exact (@table_ok_interleaving A). Qed.

(* non-vacuity: two threads copying shared cells into their own heaps, interleaved *)
Example C16_example :
  let i1 := {| src_shared := true; src := 0; dst_shared := false; dst := 1 |} in
  let i2 := {| src_shared := true; src := 0; dst_shared := false; dst := 2 |} in
  let ts := [{| priv := fun _ => 0%Z; code := [i1; i1] |}; {| priv := fun _ => 0%Z; code := [i2] |}] in
  all_ok ts /\ fst (run ((fun _ => 7%Z), ts) [0; 1; 0]%nat) 0%nat = 7%Z.
Proof. cbn. split; [|reflexivity]. intros t [<-|[<-|[]]]; reflexivity. Qed.

Print Assumptions C16_schedule_irrelevant.
Print Assumptions C16_race_free.
Print Assumptions C16_table_suffices.
