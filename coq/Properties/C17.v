(* Property C17 — every constructible object serialises to well-formed GeoJSON, by appending.
   Kernel-checked for an arbitrary number formatter: the append contract, and that
   the byte-level writers (literal prefixes, member splice, position-index
   threading) emit exactly the text of a JSON object tree whose first member is
   "type" with the kind's name, a text of the RFC 8259 grammar.  For objects built
   through Parse the theorem's hypotheses are proved too (ParsedForm.v,
   ParsedLex.v): whatever Parse returns for a document of JSON tokens with finite
   numbers serialises to a text of the grammar, under every option set.  That the
   model's writers are the Go writers is checked on every run byte for byte; that
   the constructors (NewPoint .. NewFeature with arbitrary member strings) only
   build objects meeting the hypotheses is exercised by the same streams, not
   proved. *)
From GJ Require Import Base JsonConst Json JsonProofs EmitProofs JsonGrammar EmitWellFormed ParsedForm ParsedLex.

(* AppendJSON(prefix) = prefix followed by exactly JSON()'s bytes, the prefix untouched *)
Theorem C17_append_contract : forall (fmt : Z -> list Z) dst o,
  append_json fmt dst o = dst ++ emit fmt o /\
  firstn (length dst) (append_json fmt dst o) = dst /\
  skipn (length dst) (append_json fmt dst o) = append_json fmt [] o.
Proof. exact append_contract. Qed.

(* non-finite ordinates are written as null; finite ones only through the number formatter *)
Theorem C17_no_bare_nan : forall (fmt : Z -> list Z) f,
  match f with
  | FV k => emit_float fmt f = fmt k
  | FNull => emit_float fmt f = s_null
  | FBad => emit_float fmt f = bad_token
  end.
Proof. exact emit_float_cases. Qed.

(* alternative representations write the same bytes *)
Theorem C17_simplepoint_as_point : forall (fmt : Z -> list Z) p, emit fmt (JSimple p) = emit fmt (JPoint p None).
Proof. exact emit_simple_as_point. Qed.
Theorem C17_rect_as_polygon : forall (fmt : Z -> list Z) mn mx,
  emit fmt (JRect mn mx) = emit fmt (JPoly [fpt_rect_points mn mx] None).
Proof. exact emit_rect_as_polygon. Qed.

(* MAIN: for every well-formed object (stored member texts are objects with at least one member; Multi*
   children are geometries) whose printed ordinates exist (no out-of-range read of the z/m array) and whose
   member texts are lexically JSON, and for every formatter that prints JSON numbers, the bytes written are a
   text of the RFC 8259 grammar (no whitespace) for an object whose first member is "type": <the kind's name> *)
Theorem C17_bytes_are_a_json_object : forall (fmt : Z -> list Z), (forall k, num_lexeme (fmt k) = true) ->
  forall o, wf_o o -> lex_o o ->
  json_text (emit fmt o) (emit_jv fmt o) /\
  exists rest, emit_jv fmt o = JObj ((key s_type, str_jv (type_name o)) :: rest).
Proof. exact emit_wellformed. Qed.
(* the byte-level writers print exactly a JSON tree *)
Theorem C17_writers_print_a_tree : forall (fmt : Z -> list Z) o, wf_o o -> emit fmt o = print_min (emit_jv fmt o).
Proof. exact emit_is_print. Qed.
(* the grammar contains the minified print of every lexically well-formed tree *)
Theorem C17_print_is_json : forall v, lex_ok v = true -> json_text (print_min v) v.
Proof. exact print_min_is_json. Qed.

(* objects built through Parse: no hypothesis on the object is left *)
Theorem C17_parsed_objects_write_json : forall (fmt : Z -> list Z), (forall k, num_lexeme (fmt k) = true) ->
  forall fuel o one v g, fin_doc v = true -> lex_ok v = true -> parse fuel o one v = POk g ->
  json_text (emit fmt g) (emit_jv fmt g) /\
  exists rest, emit_jv fmt g = JObj ((key s_type, str_jv (type_name g)) :: rest).
Proof. exact parsed_bytes_are_json. Qed.

Print Assumptions C17_bytes_are_a_json_object.
Print Assumptions C17_parsed_objects_write_json.
Print Assumptions C17_append_contract.
Print Assumptions C17_rect_as_polygon.
