(* Property C17 — every constructible object serialises to well-formed GeoJSON, by appending.
   PARTIAL: the append contract and the writers' case analysis are kernel-checked
   for an arbitrary number formatter; that the byte-level writers emit exactly the
   text of a JSON tree (hence valid JSON with the right "type" and nesting) is
   checked on every run: the model's bytes equal the implementation's byte for
   byte, and the implementation's bytes are re-tokenized by two independent
   tokenizers and inspected (flags). *)
From GJ Require Import Base JsonConst Json JsonProofs.

(* AppendJSON(prefix) = prefix followed by exactly JSON()'s bytes, the prefix untouched *)
Theorem C17_append_contract : forall (fmt : Z -> list Z) dst o,
  append_json fmt dst o = dst ++ emit fmt o /\
  firstn (length dst) (append_json fmt dst o) = dst /\
  skipn (length dst) (append_json fmt dst o) = append_json fmt [] o.
Proof. exact append_contract. Qed.

(* non-finite ordinates are written as null; finite ones only through the number formatter *)
Theorem C17_no_bare_nan : forall (fmt : Z -> list Z) f,
  match f with
  | FV k => emit_float fmt f = fmt k
  | FNull => emit_float fmt f = s_null
  | FBad => emit_float fmt f = bad_token
  end.
Proof. exact emit_float_cases. Qed.

(* alternative representations write the same bytes *)
Theorem C17_simplepoint_as_point : forall (fmt : Z -> list Z) p, emit fmt (JSimple p) = emit fmt (JPoint p None).
Proof. exact emit_simple_as_point. Qed.
Theorem C17_rect_as_polygon : forall (fmt : Z -> list Z) mn mx,
  emit fmt (JRect mn mx) = emit fmt (JPoly [fpt_rect_points mn mx] None).
Proof. exact emit_rect_as_polygon. Qed.

Print Assumptions C17_append_contract.
Print Assumptions C17_rect_as_polygon.
