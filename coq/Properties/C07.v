(* Property C07 — Parse decodes exactly what the document says, or rejects it.
   PROVED on the model of Parse against the independent classification
   JsonSpec.class_doc (ParseSpec.v), for every document tree:
   - every document with a listed structural defect (at any nesting depth) is
     rejected, under every option set (C07_defects_rejected);
   - every well-formed document is accepted under the default representation
     options and the object's kind tree, nesting, child order and every x,y equal
     those the specification reads from the document (last duplicate member
     wins) - PARTIAL in one respect: under the hypothesis [nomix], which excludes
     exactly the documents of the known finding (a position with more ordinates
     than a two-ordinate first position is rejected; TestIssue714 pins that
     behaviour).  Without the hypothesis the statement is false of the faithful
     model: C07_mixed_dimensions_refuted exhibits the witness.
   Outside the theorems: text <-> tree (tokenizer, trailing bytes, whitespace),
   decided on every run by the correspondence with an independent tokenizer and
   encoding/json; that the model is the code: the byte-exact correspondence. *)
From GJ Require Import Base JsonConst Json JsonSpec JsonProofs EmitProofs Obj JsonExec ParseSpec.

Theorem C07_parse_total : forall fuel o one v,
  (exists g, parse fuel o one v = POk g) \/ (exists c, parse fuel o one v = PErr c).
Proof. exact parse_total. Qed.

Theorem C07_last_duplicate_wins : forall ms,
  k_type (scan_keys ms) = last_member s_type ms /\
  k_coords (scan_keys ms) = last_member s_coordinates ms /\
  k_geoms (scan_keys ms) = last_member s_geometries ms /\
  k_geom (scan_keys ms) = last_member s_geometry ms /\
  k_feats (scan_keys ms) = last_member s_features ms.
Proof. exact scan_keys_last. Qed.

Theorem C07_reject_not_object : forall fuel o one v,
  (forall ms, v <> JObj ms) -> exists c, parse (S fuel) o one v = PErr c.
Proof. exact reject_not_object. Qed.
Theorem C07_reject_missing_type : forall fuel o one ms,
  last_member s_type ms = None -> parse (S fuel) o one (JObj ms) = PErr E_TypeMissing.
Proof. exact reject_missing_type. Qed.
Theorem C07_reject_nonstring_type : forall fuel o one ms t,
  last_member s_type ms = Some t -> (forall r d, t <> JStr r d) ->
  parse (S fuel) o one (JObj ms) = PErr E_TypeInvalid.
Proof. exact reject_nonstring_type. Qed.
Theorem C07_reject_unknown_type : forall fuel o one ms r t,
  last_member s_type ms = Some (JStr r t) -> known_type t = false ->
  parse (S fuel) o one (JObj ms) = PErr E_TypeUnknown.
Proof. exact reject_unknown_type. Qed.
Theorem C07_reject_point_coordinates : forall fuel o one ms r,
  last_member s_type ms = Some (JStr r s_Point) ->
  (last_member s_coordinates ms = None \/ exists c, last_member s_coordinates ms = Some c /\ is_array c = false) ->
  exists code, parse (S fuel) o one (JObj ms) = PErr code.
Proof. exact reject_point_coordinates. Qed.
Theorem C07_reject_feature_without_geometry : forall fuel o one ms r,
  last_member s_type ms = Some (JStr r s_Feature) -> last_member s_geometry ms = None ->
  parse (S fuel) o one (JObj ms) = PErr E_GeometryMissing.
Proof. exact reject_feature_without_geometry. Qed.

Theorem C07_accept_point : forall fuel ms r l,
  last_member s_type ms = Some (JStr r s_Point) ->
  last_member s_coordinates ms = Some (JArr l) ->
  forallb is_num l = true -> (2 <= length l <= 4)%nat ->
  forall o, allow_simple o = false -> require_valid o = false ->
  exists ex, parse (S fuel) o 1 (JObj ms) = POk (JPoint (num_of (nth 0 l JNull), num_of (nth 1 l JNull)) ex).
Proof. exact accept_point. Qed.

(* MAIN 1: a listed structural defect anywhere in the document is rejected, whatever the options *)
Theorem C07_defects_rejected : forall fuel o one v,
  class_doc fuel v = DEFECT -> exists c, parse fuel o one v = PErr c.
Proof. exact defect_rejected. Qed.

(* MAIN 2 (partial: hypothesis nomix): a well-formed document is accepted and decoded as the specification reads it *)
Theorem C07_wellformed_accepted_and_decoded_partial : forall fuel o one v t,
  plain o -> class_doc fuel v = WF t -> nomix fuel v = true ->
  exists g, parse fuel o one v = POk g /\ enc_tree g = enc_tree t.
Proof. exact wf_accepted. Qed.

(* the full statement (no nomix) is false of the faithful model: the known finding, as a witness *)
Definition mix_num (k : Z) : jv := JNum [48 + k] (FV k).
Definition mix_doc : jv :=
  JObj [(key s_type, JStr s_LineString s_LineString);
        (key s_coordinates, JArr [JArr [mix_num 1; mix_num 2]; JArr [mix_num 3; mix_num 4; mix_num 5]])].
Theorem C07_mixed_dimensions_refuted :
  exists t, class_doc 2 mix_doc = WF t /\ nomix 2 mix_doc = false /\
            exists c, parse 2 (mk_opts 0 0) 1 mix_doc = PErr c.
Proof. eexists. split; [vm_compute; reflexivity|]. split; [vm_compute; reflexivity|]. eexists. vm_compute. reflexivity. Qed.

(* the hypotheses of MAIN 2 hold for documents of every type; e.g. a 3-dimensional polygon inside a Feature *)
Definition ok_ring : jv :=
  JArr [JArr [mix_num 0; mix_num 0; mix_num 7]; JArr [mix_num 4; mix_num 0; mix_num 7]; JArr [mix_num 4; mix_num 4];
        JArr [mix_num 0; mix_num 0; mix_num 7; mix_num 1]].
Definition ok_doc : jv :=
  JObj [(key s_type, JStr s_Feature s_Feature);
        (key s_geometry, JObj [(key s_type, JStr s_Polygon s_Polygon); (key s_coordinates, JArr [ok_ring])])].
Example C07_hypotheses_hold_somewhere :
  plain (mk_opts 0 0) /\ nomix 3 ok_doc = true /\ exists t, class_doc 3 ok_doc = WF t.
Proof. split; [repeat split|]. split; [vm_compute; reflexivity|]. eexists. vm_compute. reflexivity. Qed.

Print Assumptions C07_last_duplicate_wins.
Print Assumptions C07_defects_rejected.
Print Assumptions C07_wellformed_accepted_and_decoded_partial.
Print Assumptions C07_reject_unknown_type.
Print Assumptions C07_accept_point.
