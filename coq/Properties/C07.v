(* Property C07 — Parse decodes exactly what the document says, or rejects it.
   PARTIAL: kernel-checked for the member scan (last duplicate wins, exactly as a
   standard decoder), the rejection of the listed top-level defects, totality, and
   the acceptance/decoding of well-formed Point documents; acceptance and decoding
   of the other eight types and nested defects are decided on every run by the
   correspondence of the implementation with the Coq model of Parse and with the
   independent classification JsonSpec.class_doc (well-formed -> this tree;
   listed defect -> rejected).  One known finding (mixed-dimension positions). *)
From GJ Require Import Base JsonConst Json JsonSpec JsonProofs.

Theorem C07_parse_total : forall fuel o one v,
  (exists g, parse fuel o one v = POk g) \/ (exists c, parse fuel o one v = PErr c).
Proof. exact parse_total. Qed.

Theorem C07_last_duplicate_wins : forall ms,
  k_type (scan_keys ms) = last_member s_type ms /\
  k_coords (scan_keys ms) = last_member s_coordinates ms /\
  k_geoms (scan_keys ms) = last_member s_geometries ms /\
  k_geom (scan_keys ms) = last_member s_geometry ms /\
  k_feats (scan_keys ms) = last_member s_features ms.
Proof. exact scan_keys_last. Qed.

Theorem C07_reject_not_object : forall fuel o one v,
  (forall ms, v <> JObj ms) -> exists c, parse (S fuel) o one v = PErr c.
Proof. exact reject_not_object. Qed.
Theorem C07_reject_missing_type : forall fuel o one ms,
  last_member s_type ms = None -> parse (S fuel) o one (JObj ms) = PErr E_TypeMissing.
Proof. exact reject_missing_type. Qed.
Theorem C07_reject_nonstring_type : forall fuel o one ms t,
  last_member s_type ms = Some t -> (forall r d, t <> JStr r d) ->
  parse (S fuel) o one (JObj ms) = PErr E_TypeInvalid.
Proof. exact reject_nonstring_type. Qed.
Theorem C07_reject_unknown_type : forall fuel o one ms r t,
  last_member s_type ms = Some (JStr r t) -> known_type t = false ->
  parse (S fuel) o one (JObj ms) = PErr E_TypeUnknown.
Proof. exact reject_unknown_type. Qed.
Theorem C07_reject_point_coordinates : forall fuel o one ms r,
  last_member s_type ms = Some (JStr r s_Point) ->
  (last_member s_coordinates ms = None \/ exists c, last_member s_coordinates ms = Some c /\ is_array c = false) ->
  exists code, parse (S fuel) o one (JObj ms) = PErr code.
Proof. exact reject_point_coordinates. Qed.
Theorem C07_reject_feature_without_geometry : forall fuel o one ms r,
  last_member s_type ms = Some (JStr r s_Feature) -> last_member s_geometry ms = None ->
  parse (S fuel) o one (JObj ms) = PErr E_GeometryMissing.
Proof. exact reject_feature_without_geometry. Qed.

Theorem C07_accept_point : forall fuel ms r l,
  last_member s_type ms = Some (JStr r s_Point) ->
  last_member s_coordinates ms = Some (JArr l) ->
  forallb is_num l = true -> (2 <= length l <= 4)%nat ->
  forall o, allow_simple o = false -> require_valid o = false ->
  exists ex, parse (S fuel) o 1 (JObj ms) = POk (JPoint (num_of (nth 0 l JNull), num_of (nth 1 l JNull)) ex).
Proof. exact accept_point. Qed.

Print Assumptions C07_last_duplicate_wins.
Print Assumptions C07_reject_unknown_type.
Print Assumptions C07_accept_point.
