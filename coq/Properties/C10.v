(* Property C10 — collections answer as the composition of their children,
   indexed or not.  Only statements.  The model's child Search is the linear
   scan; that the child R-tree (github.com/tidwall/rtree, outside the model)
   reproduces it is checked on every run with thresholds 0, 1, 2, 64. *)
From GJ Require Import Base Kernel Series SeriesSpec Pairs Obj ObjSpec ObjProofs BoxLaws ContainsBoxes.
Open Scope Z_scope.

Theorem C10_empty : forall k cs, o_empty (OColl k cs) = forallb o_empty cs.
Proof. exact coll_empty_spec. Qed.
Theorem C10_npoints : forall k cs, o_npoints (OColl k cs) = fold_right Z.add 0 (map o_npoints cs).
Proof. exact coll_npoints_spec. Qed.
(* rectangle = the tight box over the occupied positions of all children (union of the non-empty children's boxes) *)
Theorem C10_rect : forall k cs, obj_wf (OColl k cs) -> o_empty (OColl k cs) = false ->
  o_rect (OColl k cs) = bbox_spec (flat_map positions cs).
Proof. intros k cs. exact (o_rect_spec (OColl k cs)). Qed.

(* child search: exactly the non-empty children whose rectangle meets the query, once each, early stop honoured *)
Theorem C10_search_exact : forall cs q i,
  In i (o_search cs q) <->
  exists c, nth_error cs i = Some c /\ o_empty c = false /\ rect_intersects_rect (o_rect c) q = true.
Proof. exact coll_search_spec. Qed.
Theorem C10_search_once : forall cs q, NoDup (o_search cs q).
Proof. exact coll_search_nodup. Qed.
Theorem C10_search_early_stop : forall cs q k,
  length (firstn k (o_search cs q)) = Nat.min k (length (o_search cs q)).
Proof. exact coll_search_early_stop. Qed.

(* intersects X iff some non-empty child intersects some non-empty part of X
   (the rectangle pre-filter is kept visible; it is implied by the C09 law
   "intersects => rectangles intersect" of the children) *)
Theorem C10_intersects : forall k cs x,
  o_intersects (OColl k cs) x = true <->
  exists c p, In c cs /\ In p (for_each x) /\ o_empty c = false /\ o_empty p = false /\
              rect_intersects_rect (o_rect c) (o_rect p) = true /\ o_intersects c p = true.
Proof. exact coll_intersects_spec. Qed.

(* contains X iff X has a non-empty part and every non-empty part is contained by some child *)
Theorem C10_contains : forall k cs x,
  o_contains (OColl k cs) x = true <->
  o_empty (OColl k cs) = false /\ nonempty_parts_c x <> [] /\
  forall p, In p (nonempty_parts_c x) ->
    exists c, In c cs /\ o_empty c = false /\ rect_intersects_rect (o_rect c) (o_rect p) = true /\ o_contains c p = true.
Proof. exact coll_contains_spec. Qed.

(* within a geometry X iff non-empty and every child is within X *)
Theorem C10_within : forall k cs g,
  o_within_g (OColl k cs) g = true <->
  o_empty (OColl k cs) = false /\
  forall c, In c cs -> o_empty c = false /\ rect_intersects_rect (o_rect c) (g_rect g) = true /\ o_within_g c g = true.
Proof. exact coll_within_spec. Qed.

(* the three composition laws as the property words them: the rectangle pre-filter of Search is implied
   by the children's own answers (BoxLaws / ContainsBoxes), so it disappears *)
Theorem C10_intersects_composition : forall k cs x, obj_wf (OColl k cs) -> obj_wf x ->
  (o_intersects (OColl k cs) x = true <->
   exists c p, In c cs /\ In p (for_each x) /\ o_empty c = false /\ o_empty p = false /\ o_intersects c p = true).
Proof. exact coll_intersects_iff. Qed.
Theorem C10_contains_composition : forall k cs x, obj_wf (OColl k cs) -> obj_wf x ->
  (o_contains (OColl k cs) x = true <->
   o_empty (OColl k cs) = false /\ nonempty_parts_c x <> [] /\
   forall p, In p (nonempty_parts_c x) -> exists c, In c cs /\ o_empty c = false /\ o_contains c p = true).
Proof. exact coll_contains_iff. Qed.
Theorem C10_within_composition : forall k cs g, obj_wf (OColl k cs) -> built2 g -> g_wf g ->
  (o_within_g (OColl k cs) g = true <->
   o_empty (OColl k cs) = false /\ forall c, In c cs -> o_empty c = false /\ o_within_g c g = true).
Proof. exact coll_within_iff. Qed.

Print Assumptions C10_intersects_composition.
Print Assumptions C10_contains_composition.
Print Assumptions C10_within_composition.
Print Assumptions C10_rect.
Print Assumptions C10_search_exact.
Print Assumptions C10_search_once.
Print Assumptions C10_intersects.
Print Assumptions C10_contains.
Print Assumptions C10_within.
