(* Property C13 — Circle objects mean "within great-circle distance of the centre".
   PARTIAL: proved over the reals: the point test of circle.go (haversine of the
   point against the stored haversine of the radius) is exactly "great-circle
   distance <= radius" for radii up to half the circumference, is monotone in the
   radius and symmetric in operand order.  The circle-circle tests, Point /
   SimplePoint dispatch, serialisation and the polygon approximation are checked
   on every run by flags; point decisions of sampled cases are certified by
   interval arithmetic against the model. *)
From Coq Require Import Reals.
From GJ Require Import Sphere.
Open Scope R_scope.

Theorem C13_contains_point_iff_distance : forall clat clon meters plat plon,
  lat_ok clat -> lat_ok plat -> 0 <= meters <= piR ->
  (circle_contains_point clat clon meters plat plon <-> distance_to plat plon clat clon <= meters).
Proof. exact circle_contains_point_spec. Qed.
Theorem C13_monotone_in_radius : forall clat clon m1 m2 plat plon,
  0 <= m1 <= m2 -> m2 <= piR ->
  circle_contains_point clat clon m1 plat plon -> circle_contains_point clat clon m2 plat plon.
Proof. exact circle_monotone_radius. Qed.
Theorem C13_operand_order : forall clat clon meters plat plon,
  circle_contains_point clat clon meters plat plon <-> hav clat clon plat plon <= dist_to_hav meters.
Proof. exact circle_point_order. Qed.

Print Assumptions C13_contains_point_iff_distance.
