(* Property C13 — Circle objects mean "within great-circle distance of the centre".
   PARTIAL: proved over the reals: the point test of circle.go (haversine of the
   point against the stored haversine of the radius) is exactly "great-circle
   distance <= radius" for radii up to half the circumference, is monotone in the
   radius and symmetric in operand order; the circle-circle tests are exact as
   point sets (Intersects: the discs share a location iff centre distance <= sum
   of radii; Contains: sound always, complete while the far side of B stays short
   of A's antipode).  Point / SimplePoint dispatch, serialisation, the polygon
   approximation and float64 rounding are checked on every run by flags; point decisions of sampled cases are certified by
   interval arithmetic against the model. *)
From Coq Require Import Reals Lra.
From Interval Require Import Tactic.
From GJ Require Import Sphere SphereRect SphereTriangle SphereMeet.
Open Scope R_scope.

Theorem C13_contains_point_iff_distance : forall clat clon meters plat plon,
  lat_ok clat -> lat_ok plat -> 0 <= meters <= piR ->
  (circle_contains_point clat clon meters plat plon <-> distance_to plat plon clat clon <= meters).
Proof. exact circle_contains_point_spec. Qed.
Theorem C13_monotone_in_radius : forall clat clon m1 m2 plat plon,
  0 <= m1 <= m2 -> m2 <= piR ->
  circle_contains_point clat clon m1 plat plon -> circle_contains_point clat clon m2 plat plon.
Proof. exact circle_monotone_radius. Qed.
Theorem C13_operand_order : forall clat clon meters plat plon,
  circle_contains_point clat clon meters plat plon <-> hav clat clon plat plon <= dist_to_hav meters.
Proof. exact circle_point_order. Qed.

(* Circle.Contains(Circle) - centre distance + radius of B <= radius of A - is sound: every point of B is within A *)
Theorem C13_circle_contains_circle_sound : forall latA lonA rA latB lonB rB plat plon,
  lat_ok latA -> lat_ok latB -> lat_ok plat -> 0 <= rB <= piR -> 0 <= rA <= piR ->
  distance_to latA lonA latB lonB + rB <= rA ->
  circle_contains_point latB lonB rB plat plon -> circle_contains_point latA lonA rA plat plon.
Proof. exact circle_contains_circle_sound. Qed.

(* Circle.Intersects(Circle), the "only if" half: circles that share a point have centre distance <= sum of the radii *)
Theorem C13_circles_meet_only_if_close : forall latA lonA rA latB lonB rB plat plon,
  lat_ok latA -> lat_ok latB -> lat_ok plat -> 0 <= rA <= piR -> 0 <= rB <= piR ->
  circle_contains_point latA lonA rA plat plon -> circle_contains_point latB lonB rB plat plon ->
  distance_to latA lonA latB lonB <= rA + rB.
Proof. exact circles_meet_only_if_close. Qed.

(* ... and the "if" half: a centre distance of at most the sum of the radii yields a common location (a
   centre when one disc reaches the other's centre, otherwise the point of the great arc from A to B at
   distance rA from A), so Circle.Intersects(Circle) is exact as point sets *)
Theorem C13_circles_meet_iff_close : forall latA lonA rA latB lonB rB,
  lat_ok latA -> lat_ok latB -> 0 <= rA <= piR -> 0 <= rB <= piR ->
  (distance_to latA lonA latB lonB <= rA + rB <->
   exists plat plon, lat_ok plat /\ circle_contains_point latA lonA rA plat plon /\ circle_contains_point latB lonB rB plat plon).
Proof. exact circles_meet_iff. Qed.
(* Circle.Contains(Circle) is also complete: if every location of B is within A then centre distance +
   radius of B <= radius of A, as long as that sum does not pass half the circumference *)
Theorem C13_circle_contains_circle_complete : forall latA lonA rA latB lonB rB,
  lat_ok latA -> lat_ok latB -> 0 <= rA <= piR -> 0 <= rB <= piR ->
  distance_to latA lonA latB lonB + rB <= piR ->
  (forall plat plon, lat_ok plat -> circle_contains_point latB lonB rB plat plon -> circle_contains_point latA lonA rA plat plon) ->
  distance_to latA lonA latB lonB + rB <= rA.
Proof. exact circle_contains_circle_complete. Qed.

(* non-vacuity: concentric circles of 3 km and 1 km, the common centre as the point *)
Example C13_circle_hypotheses_hold_somewhere : lat_ok 10 /\ 0 <= 1000 <= piR /\ 0 <= 3000 <= piR /\ distance_to 10 20 10 20 + 1000 <= 3000 /\ circle_contains_point 10 20 1000 10 20.
Proof.
  assert (P : 3000 <= piR) by (unfold piR, Rearth; interval).
  unfold lat_ok. rewrite distance_refl. unfold circle_contains_point. rewrite hav_refl.
  repeat split; try lra. unfold dist_to_hav. cbv zeta. nra.
Qed.


Print Assumptions C13_contains_point_iff_distance.
Print Assumptions C13_circle_contains_circle_sound.
Print Assumptions C13_circles_meet_iff_close.
Print Assumptions C13_circle_contains_circle_complete.
