(* Property C04 — the compressed quadtree / R-tree segment indexes are exact
   accelerators.  Only statements, each closed by the lemma that proves it.
   [mid] (the quadtree's mid-line function, (min+max)/2 in float64) and the
   float64 byte codec [fenc]/[fdec] are universally quantified: nothing depends
   on what [mid] returns, which is why rounding or overflow of the mid-lines
   cannot lose a segment. *)
From Coq Require Import Sorting.Permutation.
From GJ Require Import Base Kernel Series SeriesSpec Index IndexExec QTreeProofs RTreeProofs CodecQProofs CodecRProofs IndexSeriesProofs Ring RingSpec KernelSpec PipProofs IndexChoice IndexChoice2.

(* quadtree built by successive inserts of items 0..n-1 (qtree.go:insert):
   a search reports exactly the items whose rectangle meets the query *)
Theorem C04_qtree_search_exact : forall (mid : Z -> Z -> Z) (rect_of : Z -> rect) bounds n q,
  (forall i, (i < n)%nat -> let r := rect_of (Z.of_nat i) in
     px (fst r) <= px (snd r) /\ py (fst r) <= py (snd r) /\ rect_contains_rect bounds r = true) ->
  Permutation (qsearch mid rect_of (S qMaxDepth) (qbuild mid rect_of bounds n) bounds q)
              (filter (fun it => rect_intersects_rect (rect_of it) q) (map Z.of_nat (seq 0 n))).
Proof. exact qbuild_search_exact. Qed.

(* ... each exactly once *)
Theorem C04_qtree_search_nodup : forall (mid : Z -> Z -> Z) (rect_of : Z -> rect) bounds n q,
  (forall i, (i < n)%nat -> let r := rect_of (Z.of_nat i) in
     px (fst r) <= px (snd r) /\ py (fst r) <= py (snd r) /\ rect_contains_rect bounds r = true) ->
  NoDup (qsearch mid rect_of (S qMaxDepth) (qbuild mid rect_of bounds n) bounds q).
Proof. exact qbuild_search_nodup. Qed.

(* an item that does not straddle a mid-line goes to a quadrant that contains it *)
Theorem C04_choose_quad : forall (mid : Z -> Z -> Z) bounds r q,
  rect_contains_rect bounds r = true -> choose_quad mid bounds r = q -> q <> -1 ->
  (0 <= q <= 3) /\ rect_contains_rect (quad_bounds mid bounds q) r = true.
Proof. exact choose_quad_within. Qed.

(* the compressed quadtree bytes searched by qCompressSearch give the tree search,
   with every read in bounds (the result is Some _), for 1/2/4-byte item widths *)
Theorem C04_qtree_codec : forall (mid : Z -> Z -> Z) (rect_of : Z -> rect) bounds n q,
  Z.of_nat n < 2 ^ 32 ->
  let data := set_compressed 2 (qenc (S qMaxDepth) 5 (qbuild mid rect_of bounds n)) in
  Z.of_nat (length data) < 2 ^ 32 ->
  qcsearch mid rect_of (S (S qMaxDepth)) data 5 bounds q
  = Some (qsearch mid rect_of (S qMaxDepth) (qbuild mid rect_of bounds n) bounds q).
Proof. exact q_codec_build. Qed.

(* R-tree built by successive inserts (rtree.go): exact and duplicate-free *)
Theorem C04_rtree_search_exact : forall (rect_of : Z -> rect) n q,
  (forall i, (i < n)%nat -> let r := rect_of (Z.of_nat i) in
     px (fst r) <= px (snd r) /\ py (fst r) <= py (snd r)) ->
  match rroot (rbuild rect_of n) with
  | None => n = 0%nat
  | Some r => Permutation (rsearch rect_of r q)
                (filter (fun it => rect_intersects_rect (rect_of it) q) (map Z.of_nat (seq 0 n)))
  end.
Proof. exact rbuild_search_exact. Qed.

Theorem C04_rtree_search_nodup : forall (rect_of : Z -> rect) n q,
  (forall i, (i < n)%nat -> let r := rect_of (Z.of_nat i) in
     px (fst r) <= px (snd r) /\ py (fst r) <= py (snd r)) ->
  match rroot (rbuild rect_of n) with
  | None => True
  | Some r => NoDup (rsearch rect_of r q)
  end.
Proof. exact rbuild_search_nodup. Qed.

(* node counts: at most 16 kids after every insert (so byte(count) is lossless),
   uniform leaf depth = height; transiently at most 17, at the root only *)
Theorem C04_rtree_counts : forall (rect_of : Z -> rect) n,
  (forall i, (i < n)%nat -> let r := rect_of (Z.of_nat i) in
     px (fst r) <= px (snd r) /\ py (fst r) <= py (snd r)) ->
  match rroot (rbuild rect_of n) with
  | None => n = 0%nat
  | Some r => max_kids 16 r /\ rwf rect_of (rheight (rbuild rect_of n)) r
  end.
Proof. exact rbuild_counts. Qed.

(* the compressed R-tree bytes searched by rCompressSearch give the tree search
   (every read in bounds), for any 8-byte float codec that round-trips *)
Theorem C04_rtree_codec : forall (rect_of : Z -> rect) (fenc : Z -> list Z) (fdec : list Z -> option Z),
  (forall x, length (fenc x) = 8%nat) -> (forall x, fdec (fenc x) = Some x) ->
  forall (t : rtree) q,
  match rroot t with Some r => rshape (rheight t) r | None => True end ->
  (rheight t <= 255)%nat ->
  let data := set_compressed 1 (rtenc fenc t) in
  Z.of_nat (length data) < 2 ^ 32 ->
  rcsearch rect_of fdec data 5 q
  = Some match rroot t with Some r => rsearch rect_of r q | None => [] end.
Proof. exact r_codec. Qed.

(* ... and the trees built by inserts have the shape the codec needs *)
Theorem C04_rtree_built_shape : forall (rect_of : Z -> rect) n, Z.of_nat n <= 2 ^ 32 ->
  match rroot (rbuild rect_of n) with
  | None => True
  | Some r => rshape (rheight (rbuild rect_of n)) r
  end.
Proof. exact rbuild_shape. Qed.

(* at the level of a series (baseSeries.Search): for EVERY index kind the reported segments are
   a permutation of the brute-force answer - exactly the segments whose rectangle meets the query *)
Theorem C04_series_search_exact : forall kind s q, Permutation (series_search kind s q) (search_spec s q).
Proof. exact series_search_exact. Qed.
Theorem C04_series_search_once : forall s q,
  NoDup (series_search 1 s q) /\ NoDup (series_search 2 s q).
Proof. intros s q. split; [apply series_search_rtree_exact|apply series_search_qtree_exact]. Qed.
(* Move rebuilds rectangle and index from the moved points *)
Theorem C04_series_search_after_move : forall kind s dx dy q,
  Permutation (series_search kind (series_move s dx dy) q) (search_spec (series_move s dx dy) q).
Proof. exact series_search_moved_exact. Qed.
(* searching the compressed quadtree bytes of a series = the tree search, every read in bounds *)
Theorem C04_series_qtree_bytes : forall sc s q,
  Z.of_nat (length (seg_rects s)) < 2 ^ 32 -> Z.of_nat (length (build_index_bytes sc 2 s)) < 2 ^ 32 ->
  series_search_bytes sc 2 s q = Some (series_search 2 s q).
Proof. exact series_search_qtree_bytes. Qed.

(* from "the same SET of candidates" to "the same answer": ringContainsSegment consumes the index of the
   ring segment on which an end of the probe was found; at a shared vertex that index depends on the
   order in which the index delivers candidates.  [rcs_with] is ringContainsSegment with the two
   point-search results as parameters; for a ring whose segments meet only at their ends any two valid
   reports (the hit flag, and for a boundary point the index of SOME segment through it) give the same
   answer; without contact the indices are not consulted at all *)
Theorem C04_contains_segment_is_rcs_with : forall r sg allow,
  ring_contains_segment r sg allow =
  rcs_with r sg allow (ring_contains_point r (fst sg) allow) (ring_contains_point r (snd sg) allow).
Proof. exact rcs_with_model. Qed.
Theorem C04_contains_segment_index_choice : forall r a b resA resA' resB resB',
  meets_at_ends r ->
  valid_res r a true resA -> valid_res r a true resA' -> valid_res r b true resB -> valid_res r b true resB' ->
  fst (rcs_with r (a, b) true resA resB) = fst (rcs_with r (a, b) true resA' resB').
Proof. exact rcs_choice_independent. Qed.
Theorem C04_contains_segment_strict_ignores_indices : forall r sg resA resA' resB resB',
  fst resA = fst resA' -> fst resB = fst resB' ->
  fst (rcs_with r sg false resA resB) = fst (rcs_with r sg false resA' resB').
Proof. exact rcs_strict_ignores_indices. Qed.
(* ... and every order in which the candidates of the strip query are delivered yields a valid report, so
   ringContainsSegment computed from point searches over differently ordered candidate lists (no index,
   quadtree, R-tree) gives one answer; in index order it is the model *)
Theorem C04_point_search_any_order_valid : forall r p allow l,
  Permutation l (strip_search r (py p)) -> rect_contains_point (ring_rect r) p = true ->
  valid_res r p allow (search_in_order r p allow l).
Proof. exact any_order_valid. Qed.
Theorem C04_contains_segment_any_candidate_order : forall r a b la la' lb lb',
  meets_at_ends r ->
  Permutation la (strip_search r (py a)) -> Permutation la' (strip_search r (py a)) ->
  Permutation lb (strip_search r (py b)) -> Permutation lb' (strip_search r (py b)) ->
  fst (rcs_with r (a, b) true (search_in_order r a true la) (search_in_order r b true lb)) =
  fst (rcs_with r (a, b) true (search_in_order r a true la') (search_in_order r b true lb')).
Proof. exact rcs_any_candidate_order. Qed.
Theorem C04_index_order_is_the_model : forall r a b,
  ring_contains_segment r (a, b) true =
  rcs_with r (a, b) true (search_in_order r a true (strip_search r (py a))) (search_in_order r b true (strip_search r (py b))).
Proof. exact rcs_index_order. Qed.
Example C04_meets_at_ends_holds_somewhere : meets_at_ends (RS {| closed := true; pts := [(0,0);(4,0);(0,4)] |}).
Proof. exact triangle_meets_at_ends. Qed.

Print Assumptions C04_series_search_exact.
Print Assumptions C04_series_qtree_bytes.
Print Assumptions C04_qtree_search_exact.
Print Assumptions C04_qtree_search_nodup.
Print Assumptions C04_choose_quad.
Print Assumptions C04_qtree_codec.
Print Assumptions C04_rtree_search_exact.
Print Assumptions C04_rtree_search_nodup.
Print Assumptions C04_rtree_counts.
Print Assumptions C04_rtree_codec.
Print Assumptions C04_rtree_built_shape.
Print Assumptions C04_contains_segment_index_choice.
Print Assumptions C04_contains_segment_any_candidate_order.
