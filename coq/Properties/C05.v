(* Property C05 — every operation terminates normally on every input.  PARTIAL:
   kernel-checked on the model side: every model function is a total Gallina
   function; the one loop that is not structurally recursive (the covering walk
   of Line.ContainsLine) is proved to return within its fuel for every input;
   Parse returns exactly one of (object, error code); the pinned walk is proved
   to diverge on a concrete input (the finding that was repaired).  Wall-clock
   time, stack depth and panics of the Go code itself cannot be stated in the
   model: they are observed on every run by the robustness stream (all kind
   pairs x all methods incl. degenerate objects, arbitrary bytes and deep
   nesting into Parse) under a watchdog, with panics recorded per case. *)
From GJ Require Import Base Kernel Series Ring PairSpec Pairs Obj Json JsonProofs LineProofs TotalProofs.

Theorem C05_contains_line_returns : forall l o, line_contains_line l o <> None.
Proof. exact line_contains_line_total. Qed.
Theorem C05_contains_line_poly_returns : forall l p, line_contains_poly l p <> None.
Proof. exact line_contains_poly_total. Qed.
Theorem C05_every_geometry_pair_returns : forall a b, g_contains a b <> None.
Proof. exact g_contains_total. Qed.
Theorem C05_object_layer_never_out_of_fuel : forall a b, fuel_ok a b = true.
Proof. exact fuel_ok_always. Qed.
Theorem C05_parse_object_or_error : forall fuel o one v,
  (exists g, parse fuel o one v = POk g) \/ (exists c, parse fuel o one v = PErr c).
Proof. exact parse_total. Qed.

(* the finding: before the repair the walk never returned on this input, whatever the fuel *)
Theorem C05_pinned_walk_diverges_refuted : forall fuel,
  line_contains_line_pinned fuel (RS {| closed := false; pts := [(0, 0); (5, 0); (10, 0)] |})
                                 (RS {| closed := false; pts := [(6, 0); (5, 0); (5, 5)] |}) = None.
Proof. exact contains_line_pinned_refuted. Qed.

Print Assumptions C05_contains_line_returns.
Print Assumptions C05_every_geometry_pair_returns.
Print Assumptions C05_pinned_walk_diverges_refuted.
