(* Property C08 — parse options never change what an object means.
   PARTIAL: the model of Parse takes no index option at all (they only reach the
   segment / child indexes, which C04 and C10 prove to be exact accelerators);
   kernel-checked here: SimplePoint and Rect write the bytes of Point and of the
   five-point Polygon, and answer predicates alike (C09).  That every observable
   is identical under the seven index-option variants is decided on every run by
   re-parsing every accepted document under all of them.  The representation
   options are proved on the parse model (ParseRepr.v): same acceptance, same
   bytes, same validity, Circle under both; that Rect answers every predicate as
   its polygon is decided per run (SimplePoint as Point is proved).  The RequireValid clause is proved
   outright on the parse model (ParseValid.v): what Parse returns under
   RequireValid is valid, and RequireValid changes nothing else - the two runs
   on the same tree either return the same object, or the plain run returns an
   object that reports itself invalid and the RequireValid run an error. *)
From GJ Require Import Base JsonConst Json JsonProofs Obj ObjProofs ParseValid ParseRepr.

Theorem C08_simplepoint_same_json : forall (fmt : Z -> list Z) p, emit fmt (JSimple p) = emit fmt (JPoint p None).
Proof. exact emit_simple_as_point. Qed.
Theorem C08_rect_same_json : forall (fmt : Z -> list Z) mn mx,
  emit fmt (JRect mn mx) = emit fmt (JPoly [fpt_rect_points mn mx] None).
Proof. exact emit_rect_as_polygon. Qed.
Theorem C08_simplepoint_same_answers : forall a p,
  o_contains a (OSimple p) = o_contains a (OPoint p) /\ o_intersects a (OSimple p) = o_intersects a (OPoint p).
Proof. exact simplepoint_argument. Qed.
Theorem C08_simplepoint_same_answers_receiver : forall p b,
  o_contains (OSimple p) b = o_contains (OPoint p) b /\ o_intersects (OSimple p) b = o_intersects (OPoint p) b.
Proof. exact simplepoint_receiver. Qed.

Theorem C08_require_valid_sound : forall fuel o one v g,
  require_valid o = true -> parse fuel o one v = POk g -> g_valid o g = true.
Proof. exact parse_require_valid. Qed.
Theorem C08_require_valid_exact : forall fuel o one v,
  rv_rel o (parse fuel (with_rv o false) one v) (parse fuel (with_rv o true) one v).
Proof. exact parse_rv_exact. Qed.

(* the representation options: for every document and any two settings of AllowSimplePoints / AllowRects,
   Parse accepts under one iff under the other, with identical bytes, identical validity, and a Circle under both *)
Theorem C08_representation_options_only_change_the_type : forall (fmt : Z -> list Z) fuel o a1 r1 a2 r2 one v g1,
  parse fuel (with_repr o a1 r1) one v = POk g1 ->
  exists g2, parse fuel (with_repr o a2 r2) one v = POk g2 /\
             emit fmt g2 = emit fmt g1 /\ g_valid o g2 = g_valid o g1 /\ is_circle_g g2 = is_circle_g g1.
Proof. exact repr_options_only_change_the_type. Qed.
Theorem C08_representation_options_same_rejections : forall fuel o a1 r1 a2 r2 one v,
  repr_rel (parse fuel (with_repr o a1 r1) one v) (parse fuel (with_repr o a2 r2) one v).
Proof. exact parse_repr. Qed.

Print Assumptions C08_rect_same_json.
Print Assumptions C08_representation_options_only_change_the_type.
Print Assumptions C08_require_valid_sound.
Print Assumptions C08_require_valid_exact.
Print Assumptions C08_simplepoint_same_answers.
