(* Property C03 — Contains/Within is exact.  PARTIAL: kernel-checked for the
   pairs below; containment by concave rings and polygons with holes is NOT
   proved — the pinned tree genuinely violates the property there in
   boundary-contact configurations (KNOWN_FINDINGS.txt), and those pairs are
   decided on every run by the correspondence against the Coq model (must agree)
   and the executable oracle PairSpec.covers_x (disagreements must fall in a
   listed class). *)
From Coq Require Import QArith.
From GJ Require Import Base Kernel KernelSpec KernelProofs IntersectsProofs Series SeriesSpec
  Ring RingSpec PipProofs PairProofs Jordan JordanQ JordanGP Convex LineSound LineComplete JordanRect LineRect PointPoly Holes HoleBox HoleRing.
Open Scope Z_scope.

(* X contains a point: point membership (for a single point covering = meeting) *)
Theorem C03_rect_point : forall r p, rect_contains_point r p = in_rectb r p.
Proof. exact rect_contains_point_spec. Qed.
Theorem C03_line_point : forall ps p, line_contains_point_r (Lr ps) p = in_lineb ps p.
Proof. exact line_intersects_point_spec. Qed.
Theorem C03_poly_point : forall e hs p,
  poly_contains_point (Pg e hs) p = in_polyb (ring_edges e) (map ring_edges hs) p.
Proof. exact poly_intersects_point_spec. Qed.

(* a segment contains a segment exactly when it contains both endpoints *)
Theorem C03_segment_segment : forall s o,
  seg_contains_segment s o = true <-> on_seg s (fst o) /\ on_seg s (snd o).
Proof. exact seg_contains_segment_iff. Qed.

(* rect contains rect: every (rational) point of o's box is in r's box *)
Theorem C03_rect_rect : forall r o, rect_wf o ->
  (rect_contains_rect r o = true <-> forall x y, in_rectQ o x y -> in_rectQ r x y).
Proof. exact rect_contains_rect_covers. Qed.

(* rect contains line / polygon: non-empty and every vertex in the box; a box is
   convex, so then every point of every segment is in the box *)
Theorem C03_rect_line : forall q ps,
  rect_contains_line q (Lr ps) = true <-> (2 <= length ps)%nat /\ forall p, In p ps -> in_rectb q p = true.
Proof. exact rect_contains_line_spec. Qed.
Theorem C03_rect_line_all_points : forall q ps s p,
  rect_contains_line q (Lr ps) = true -> In s (path_segs ps) -> on_seg s p -> in_rectb q p = true.
Proof. exact rect_contains_line_points. Qed.
Theorem C03_rect_poly : forall q e hs,
  rect_contains_poly q (Pg e hs) = true <-> (3 <= length e)%nat /\ forall p, In p e -> in_rectb q p = true.
Proof. exact rect_contains_poly_spec. Qed.

(* a point contains X exactly when X is non-empty and degenerates to that point *)
Theorem C03_point_rect : forall p q, point_contains_rect p q = true <-> q = (p, p).
Proof. exact point_contains_rect_spec. Qed.
Theorem C03_point_line : forall p ps,
  point_contains_line p (Lr ps) = true <-> (2 <= length ps)%nat /\ forall v, In v ps -> v = p.
Proof. exact point_contains_line_spec. Qed.

(* necessary conditions, all inputs: a ring that contains a segment contains both
   endpoints; a ring that contains a ring contains its box and (concave receiver)
   every vertex of it *)
Theorem C03_ring_segment_endpoints : forall r sg allow,
  rcs r sg allow = true -> rcp_hit r (fst sg) allow = true /\ rcp_hit r (snd sg) allow = true.
Proof. exact rcs_endpoints_in. Qed.
Theorem C03_ring_ring_box : forall r o allow,
  rcr_core r o allow = true -> rect_contains_rect (ring_rect r) (ring_rect o) = true.
Proof. exact rcr_core_rect. Qed.
Theorem C03_ring_ring_vertices : forall r o allow sg,
  rcr_core r o allow = true -> ring_convex r = false -> In sg (ring_segments o) ->
  rcp_hit r (fst sg) allow = true /\ rcp_hit r (snd sg) allow = true.
Proof. exact rcr_core_vertices. Qed.

(* strict containment of a segment by a ring not flagged convex (allowOnEdge = false: the
   test applied to holes): both ends strictly inside and no edge meets the segment ... *)
Theorem C03_ring_segment_strict_exact : forall ps A B,
  ring_convex (RS {| closed := true; pts := ps |}) = false ->
  rcs (RS {| closed := true; pts := ps |}) (A, B) false =
  strictly_in_ringb (ring_edges ps) A && strictly_in_ringb (ring_edges ps) B &&
  negb (existsb (fun e => seg_meetb e (A, B)) (ring_edges ps)).
Proof. exact ring_contains_segment_strict_exact. Qed.
(* ... which is: every rational point (P, k) = P / k of the closed segment is strictly inside
   (discrete Jordan argument, Jordan.v) *)
Theorem C03_ring_segment_strict_pointset : forall ps A B,
  ring_convex (RS {| closed := true; pts := ps |}) = false ->
  (rcs (RS {| closed := true; pts := ps |}) (A, B) false = true <->
   forall k P, 0 < k -> on_seg (sc k A, sc k B) P ->
               strictly_in_ringb (ring_edges (map (sc k) ps)) P = true).
Proof. exact ring_contains_segment_strict_pointset. Qed.
(* in general position — both ends off the boundary, no ring vertex on the segment — containment
   with contact allowed (the test applied to exteriors) is the same decision, hence exact too:
   the contact heuristics of ringContainsSegment (sites 6-11), where the known findings live, are
   not reached *)
Theorem C03_ring_segment_general_position : forall ps A B,
  ring_convex (RS {| closed := true; pts := ps |}) = false ->
  on_boundaryb (ring_edges ps) A = false -> on_boundaryb (ring_edges ps) B = false ->
  no_vertex_on ps (A, B) ->
  (rcs (RS {| closed := true; pts := ps |}) (A, B) true = true <->
   forall k P, 0 < k -> on_seg (sc k A, sc k B) P ->
               strictly_in_ringb (ring_edges (map (sc k) ps)) P = true).
Proof. exact ring_contains_segment_general_position_pointset. Qed.

(* convex rings (every vertex weakly on the inner side of every edge line; sigma = 1 counter-clockwise,
   -1 clockwise; no zero-length edges) — the typical hole: a point strictly inside is strictly on the
   inner side of every edge, so the convex shortcut of ringContainsSegment (both ends strictly inside
   => contained) is exact for strict containment *)
Theorem C03_convex_strictly_inside_inner_side : forall sigma ps p,
  (sigma = 1 \/ sigma = -1) -> hpc sigma ps -> no_zero_edges ps ->
  strictly_in_ringb (ring_edges ps) p = true ->
  forall a b, In (a, b) (ring_edges ps) -> 0 < sigma * cross a b p.
Proof. exact strictly_inside_inner_side. Qed.
Theorem C03_convex_ring_segment_strict_pointset : forall sigma ps A B,
  (sigma = 1 \/ sigma = -1) -> hpc sigma ps -> no_zero_edges ps ->
  ring_convex (RS {| closed := true; pts := ps |}) = true ->
  (rcs (RS {| closed := true; pts := ps |}) (A, B) false = true <->
   forall k P, 0 < k -> on_seg (sc k A, sc k B) P ->
               strictly_in_ringb (ring_edges (map (sc k) ps)) P = true).
Proof. exact ring_contains_segment_convex_pointset. Qed.
Example C03_convex_hypotheses_hold_somewhere :
  let ps := [(0,0); (6,0); (6,4); (0,4); (0,0)] in
  hpc 1 ps /\ no_zero_edges ps /\ ring_convex (RS {| closed := true; pts := ps |}) = true /\
  rcs (RS {| closed := true; pts := ps |}) ((1,1), (5,3)) false = true.
Proof.
  cbv zeta. split; [|split; [|split; vm_compute; reflexivity]].
  - intros a b c d Hab Hcd. vm_compute in Hab, Hcd.
    destruct Hab as [E1|[E1|[E1|[E1|[]]]]]; destruct Hcd as [E2|[E2|[E2|[E2|[]]]]];
      inversion E1; inversion E2; subst; vm_compute; split; discriminate.
  - intros a b Hab. vm_compute in Hab. destruct Hab as [E1|[E1|[E1|[E1|[]]]]]; inversion E1; subst; discriminate.
Qed.

(* non-vacuity: an L-shaped (concave) ring and a segment strictly inside it; and one that
   leaves through the notch *)
Example C03_strict_example :
  let ps := [(0,0); (6,0); (6,2); (2,2); (2,6); (0,6); (0,0)] in
  ring_convex (RS {| closed := true; pts := ps |}) = false /\
  rcs (RS {| closed := true; pts := ps |}) ((1,1), (5,1)) false = true /\
  rcs (RS {| closed := true; pts := ps |}) ((1,5), (5,1)) false = false.
Proof. vm_compute. repeat split. Qed.

(* Line.ContainsLine is exact as a point-set statement: the coverage walk accepts the argument exactly
   when every rational point of every segment of the argument lies on a segment of the receiver
   (soundness: the walk's invariant; completeness: a counting argument - beyond the current point
   there are more rational points than receiver segments, a segment not collinear with the covered
   one carries at most one of them, a collinear one that carries any reaches back to the current
   point and beyond it) *)
Theorem C03_line_contains_line_pointset : forall l o, ring_empty l = false -> ring_empty o = false ->
  (line_contains_line l o = Some true <-> line_covered_by l o).
Proof. exact line_contains_line_exact. Qed.
(* ... and Line.ContainsRect for a flat rectangle, the only kind a line string can contain *)
Theorem C03_line_contains_flat_rect_pointset : forall l mn mx, ring_empty l = false ->
  px mn = px mx \/ py mn = py mx ->
  (line_contains_rect l (mn, mx) = Some true <-> forall k P, 0 < k -> on_seg (sc k mn, sc k mx) P -> covered l k P).
Proof. exact line_contains_flat_rect_exact. Qed.
Example C03_line_examples :
  line_contains_line (Lr [(0,0);(4,0);(4,4);(9,4)]) (Lr [(2,0);(4,0);(4,3)]) = Some true /\
  line_contains_line (Lr [(0,0);(4,0);(4,4);(9,4)]) (Lr [(2,0);(5,0)]) = Some false.
Proof. split; [exact exact_yes|exact exact_no]. Qed.

(* Line.ContainsRect for every well-formed rectangle: true exactly when every rational point of the closed
   rectangle lies on a segment of the line string.  A flat rectangle is its diagonal; a rectangle of
   positive width and height holds more horizontal chords at different heights than the line string
   has segments, and each chord needs a receiver segment of its own on its carrier line *)
Theorem C03_line_contains_rect_pointset : forall ps q, ring_empty (Lr ps) = false -> rect_wf q ->
  (line_contains_rect (Lr ps) q = Some true <-> forall k P, 0 < k -> in_rectb (scr k q) P = true -> covered (Lr ps) k P).
Proof. exact line_contains_rect_exact. Qed.
(* a point contains a polygon exactly when the polygon is non-empty and all its exterior vertices are that point *)
Theorem C03_point_poly : forall p e hs,
  point_contains_poly p (Pg e hs) = true <-> (3 <= length e)%nat /\ forall v, In v e -> v = p.
Proof. exact point_contains_poly_spec. Qed.

(* strict containment of a line string of ANY length by a ring (the test applied to holes): true exactly
   when every rational point of the line string is strictly inside - the bounding-box shortcut taken for
   16 points and more is sound in this mode (HoleBox.v) *)
Theorem C03_ring_contains_line_strict_any_length : forall h qs, hole_ok h -> (2 <= length qs)%nat ->
  (ring_contains_ring (Rg h) (Lr qs) false = true <-> (3 <= length h)%nat /\ line_strictly_inside h qs).
Proof. exact rcr_line_strict_all. Qed.

(* ... and of a closed ring of ANY size by a ring (the test Poly.IntersectsPoly applies to "the other polygon
   lies in one of my holes"): true exactly when every rational point of every edge of the argument is
   strictly inside *)
Theorem C03_ring_contains_ring_strict_any_size : forall h f, hole_ok h -> (3 <= length f)%nat ->
  (ring_contains_ring (Rg h) (Rg f) false = true <->
   (3 <= length h)%nat /\ forall sg, In sg (ring_edges f) -> all_strictly_inside h (fst sg) (snd sg)).
Proof. exact ring_contains_ring_strict_exact. Qed.

Print Assumptions C03_rect_rect.
Print Assumptions C03_ring_segment_strict_exact.
Print Assumptions C03_ring_segment_strict_pointset.
Print Assumptions C03_ring_segment_general_position.
Print Assumptions C03_convex_strictly_inside_inner_side.
Print Assumptions C03_convex_ring_segment_strict_pointset.
Print Assumptions C03_rect_line.
Print Assumptions C03_rect_poly.
Print Assumptions C03_point_line.
Print Assumptions C03_ring_ring_vertices.
Print Assumptions C03_segment_segment.
Print Assumptions C03_line_contains_line_pointset.
Print Assumptions C03_line_contains_flat_rect_pointset.
Print Assumptions C03_line_contains_rect_pointset.
Print Assumptions C03_point_poly.
Print Assumptions C03_ring_contains_line_strict_any_length.
Print Assumptions C03_ring_contains_ring_strict_any_size.
