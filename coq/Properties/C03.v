(* Property C03 — placeholder until the pair theorems land. *)
From GJ Require Import Base Kernel KernelSpec KernelProofs IntersectsProofs.
Theorem C03_segment_level_symmetry : forall s o, intersects_segment s o = intersects_segment o s.
Proof. exact intersects_segment_sym. Qed.
Print Assumptions C03_segment_level_symmetry.
