(* Property C14 — the bounding rectangle of a radius search covers the whole disc.
   Over the reals, for a disc that reaches neither a pole nor the antimeridian:
   the latitude band [lat - r, lat + r] and the longitude band lon +- asin (sin r /
   cos lat) of RectFromCenter are proved to contain every location within angular
   distance r, and the angle the code computes (atan2 form, since the repair
   7efb257) is proved to be that tangent longitude; and for the whole function
   with its branches (SphereRectFull.rfc: clamping at a pole, full longitude
   range when a pole is reached or the band crosses the antimeridian) the
   rectangle is proved to contain the disc (longitudes modulo a turn) and to lie
   within the world bounds.  PARTIAL: NaN-freedom, the resolution guard and
   float64 rounding are checked on every run by flags over generated centres and
   radii (48 probes per case) and by certified interval samples. *)
From Coq Require Import Reals Lra.
From Interval Require Import Tactic.
From GJ Require Import Sphere SphereRect SphereRectFull.
Open Scope R_scope.

Theorem C14_latitude_band_covers_disc : forall lat0 lon0 lat lon r,
  lat_ok lat0 -> lat_ok lat -> 0 <= r <= PI ->
  hav lat0 lon0 lat lon <= sin (r / 2) * sin (r / 2) ->
  Rabs (rad lat - rad lat0) <= r.
Proof. exact disc_latitude_band. Qed.

(* "within angular distance r" is "within r * R metres" *)
Theorem C14_disc_in_metres : forall clat clon meters plat plon,
  lat_ok clat -> lat_ok plat -> 0 <= meters <= piR ->
  (hav plat plon clat clon <= dist_to_hav meters <-> distance_to plat plon clat clon <= meters).
Proof. exact circle_contains_point_spec. Qed.

Theorem C14_longitude_band_covers_disc : forall lat0 lon0 lat lon r,
  lat_ok lat0 -> lat_ok lat -> 0 <= r -> Rabs (rad lat0) + r < PI / 2 ->
  - PI <= rad lon - rad lon0 <= PI ->
  hav lat0 lon0 lat lon <= sin (r / 2) * sin (r / 2) ->
  Rabs (rad lon - rad lon0) <= asin (sin r / cos (rad lat0)).
Proof. exact disc_longitude_band. Qed.

Theorem C14_code_angle_is_tangent_longitude : forall lat r,
  0 <= r -> Rabs lat + r < PI / 2 ->
  atan (sin r / sqrt (cos (lat + r) * cos (lat - r))) = asin (sin r / cos lat).
Proof. exact rect_lon_is_tangent_longitude. Qed.

(* the hypotheses are satisfiable: centre (45 N, 10 E), radius 0.1 rad, a location 0.05 rad to the east *)
Example C14_hypotheses_hold_somewhere : lat_ok 45 /\ 0 <= 1 / 10 /\ Rabs (rad 45) + 1 / 10 < PI / 2.
Proof. unfold lat_ok, rad. split; [lra|]. split; [lra|]. interval. Qed.

(* MAIN: the rectangle of RectFromCenter (all branches: clamping at a pole, full longitude range when a pole is
   reached or the band crosses the antimeridian) contains every location within the angular radius; longitudes
   modulo a full turn.  rfc is geo.go's function after the resolution guard, over the reals, in radians. *)
Theorem C14_rectangle_covers_disc : forall lat0 lon0 r lat lon,
  lat_ok lat0 -> lon_ok lon0 -> lat_ok lat -> lon_ok lon -> 0 <= r <= PI ->
  Rabs (rad lat0) + r <> PI / 2 ->
  hav lat0 lon0 lat lon <= sin (r / 2) * sin (r / 2) ->
  let '(mnLat, mnLon, mxLat, mxLon) := rfc lat0 lon0 r in
  mnLat <= rad lat <= mxLat /\
  exists j : Z, (-1 <= j <= 1)%Z /\ mnLon <= rad lon + 2 * PI * IZR j <= mxLon.
Proof. exact rfc_covers. Qed.

Theorem C14_rectangle_in_world_bounds : forall lat0 lon0 r,
  let '(mnLat, mnLon, mxLat, mxLon) := rfc lat0 lon0 r in
  - (PI / 2) <= mnLat /\ mxLat <= PI / 2 /\ - PI <= mnLon /\ mxLon <= PI.
Proof. exact rfc_in_bounds. Qed.

(* non-vacuity of the main theorem's hypotheses *)
Example C14_rectangle_hypotheses_hold_somewhere : lat_ok 45 /\ lon_ok 10 /\ 0 <= 1 / 10 <= PI /\ Rabs (rad 45) + 1 / 10 <> PI / 2 /\
  hav 45 10 45 10 <= sin ((1 / 10) / 2) * sin ((1 / 10) / 2).
Proof.
  unfold lat_ok, lon_ok. rewrite hav_refl. repeat split; try lra.
  - interval.
  - apply Rlt_not_eq. unfold rad. interval.
  - nra.
Qed.

Print Assumptions C14_latitude_band_covers_disc.
Print Assumptions C14_longitude_band_covers_disc.
Print Assumptions C14_rectangle_covers_disc.
