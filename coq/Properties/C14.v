(* Property C14 — the bounding rectangle of a radius search covers the whole disc.
   PARTIAL: over the reals the latitude band [lat - r, lat + r] of RectFromCenter
   is proved to contain every location within angular distance r; the
   tangent-longitude bound, the pole / antimeridian widening, the world bounds
   and NaN-freedom are checked on every run by flags over generated centres and
   radii (48 probes per case) and by certified interval samples. *)
From Coq Require Import Reals.
From GJ Require Import Sphere.
Open Scope R_scope.

Theorem C14_latitude_band_covers_disc : forall lat0 lon0 lat lon r,
  lat_ok lat0 -> lat_ok lat -> 0 <= r <= PI ->
  hav lat0 lon0 lat lon <= sin (r / 2) * sin (r / 2) ->
  Rabs (rad lat - rad lat0) <= r.
Proof. exact disc_latitude_band. Qed.

(* "within angular distance r" is "within r * R metres" *)
Theorem C14_disc_in_metres : forall clat clon meters plat plon,
  lat_ok clat -> lat_ok plat -> 0 <= meters <= piR ->
  (hav plat plon clat clon <= dist_to_hav meters <-> distance_to plat plon clat clon <= meters).
Proof. exact circle_contains_point_spec. Qed.

Print Assumptions C14_latitude_band_covers_disc.
