(* Property C01 — point membership (point-in-polygon/rect/line) is exact.
   Only statements, each closed by the lemma that proves it. *)
From Coq Require Import Sorting.Permutation.
From GJ Require Import Base Kernel KernelSpec Series SeriesSpec Ring RingSpec PipProofs Jordan Crossing MirrorY.

(* ring: on the boundary -> allowOnEdge, else crossing parity; any vertex
   sequence, closed or not, repeated vertices, self-intersecting *)
Theorem C01_ring : forall ps p allow,
  rcp_hit (RS {| closed := true; pts := ps |}) p allow =
  if on_boundaryb (ring_edges ps) p then allow else parityb (ring_edges ps) p.
Proof. exact ring_contains_point_spec. Qed.

(* polygon: exterior inclusive, holes exclusive (hole boundaries belong to the polygon) *)
Theorem C01_polygon : forall e hs p,
  poly_contains_point {| exterior := RS {| closed := true; pts := e |};
                         holes := map (fun h => RS {| closed := true; pts := h |}) hs |} p
  = in_polyb (ring_edges e) (map ring_edges hs) p.
Proof. exact poly_contains_point_spec. Qed.

Theorem C01_rect : forall r p, rect_contains_point r p = in_rectb r p.
Proof. exact rect_contains_point_spec. Qed.

Theorem C01_line : forall ps p, line_contains_point {| closed := false; pts := ps |} p = in_lineb ps p.
Proof. exact line_contains_point_spec. Qed.

(* the answer does not depend on the order in which a segment index reports
   the candidate segments (with C04: nor on the index kind / threshold) *)
Theorem C01_order_independent : forall allow p l l' inn,
  Permutation l l' -> fst (pip_fold allow p l inn) = fst (pip_fold allow p l' inn).
Proof. exact pip_fold_perm. Qed.

(* a Rect used as a ring answers as the closed box *)
Theorem C01_rect_as_ring : forall q p, px (fst q) <= px (snd q) -> py (fst q) <= py (snd q) ->
  rcp_hit (RR q) p true = in_rectb q p.
Proof. exact rect_ring_pip. Qed.

(* the specification's parity is the parity of the number of crossed edges *)
Theorem C01_parity_reading : forall sgs p,
  parityb sgs p = Nat.odd (length (filter (fun s => crossesb s p) sgs)).
Proof. exact parityb_odd. Qed.

(* the crossing parity does not depend on the direction of the ray: along any non-horizontal
   segment with both ends off the boundary, the two ends' parities differ by the parity of the
   edges crossing the segment (half-open rule along it); with the far end outside the ring this
   is the parity counted by a ray in that direction *)
Theorem C01_ray_direction_independent : forall ps L H, py L < py H ->
  on_boundaryb (ring_edges ps) L = false -> on_boundaryb (ring_edges ps) H = false ->
  xorb (parityb (ring_edges ps) L) (parityb (ring_edges ps) H) = xfold (Xc L H) (ring_edges ps).
Proof. exact crossing_parity. Qed.
(* e.g. a ray upwards (the transposed ring and point) decides the same membership *)
Theorem C01_upward_ray : forall ps p,
  in_ringb (ring_edges (map tr ps)) (tr p) = in_ringb (ring_edges ps) p.
Proof. exact in_ringb_tr. Qed.

Print Assumptions C01_ring.
Print Assumptions C01_ray_direction_independent.
Print Assumptions C01_upward_ray.
Print Assumptions C01_polygon.
Print Assumptions C01_rect.
Print Assumptions C01_line.
Print Assumptions C01_order_independent.
Print Assumptions C01_rect_as_ring.
Print Assumptions C01_parity_reading.
