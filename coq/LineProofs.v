(* LineProofs.v — property C05 for Line.ContainsLine:
   (1) the pinned segment walk (geometry/line.go before the repair) DIVERGES on a
       concrete pair of lines: for every amount of fuel it is still running;
   (2) the repaired covering walk always returns within 2*segments+2 steps: the
       model's fuel is adequate, so [line_contains_line] never answers None. *)
From Coq Require Import Lia.
From GJ Require Import Base Kernel KernelSpec Series SeriesSpec Ring.
Open Scope Z_scope.

(* ------------------------------------------------------------------ *)
(* 1. the pinned walk oscillates between two adjacent segments (finding F4) *)

Definition f4_ls : list seg := [((0, 0), (5, 0)); ((5, 0), (10, 0))].
Definition f4_os : list seg := [((6, 0), (5, 0)); ((5, 0), (5, 5))].

Lemma f4_step1 f : cl_walk (S f) f4_ls f4_os 1 1 = cl_walk f f4_ls f4_os 0 1.
Proof. reflexivity. Qed.
Lemma f4_step0 f : cl_walk (S f) f4_ls f4_os 0 1 = cl_walk f f4_ls f4_os 1 1.
Proof. reflexivity. Qed.

Theorem contains_line_pinned_diverges :
  forall fuel, cl_walk fuel f4_ls f4_os 1 1 = None /\ cl_walk fuel f4_ls f4_os 0 1 = None.
Proof.
  induction fuel as [|f [IH1 IH0]]; [split; reflexivity|].
  split; [rewrite f4_step1; exact IH0|rewrite f4_step0; exact IH1].
Qed.

(* the same through the entry point: [(0,0),(5,0),(10,0)].ContainsLine([(6,0),(5,0),(5,5)]) never returns *)
Theorem contains_line_pinned_refuted :
  forall fuel,
    line_contains_line_pinned fuel (RS {| closed := false; pts := [(0, 0); (5, 0); (10, 0)] |})
                                   (RS {| closed := false; pts := [(6, 0); (5, 0); (5, 5)] |}) = None.
Proof.
  intros fuel.
  change (line_contains_line_pinned fuel _ _) with (cl_walk fuel f4_ls f4_os 1 1).
  apply contains_line_pinned_diverges.
Qed.

(* ------------------------------------------------------------------ *)
(* 2. the repaired walk: every step strictly increases the distance along the
      segment, and that distance is the projection of one of finitely many
      segment ends                                                        *)

Definition ends (l : rng) : list pt := flat_map (fun s => [fst s; snd s]) (ring_segments l).

(* what one pass returns: the start value, or the projection of a segment end, never smaller than the start *)
Lemma covers_step_result (l : rng) (sg : seg) (cur : pt) (curd : Z) :
  let r := covers_step l sg cur curd in
  curd <= snd r /\ (r = (cur, curd) \/ (In (fst r) (ends l) /\ snd r = dotp (fst sg) (snd sg) (fst r) /\ curd < snd r)).
Proof.
  unfold covers_step. destruct sg as [a b]. cbn [fst snd].
  assert (G : forall (cands : list (seg * nat)) (acc : pt * Z),
            (forall si, In si cands -> In (fst si) (ring_segments l)) ->
            curd <= snd acc /\ (acc = (cur, curd) \/ (In (fst acc) (ends l) /\ snd acc = dotp a b (fst acc) /\ curd < snd acc)) ->
            let r := fold_left
              (fun acc0 (si : seg * nat) =>
                 let s := fst si in
                 if collinear_point s a && collinear_point s b && raycast_on s cur then
                   let acc1 := let d := dotp a b (fst s) in if snd acc0 <? d then (fst s, d) else acc0 in
                   let d := dotp a b (snd s) in if snd acc1 <? d then (snd s, d) else acc1
                 else acc0) cands acc in
            curd <= snd r /\ (r = (cur, curd) \/ (In (fst r) (ends l) /\ snd r = dotp a b (fst r) /\ curd < snd r))).
  { induction cands as [|si cands IH]; intros acc Hin Hacc; cbn [fold_left]; [exact Hacc|].
    apply IH; [intros x Hx; apply Hin; right; exact Hx|].
    assert (Hs : In (fst si) (ring_segments l)) by (apply Hin; left; reflexivity).
    assert (E1 : In (fst (fst si)) (ends l)).
    { unfold ends. apply in_flat_map. exists (fst si). split; [exact Hs|left; reflexivity]. }
    assert (E2 : In (snd (fst si)) (ends l)).
    { unfold ends. apply in_flat_map. exists (fst si). split; [exact Hs|right; left; reflexivity]. }
    cbv zeta. destruct (collinear_point (fst si) a && collinear_point (fst si) b && raycast_on (fst si) cur); [|exact Hacc].
    destruct Hacc as [Hle Hacc].
    destruct (Z.ltb_spec (snd acc) (dotp a b (fst (fst si)))) as [L1|L1]; cbn [fst snd].
    - destruct (Z.ltb_spec (dotp a b (fst (fst si))) (dotp a b (snd (fst si)))) as [L2|L2]; cbn [fst snd].
      + split; [lia|]. right. repeat split; [exact E2|lia].
      + split; [lia|]. right. repeat split; [exact E1|lia].
    - destruct (Z.ltb_spec (snd acc) (dotp a b (snd (fst si)))) as [L2|L2]; cbn [fst snd].
      + split; [lia|]. right. repeat split; [exact E2|lia].
      + split; [exact Hle|exact Hacc]. }
  apply G.
  - intros si Hsi. unfold ring_search in Hsi. apply filter_In in Hsi. destruct Hsi as [Hsi _].
    unfold indexed in Hsi. destruct si as [s0 i0]. apply in_combine_l in Hsi. exact Hsi.
  - cbn [snd]. split; [lia|left; reflexivity].
Qed.

(* the segment ends whose projection is still ahead of the walk *)
Definition ahead (l : rng) (sg : seg) (d : Z) : list pt :=
  filter (fun e => d <? dotp (fst sg) (snd sg) e) (ends l).

Lemma ahead_shrinks (l : rng) (sg : seg) (d d' : Z) (e : pt) :
  In e (ends l) -> d < dotp (fst sg) (snd sg) e -> d' = dotp (fst sg) (snd sg) e ->
  (length (ahead l sg d') < length (ahead l sg d))%nat.
Proof.
  intros Hin Hlt ->. unfold ahead. set (f := dotp (fst sg) (snd sg)) in *.
  induction (ends l) as [|x xs IH]; [destruct Hin|].
  cbn [filter].
  assert (Mono : forall ys : list pt, (length (filter (fun e0 => (f e <? f e0)%Z) ys) <= length (filter (fun e0 => (d <? f e0)%Z) ys))%nat).
  { induction ys as [|y ys IHy]; cbn [filter]; [lia|].
    destruct (Z.ltb_spec (f e) (f y)), (Z.ltb_spec d (f y)); cbn [length]; lia. }
  destruct Hin as [->|Hin].
  - rewrite Z.ltb_irrefl. destruct (Z.ltb_spec d (f e)); [|lia]. cbn [length]. pose proof (Mono xs). lia.
  - specialize (IH Hin). destruct (Z.ltb_spec (f e) (f x)), (Z.ltb_spec d (f x)); cbn [length]; lia.
Qed.

(* fuel: one more than the number of ends still ahead always suffices *)
Lemma covers_walk_terminates (l : rng) (sg : seg) : forall fuel cur curd,
  (length (ahead l sg curd) < fuel)%nat -> covers_walk fuel l sg cur curd <> None.
Proof.
  induction fuel as [|f IH]; intros cur curd Hf; [lia|].
  cbn [covers_walk]. pose proof (covers_step_result l sg cur curd) as R. cbv zeta in R.
  destruct (covers_step l sg cur curd) as [best bestd]. cbn [fst snd] in R.
  destruct (dotp (fst sg) (snd sg) (snd sg) <=? bestd); [discriminate|].
  destruct (Z.ltb_spec curd bestd) as [Lt|Ge]; cbn [negb]; [|discriminate].
  destruct R as [_ [E|(Hin & Hd & _)]]; [inversion E; lia|].
  apply IH. pose proof (ahead_shrinks l sg curd bestd best Hin ltac:(lia) Hd). lia.
Qed.

Lemma filter_len_le {A} (f : A -> bool) (xs : list A) : (length (filter f xs) <= length xs)%nat.
Proof. induction xs as [|x xs IH]; cbn [filter length]; [lia|]. destruct (f x); cbn [length]; lia. Qed.

Lemma ahead_bound (l : rng) (sg : seg) (d : Z) : (length (ahead l sg d) <= 2 * length (ring_segments l))%nat.
Proof.
  unfold ahead. etransitivity; [apply filter_len_le|].
  unfold ends. induction (ring_segments l) as [|s ss IH]; cbn [flat_map length app]; lia.
Qed.

(* MAIN: the fuel of the model is adequate — Line.ContainsLine always returns *)
Theorem line_covers_segment_total (l : rng) (sg : seg) : line_covers_segment l sg <> None.
Proof.
  unfold line_covers_segment. destruct (pt_eqb (fst sg) (snd sg)); [discriminate|].
  apply covers_walk_terminates. unfold covers_fuel. pose proof (ahead_bound l sg 0). lia.
Qed.

Lemma all_some_total (xs : list (option bool)) : (forall x, In x xs -> x <> None) -> all_some xs <> None.
Proof.
  induction xs as [|x xs IH]; intros H; [discriminate|].
  cbn [all_some]. destruct x as [[|]|]; [|discriminate|exfalso; apply (H None); [left; reflexivity|reflexivity]].
  apply IH. intros y Hy. apply H. right; exact Hy.
Qed.

Theorem line_contains_line_total (l o : rng) : line_contains_line l o <> None.
Proof.
  unfold line_contains_line. destruct (ring_empty l || ring_empty o); [discriminate|].
  apply all_some_total. intros x Hx. apply in_map_iff in Hx. destruct Hx as (sg & <- & _).
  apply line_covers_segment_total.
Qed.

Theorem line_contains_poly_total (l : rng) (p : poly) : line_contains_poly l p <> None.
Proof.
  unfold line_contains_poly. destruct (ring_empty l || poly_empty p); [discriminate|].
  destruct (poly_rect p) as [mn mx].
  destruct (negb (px mn =? px mx) && negb (py mn =? py mx)); [discriminate|apply line_contains_line_total].
Qed.

Print Assumptions contains_line_pinned_refuted.
Print Assumptions line_contains_line_total.
