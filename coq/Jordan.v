(* Jordan.v — properties C02 / C03 (ring level): a discrete Jordan-curve argument.
   For ANY closed vertex sequence (repeated vertices, zero-length edges and
   self-intersections included) and any grid segment L-H:
   - if no ring edge meets the segment, both endpoints have the same crossing parity
     (parity_constant_off_boundary);
   - if both endpoints are strictly outside (off the boundary, even parity) and
     some ring edge meets the segment, then at least two edges (counted by position)
     meet it (two_edges_meet) — the fact ringIntersectsSegment's "count >= 2" rule
     relies on;
   hence ringIntersectsSegment with allowOnEdge is exactly
   "an endpoint is in the closed ring, or an edge meets the segment"
   (ring_intersects_segment_exact).
   The per-edge step is an identity between the two ray-crossing indicators and
   the indicator of the half-open region between the two rays, right of the segment. *)
From Coq Require Import ZArith Bool List Lia.
From GJ Require Import Base Kernel KernelSpec Series SeriesSpec Ring RingSpec
  RaycastProofs KernelProofs IntersectsProofs SeriesProofs PipProofs PairProofs.
Import ListNotations.
Open Scope Z_scope.

(* ------------------------------------------------------------------ *)
(* 1. the arithmetic of one edge against one segment                    *)
(* ------------------------------------------------------------------ *)

Definition crs (ay by_ p c : Z) : bool :=
  ((ay <=? p) && (p <? by_) && (0 <? c)) || ((by_ <=? p) && (p <? ay) && (c <? 0)).
Definition fRz (ly hy vy c : Z) : bool := (ly <? vy) && (vy <=? hy) && (c <? 0).
Definition wopp (x y : Z) : Prop := x <= 0 <= y \/ y <= 0 <= x.
Definition sopp (x y : Z) : Prop := x < 0 < y \/ y < 0 < x.

Ltac dcmp :=
  repeat (match goal with
  | |- context [?x <=? ?y] => destruct (Z.leb_spec x y)
  | |- context [?x <? ?y] => destruct (Z.ltb_spec x y)
  end; cbn [andb orb xorb negb]; try lia).

Lemma edge_arith_nomeet ay by_ ly hy cL cH ca cb R :
  ly <= hy -> (by_ - ay) * ca + (hy - ly) * cL + (ay - ly) * R = 0 -> cH = cL + R -> cb = ca - R ->
  ~ (R <> 0 /\ wopp cL cH /\ wopp ca cb) ->
  xorb (crs ay by_ ly cL) (crs ay by_ hy cH) = xorb (fRz ly hy ay ca) (fRz ly hy by_ cb).
Proof.
  intros Hy E1 E2 E3 N. unfold wopp in N. subst cH cb. unfold crs, fRz.
  dcmp; try reflexivity; exfalso.
  all: try (apply N; nia).
  all: nia.
Qed.

Lemma edge_arith_proper ay by_ ly hy cL cH ca cb R :
  ly <= hy -> (by_ - ay) * ca + (hy - ly) * cL + (ay - ly) * R = 0 -> cH = cL + R -> cb = ca - R ->
  (by_ = ay -> hy = ly -> R = 0) ->
  sopp cL cH -> sopp ca cb ->
  xorb (crs ay by_ ly cL) (crs ay by_ hy cH) = negb (xorb (fRz ly hy ay ca) (fRz ly hy by_ cb)).
Proof.
  intros Hy E1 E2 E3 P S1 S2. unfold sopp in *. subst cH cb. unfold crs, fRz.
  dcmp; try reflexivity; exfalso.
  all: nia.
Qed.

(* ------------------------------------------------------------------ *)
(* 2. one edge against one segment, on points                           *)
(* ------------------------------------------------------------------ *)

(* v lies in the half-open band between the two rays and strictly right of L->H *)
Definition fR (L H v : pt) : bool := (py L <? py v) && (py v <=? py H) && (cross L H v <? 0).

Lemma crossesb_crs a b p : crossesb (a, b) p = crs (py a) (py b) (py p) (cross a b p).
Proof. reflexivity. Qed.

Lemma id_E1 a b L H :
  (py b - py a) * cross L H a + (py H - py L) * cross a b L + (py a - py L) * rxs a b L H = 0.
Proof. unfold cross, rxs. ring. Qed.

(* transversal lines, endpoints weakly on opposite sides both ways: the segments meet *)
Lemma weak_meet a b c d :
  rxs a b c d <> 0 -> wopp (cross a b c) (cross a b d) -> wopp (cross c d a) (cross c d b) ->
  seg_meet (a, b) (c, d).
Proof.
  intros HR W1 W2. unfold wopp in *.
  pose proof (id_B a b c d) as HB. pose proof (id_D a b c d) as HD.
  destruct (Z.eq_dec (cross a b c) 0) as [EA|NA].
  - rewrite seg_meet_unfold. left.
    pose proof (id_ax a b c d) as Hax. pose proof (id_ay a b c d) as Hay.
    rewrite EA in *. rewrite Z.mul_0_l, Z.sub_0_l in Hax, Hay.
    set (C := cross c d a) in *. set (R := rxs a b c d) in *.
    assert (H1 : (0 < R /\ 0 <= C <= R) \/ (R < 0 /\ R <= C <= 0)) by lia.
    assert (Hx : R * (px c - px a) = C * (px b - px a)) by lia.
    assert (Hy : R * (py c - py a) = C * (py b - py a)) by lia.
    pose proof (frac_between C R (px c - px a) (px b - px a) Hx H1).
    pose proof (frac_between C R (py c - py a) (py b - py a) Hy H1).
    unfold on_seg. split; [exact EA|]. lia.
  - apply transversal_meet; [exact NA|exact HR|]. unfold unit_fracP. lia.
Qed.

Lemma edge_nomeet a b L H :
  py L <= py H -> ~ seg_meet (a, b) (L, H) ->
  xorb (crossesb (a, b) L) (crossesb (a, b) H) = xorb (fR L H a) (fR L H b).
Proof.
  intros Hy N. rewrite !crossesb_crs.
  change (fR L H a) with (fRz (py L) (py H) (py a) (cross L H a)).
  change (fR L H b) with (fRz (py L) (py H) (py b) (cross L H b)).
  apply (edge_arith_nomeet _ _ _ _ _ _ _ _ (rxs a b L H)).
  - exact Hy.
  - apply id_E1.
  - apply id_B.
  - apply id_D.
  - intros (HR & W1 & W2). apply N. apply weak_meet; assumption.
Qed.

Lemma edge_proper a b L H :
  py L <= py H -> opp a b L H -> opp L H a b ->
  xorb (crossesb (a, b) L) (crossesb (a, b) H) = negb (xorb (fR L H a) (fR L H b)).
Proof.
  intros Hy O1 O2. rewrite !crossesb_crs.
  change (fR L H a) with (fRz (py L) (py H) (py a) (cross L H a)).
  change (fR L H b) with (fRz (py L) (py H) (py b) (cross L H b)).
  apply (edge_arith_proper _ _ _ _ _ _ _ _ (rxs a b L H)).
  - exact Hy.
  - apply id_E1.
  - apply id_B.
  - apply id_D.
  - intros E1 E2. unfold rxs. rewrite E1, E2. ring.
  - unfold opp, sopp in *. lia.
  - unfold opp, sopp in *. lia.
Qed.

(* ------------------------------------------------------------------ *)
(* 3. around a closed ring                                              *)
(* ------------------------------------------------------------------ *)

Lemma parityb_xfold sgs p : parityb sgs p = xfold (fun s => crossesb s p) sgs.
Proof. reflexivity. Qed.

Lemma xfold_xor {A : Type} (f g : A -> bool) (l : list A) :
  xorb (xfold f l) (xfold g l) = xfold (fun x => xorb (f x) (g x)) l.
Proof.
  induction l as [|x l IH]; [reflexivity|]. unfold xfold in *. cbn [fold_right]. rewrite <- IH.
  destruct (f x), (g x), (fold_right _ false l), (fold_right _ false l); reflexivity.
Qed.

Definition gdiff (L H : pt) (e : seg) : bool := xorb (crossesb e L) (crossesb e H).
Definition ftel (L H : pt) (e : seg) : bool := xorb (fR L H (fst e)) (fR L H (snd e)).

Lemma parity_diff sgs L H : xorb (parityb sgs L) (parityb sgs H) = xfold (gdiff L H) sgs.
Proof. rewrite !parityb_xfold, xfold_xor. reflexivity. Qed.

(* J, ordered: no edge meets the segment => same parity at both ends *)
Lemma parity_constant_ordered (ps : list pt) (L H : pt) :
  py L <= py H ->
  (forall e, In e (ring_edges ps) -> ~ seg_meet e (L, H)) ->
  parityb (ring_edges ps) L = parityb (ring_edges ps) H.
Proof.
  intros Hy N. apply xorb_eq. rewrite parity_diff.
  rewrite (xfold_ext _ (ftel L H)); [apply ring_edges_telescope|].
  intros [a b] Hin. unfold gdiff, ftel. cbn [fst snd]. apply edge_nomeet; [exact Hy|apply N; exact Hin].
Qed.

Lemma on_seg_swap a b p : on_seg (a, b) p <-> on_seg (b, a) p.
Proof.
  unfold on_seg. rewrite (Z.min_comm (px b)), (Z.max_comm (px b)), (Z.min_comm (py b)), (Z.max_comm (py b)).
  assert (E : cross b a p = 0 <-> cross a b p = 0) by (unfold cross; split; intros; nia). tauto.
Qed.

Lemma seg_meet_swap_r s a b : seg_meet s (a, b) <-> seg_meet s (b, a).
Proof.
  destruct s as [c d]. rewrite !seg_meet_unfold. rewrite (on_seg_swap a b c), (on_seg_swap a b d).
  assert (O1 : opp c d a b <-> opp c d b a) by (unfold opp; tauto).
  assert (O2 : opp a b c d <-> opp b a c d).
  { unfold opp. assert (forall p, cross b a p = - cross a b p) as E by (intros; unfold cross; ring).
    rewrite !E. lia. }
  tauto.
Qed.

(* J: the crossing parity is constant along any grid segment no ring edge meets *)
Theorem parity_constant_off_boundary (ps : list pt) (A B : pt) :
  (forall e, In e (ring_edges ps) -> ~ seg_meet e (A, B)) ->
  parityb (ring_edges ps) A = parityb (ring_edges ps) B.
Proof.
  intros N. destruct (Z.le_ge_cases (py A) (py B)) as [Hy|Hy].
  - apply parity_constant_ordered; assumption.
  - symmetry. apply parity_constant_ordered; [exact Hy|].
    intros e Hin Hm. apply (N e Hin). apply seg_meet_swap_r. exact Hm.
Qed.

(* ------------------------------------------------------------------ *)
(* 4. closed chains: every vertex of an edge belongs to another edge    *)
(* ------------------------------------------------------------------ *)

Lemma path_segs_cons2 x y r : path_segs (x :: y :: r) = (x, y) :: path_segs (y :: r).
Proof. reflexivity. Qed.

Lemma path_segs_snoc (l : list pt) (a : pt) :
  l <> [] -> path_segs (l ++ [a]) = path_segs l ++ [(last l pt0, a)].
Proof.
  induction l as [|x l IH]; [congruence|]. intros _.
  destruct l as [|y r]; [reflexivity|].
  change ((x :: y :: r) ++ [a]) with (x :: y :: (r ++ [a])).
  rewrite !path_segs_cons2. change (y :: r ++ [a]) with ((y :: r) ++ [a]). rewrite IH by congruence.
  reflexivity.
Qed.

Lemma ring_edges_closed_path (ps : list pt) :
  (3 <= length ps)%nat ->
  exists qs, ring_edges ps = path_segs qs /\ hd pt0 qs = last qs pt0 /\ (3 <= length qs)%nat.
Proof.
  intros H3. unfold ring_edges, segments_spec. cbn [closed pts].
  destruct (Nat.ltb_spec (length ps) 3) as [?|_]; [lia|].
  destruct (pt_eqb (last ps pt0) (hd pt0 ps)) eqn:E.
  - apply pt_eqb_eq in E. exists ps. split; [reflexivity|]. split; [symmetry; exact E|exact H3].
  - exists (ps ++ [hd pt0 ps]). assert (Hne : ps <> []) by (intros ->; cbn in H3; lia).
    split; [symmetry; apply path_segs_snoc; exact Hne|]. split.
    + rewrite last_last. destruct ps; [congruence|reflexivity].
    + rewrite app_length. cbn. lia.
Qed.

Lemma path_segs_split (l : list pt) : forall E1 a b E2,
  path_segs l = E1 ++ (a, b) :: E2 ->
  exists l1 l2, l = l1 ++ a :: b :: l2 /\ E1 = path_segs (l1 ++ [a]) /\ E2 = path_segs (b :: l2).
Proof.
  induction l as [|x l IH]; intros E1 a b E2 H.
  - destruct E1; discriminate H.
  - destruct l as [|y r]; [destruct E1; discriminate H|].
    rewrite path_segs_cons2 in H. destruct E1 as [|e E1'].
    + cbn [app] in H. injection H as Hx Hy HE. subst x y. exists [], r. repeat split. symmetry; exact HE.
    + cbn [app] in H. injection H as He HE. subst e.
      destruct (IH E1' a b E2 HE) as (l1' & l2 & Hl & H1 & H2).
      exists (x :: l1'), l2. split; [cbn [app]; rewrite Hl; reflexivity|]. split; [|exact H2].
      destruct l1' as [|z l1''].
      * cbn [app] in Hl. injection Hl as Hy _. subst a. rewrite H1. reflexivity.
      * cbn [app] in Hl. injection Hl as Hy _. subst z. rewrite H1. reflexivity.
Qed.

Lemma path_segs_last_in (l : list pt) :
  (2 <= length l)%nat -> exists x, In (x, last l pt0) (path_segs l).
Proof.
  induction l as [|x l IH]; [cbn; lia|]. intros H2.
  destruct l as [|y r]; [cbn in H2; lia|]. destruct r as [|z r'].
  - exists x. left. reflexivity.
  - destruct IH as [w Hw]; [cbn; lia|]. exists w. rewrite path_segs_cons2. right. exact Hw.
Qed.

Lemma path_segs_hd_in (l : list pt) :
  (2 <= length l)%nat -> exists y, In (hd pt0 l, y) (path_segs l).
Proof.
  destruct l as [|x [|y r]]; cbn [length]; try lia. intros _. exists y. left. reflexivity.
Qed.

Lemma closed_neighbours (l : list pt) E1 a b E2 :
  hd pt0 l = last l pt0 -> (3 <= length l)%nat -> path_segs l = E1 ++ (a, b) :: E2 ->
  (exists e, In e (E1 ++ E2) /\ snd e = a) /\ (exists e, In e (E1 ++ E2) /\ fst e = b).
Proof.
  intros Hc H3 Hs. destruct (path_segs_split l E1 a b E2 Hs) as (l1 & l2 & Hl & H1 & H2). split.
  - destruct l1 as [|x l1'].
    + (* a is the first vertex = the last vertex *)
      cbn [app] in Hl. subst l. cbn [hd] in Hc.
      assert (Hl2 : l2 <> []) by (intros ->; cbn in H3; lia).
      destruct (path_segs_last_in (b :: l2)) as [w Hw]; [destruct l2; [congruence|cbn; lia]|].
      exists (w, last (b :: l2) pt0). split; [apply in_or_app; right; rewrite H2; exact Hw|].
      cbn [snd]. change (last (a :: b :: l2) pt0) with (last (b :: l2) pt0) in Hc. symmetry; exact Hc.
    + destruct (path_segs_last_in ((x :: l1') ++ [a])) as [w Hw]; [rewrite app_length; cbn; lia|].
      rewrite last_last in Hw. exists (w, a). split; [apply in_or_app; left; rewrite H1; exact Hw|reflexivity].
  - destruct l2 as [|y l2'].
    + (* b is the last vertex = the first vertex *)
      assert (Hl1 : l1 <> []) by (intros ->; subst l; cbn in H3; lia).
      assert (Hb : last l pt0 = b).
      { subst l. change (l1 ++ a :: [b]) with (l1 ++ [a] ++ [b]). rewrite app_assoc. apply last_last. }
      destruct (path_segs_hd_in (l1 ++ [a])) as [w Hw]; [rewrite app_length; destruct l1; [congruence|cbn; lia]|].
      exists (hd pt0 (l1 ++ [a]), w). split; [apply in_or_app; left; rewrite H1; exact Hw|].
      cbn [fst]. rewrite <- Hb, <- Hc. subst l. destruct l1; [congruence|reflexivity].
    + exists (b, y). split; [apply in_or_app; right; rewrite H2; left; reflexivity|reflexivity].
Qed.

(* a list with some, but fewer than two, elements satisfying f has exactly one *)
Lemma filter_lt2_split {A : Type} (f : A -> bool) (l : list A) :
  existsb f l = true -> (length (filter f l) < 2)%nat ->
  exists l1 x l2, l = l1 ++ x :: l2 /\ f x = true /\ (forall y, In y (l1 ++ l2) -> f y = false).
Proof.
  induction l as [|x l IH]; cbn [existsb filter]; [discriminate|]. intros He Hl.
  destruct (f x) eqn:Ex.
  - exists [], x, l. split; [reflexivity|]. split; [exact Ex|]. cbn [app length] in *.
    intros y Hy. destruct (f y) eqn:Ey; [|reflexivity]. exfalso.
    assert (In y (filter f l)) by (apply filter_In; split; assumption).
    destruct (filter f l); [contradiction|cbn in Hl; lia].
  - cbn [orb] in He. destruct (IH He Hl) as (l1 & z & l2 & -> & Hz & Hall).
    exists (x :: l1), z, l2. split; [reflexivity|]. split; [exact Hz|].
    intros y [<-|Hy]; [exact Ex|apply Hall; exact Hy].
Qed.

(* K, ordered *)
Lemma two_edges_meet_ordered (ps : list pt) (L H : pt) (m : seg -> bool) :
  py L <= py H ->
  (forall e, m e = true <-> seg_meet e (L, H)) ->
  in_ringb (ring_edges ps) L = false -> in_ringb (ring_edges ps) H = false ->
  existsb m (ring_edges ps) = true ->
  (2 <= length (filter m (ring_edges ps)))%nat.
Proof.
  intros Hy Hm HL HH Hex.
  destruct (le_lt_dec 2 (length (filter m (ring_edges ps)))) as [G|Lt]; [exact G|exfalso].
  destruct (filter_lt2_split m _ Hex Lt) as (E1 & e0 & E2 & HE & Hm0 & Hall).
  unfold in_ringb in HL, HH. apply orb_false_iff in HL, HH. destruct HL as [BL PL], HH as [BH PH].
  assert (H3 : (3 <= length ps)%nat).
  { destruct (le_lt_dec 3 (length ps)) as [?|S]; [assumption|].
    rewrite (ring_edges_short ps S) in HE. destruct E1; discriminate HE. }
  destruct (ring_edges_closed_path ps H3) as (qs & Hqs & Hclosed & Hq3).
  destruct e0 as [a b].
  (* the other edges telescope *)
  pose proof (parity_diff (ring_edges ps) L H) as PD. rewrite PL, PH in PD. cbn [xorb] in PD.
  pose proof (ring_edges_telescope (fR L H) ps) as TE. fold (ftel L H) in TE.
  change (fun s : seg => xorb (fR L H (fst s)) (fR L H (snd s))) with (ftel L H) in TE.
  rewrite HE in PD, TE.
  assert (X1 : xfold (gdiff L H) E1 = xfold (ftel L H) E1).
  { apply xfold_ext. intros [c d] Hin. unfold gdiff, ftel. cbn [fst snd]. apply edge_nomeet; [exact Hy|].
    intros Hmeet. apply Hm in Hmeet. rewrite Hall in Hmeet; [discriminate|apply in_or_app; left; exact Hin]. }
  assert (X2 : xfold (gdiff L H) E2 = xfold (ftel L H) E2).
  { apply xfold_ext. intros [c d] Hin. unfold gdiff, ftel. cbn [fst snd]. apply edge_nomeet; [exact Hy|].
    intros Hmeet. apply Hm in Hmeet. rewrite Hall in Hmeet; [discriminate|apply in_or_app; right; exact Hin]. }
  change (E1 ++ (a, b) :: E2) with (E1 ++ [(a, b)] ++ E2) in PD, TE.
  rewrite !xfold_app in PD, TE. rewrite X1, X2 in PD.
  assert (G0 : gdiff L H (a, b) = ftel L H (a, b)).
  { unfold xfold in PD, TE. cbn [fold_right] in PD, TE. rewrite xorb_false_r in PD, TE.
    destruct (gdiff L H (a, b)), (ftel L H (a, b)), (fold_right _ false E1), (fold_right _ false E2);
      cbn in PD, TE; congruence. }
  (* the lone meeting edge *)
  apply Hm in Hm0. rewrite seg_meet_unfold in Hm0.
  assert (Hin0 : In (a, b) (ring_edges ps)) by (rewrite HE; apply in_or_app; right; left; reflexivity).
  rewrite Hqs in HE.
  destruct (closed_neighbours qs E1 a b E2 Hclosed Hq3 HE) as [[ea [Hea Ea]] [eb [Heb Eb]]].
  destruct Hm0 as [O|[O|[O|[O|[O1 O2]]]]].
  - assert (on_boundaryb (ring_edges ps) L = true) by (apply on_boundaryb_iff; exists (a, b); split; assumption).
    congruence.
  - assert (on_boundaryb (ring_edges ps) H = true) by (apply on_boundaryb_iff; exists (a, b); split; assumption).
    congruence.
  - destruct ea as [x a']. cbn [snd] in Ea. subst a'.
    assert (M : m (x, a) = true) by (apply Hm; rewrite seg_meet_unfold; right; right; right; left; exact O).
    rewrite (Hall _ Hea) in M. discriminate M.
  - destruct eb as [b' y]. cbn [fst] in Eb. subst b'.
    assert (M : m (b, y) = true) by (apply Hm; rewrite seg_meet_unfold; right; right; left; exact O).
    rewrite (Hall _ Heb) in M. discriminate M.
  - pose proof (edge_proper a b L H Hy O1 O2) as EP. fold (gdiff L H (a, b)) in EP.
    change (xorb (fR L H a) (fR L H b)) with (ftel L H (a, b)) in EP.
    rewrite G0 in EP. destruct (ftel L H (a, b)); discriminate EP.
Qed.

(* K: both endpoints strictly outside and some edge meets the segment => at
   least two edges (by position) meet it *)
Theorem two_edges_meet (ps : list pt) (A B : pt) :
  in_ringb (ring_edges ps) A = false -> in_ringb (ring_edges ps) B = false ->
  existsb (fun e => intersects_segment (A, B) e) (ring_edges ps) = true ->
  (2 <= length (filter (fun e => intersects_segment (A, B) e) (ring_edges ps)))%nat.
Proof.
  intros HA HB Hex. destruct (Z.le_ge_cases (py A) (py B)) as [Hy|Hy].
  - apply (two_edges_meet_ordered ps A B); try assumption.
    intros e. rewrite intersects_segment_iff. apply seg_meet_sym.
  - apply (two_edges_meet_ordered ps B A); try assumption.
    intros e. rewrite intersects_segment_iff, seg_meet_sym. apply seg_meet_swap_r.
Qed.

(* ------------------------------------------------------------------ *)
(* 5. ringIntersectsSegment (ring.go), allowOnEdge = true               *)
(* ------------------------------------------------------------------ *)

Lemma ris_count_allow (sg : seg) (l : list (seg * nat)) : forall c aon bon,
  (2 <=? ris_count true sg l (c, aon, bon)) =
  (2 <=? c + Z.of_nat (length (filter (fun si => intersects_segment sg (fst si)) l))).
Proof.
  induction l as [|[s2 i] r IH]; intros c aon bon.
  - cbn [ris_count filter length]. f_equal. lia.
  - cbn [ris_count filter fst negb]. destruct (intersects_segment sg s2) eqn:Ei.
    + cbn [fst length]. destruct (Z.ltb_spec (c + 1) 2) as [Hlt|Hge].
      * rewrite IH. f_equal. lia.
      * transitivity true; [apply Z.leb_le; lia|symmetry; apply Z.leb_le; lia].
    + cbn [fst]. destruct (Z.ltb_spec c 2) as [Hlt|Hge].
      * apply IH.
      * transitivity true; [apply Z.leb_le; lia|symmetry; apply Z.leb_le; lia].
Qed.

Lemma filter_filter_impl {A : Type} (f k : A -> bool) (l : list A) :
  (forall x, f x = true -> k x = true) -> filter f (filter k l) = filter f l.
Proof.
  intros H. induction l as [|x l IH]; [reflexivity|]. cbn [filter].
  destruct (k x) eqn:Ek.
  - cbn [filter]. rewrite IH. reflexivity.
  - destruct (f x) eqn:Ef; [rewrite (H x Ef) in Ek; discriminate|exact IH].
Qed.

Lemma length_filter_indexed {A : Type} (g : A -> bool) (l : list A) :
  length (filter (fun si => g (fst si)) (indexed l)) = length (filter g l).
Proof.
  rewrite <- (map_fst_indexed l) at 2. generalize (indexed l) as il. intros il.
  induction il as [|[x i] il IH]; [reflexivity|]. cbn [filter map fst].
  destruct (g x); cbn [length]; rewrite IH; reflexivity.
Qed.

Lemma seg_meet_boxes (s o : seg) : seg_meet s o -> rect_intersects_rect (seg_rect o) (seg_rect s) = true.
Proof.
  destruct s as [a b], o as [c d]. intros Hm.
  pose proof (seg_meet_overlap_x a b c d Hm) as Hx. pose proof (seg_meet_overlap_y a b c d Hm) as Hy.
  apply rir_iff. unfold seg_rect, px, py in *. cbn [fst snd] in *. lia.
Qed.

Lemma two_points_meet' (r o : rect) (p : pt) :
  rect_contains_point r p = true -> rect_contains_point o p = true -> rect_intersects_rect r o = true.
Proof.
  destruct r as [[a b] [c d]], o as [[e f] [g h]]. unfold rect_contains_point.
  rewrite !andb_true_iff, !Z.leb_le, rir_iff. unfold px, py. cbn [fst snd]. lia.
Qed.

Lemma rcr_refl' (r : rect) : rect_contains_rect r r = true.
Proof. apply rcr_iff. lia. Qed.

Lemma in_ringb_in_bbox (ps : list pt) (p : pt) :
  in_ringb (ring_edges ps) p = true -> rect_contains_point (bbox_spec ps) p = true.
Proof.
  intros H. destruct (rect_contains_point (bbox_spec ps) p) eqn:E; [reflexivity|].
  destruct (outside_bbox_no_hit ps p E) as [H1 H2]. unfold in_ringb in H. rewrite H1, H2 in H. discriminate H.
Qed.

Lemma seg_rect_contains_ends (a b : pt) :
  rect_contains_point (seg_rect (a, b)) a = true /\ rect_contains_point (seg_rect (a, b)) b = true.
Proof.
  unfold seg_rect, rect_contains_point, px, py. cbn [fst snd].
  rewrite !andb_true_iff, !Z.leb_le. lia.
Qed.

Lemma edge_rect_in_bbox (ps : list pt) (e : seg) :
  In e (ring_edges ps) -> rect_contains_rect (bbox_spec ps) (seg_rect e) = true.
Proof.
  destruct e as [a b]. intros Hin. destruct (ring_edges_endpoints ps a b Hin) as [Ha Hb].
  pose proof (bbox_spec_tight ps a Ha) as Ta. pose proof (bbox_spec_tight ps b Hb) as Tb. cbv zeta in Ta, Tb.
  apply rcr_iff. unfold seg_rect, px, py in *. cbn [fst snd] in *. lia.
Qed.

Lemma rcp_hit_in_ringb (ps : list pt) (p : pt) :
  rcp_hit (RS {| closed := true; pts := ps |}) p true = in_ringb (ring_edges ps) p.
Proof. rewrite ring_contains_point_spec. unfold in_ringb. destruct (on_boundaryb _ p); reflexivity. Qed.

(* the code's answer for a closed ring and a segment, with contact allowed *)
Theorem ring_intersects_segment_exact (ps : list pt) (A B : pt) :
  ring_intersects_segment (RS {| closed := true; pts := ps |}) (A, B) true =
  in_ringb (ring_edges ps) A || in_ringb (ring_edges ps) B ||
  existsb (fun e => seg_meetb e (A, B)) (ring_edges ps).
Proof.
  set (E := ring_edges ps).
  assert (Hex : existsb (fun e => seg_meetb e (A, B)) E = existsb (fun e => intersects_segment (A, B) e) E).
  { clear. induction E as [|e E IH]; [reflexivity|]. cbn [existsb]. rewrite IH. f_equal.
    apply bool_eq_iff. rewrite seg_meetb_iff, intersects_segment_iff. apply seg_meet_sym. }
  unfold ring_intersects_segment. cbn [fst snd]. rewrite !rcp_hit_in_ringb. fold E.
  unfold ring_search, ring_rect, ring_segments. rewrite RS_rect, RS_segs. fold (ring_edges ps). fold E.
  destruct (Nat.ltb_spec (length ps) 3) as [S|H3].
  - (* no edges *)
    unfold E. rewrite (ring_edges_short ps S). cbn [in_ringb on_boundaryb parityb existsb fold_right orb indexed combine filter length seq ris_count].
    destruct (negb _); reflexivity.
  - rewrite series_rect_spec by (rewrite closed_series_empty; apply Nat.ltb_ge; exact H3). cbn [pts].
    destruct (rect_intersects_rect (seg_rect (A, B)) (bbox_spec ps)) eqn:Ebox; cbn [negb].
    + destruct (in_ringb E A) eqn:EA; [reflexivity|]. destruct (in_ringb E B) eqn:EB; [reflexivity|]. cbn [orb].
      rewrite ris_count_allow. rewrite Z.add_0_l.
      rewrite (filter_filter_impl (fun si : seg * nat => intersects_segment (A, B) (fst si))).
      2:{ intros [e i] Hi. cbn [fst] in *. apply intersects_segment_iff in Hi. apply seg_meet_boxes. exact Hi. }
      rewrite (length_filter_indexed (fun e => intersects_segment (A, B) e)). rewrite Hex.
      destruct (existsb (fun e => intersects_segment (A, B) e) E) eqn:Em.
      * apply Z.leb_le. pose proof (two_edges_meet ps A B EA EB Em). fold E in H. lia.
      * apply Z.leb_gt. rewrite existsb_false_iff in Em.
        assert (filter (fun e => intersects_segment (A, B) e) E = []) as ->; [|cbn; lia].
        clear -Em. induction E as [|e E IH]; [reflexivity|]. cbn [filter].
        rewrite (Em e (or_introl eq_refl)). apply IH. intros x Hx. apply Em. right. exact Hx.
    + (* the boxes are disjoint: nothing can be shared *)
      symmetry. apply orb_false_iff. split; [apply orb_false_iff; split|].
      * destruct (in_ringb E A) eqn:EA; [|reflexivity]. exfalso.
        pose proof (two_points_meet' _ _ A (proj1 (seg_rect_contains_ends A B)) (in_ringb_in_bbox ps A EA)). congruence.
      * destruct (in_ringb E B) eqn:EB; [|reflexivity]. exfalso.
        pose proof (two_points_meet' _ _ B (proj2 (seg_rect_contains_ends A B)) (in_ringb_in_bbox ps B EB)). congruence.
      * apply existsb_false_iff. intros e Hin. destruct (seg_meetb e (A, B)) eqn:Em; [|reflexivity]. exfalso.
        apply seg_meetb_iff in Em. apply seg_meet_boxes in Em.
        pose proof (edge_rect_in_bbox ps e Hin) as Hc.
        assert (rect_intersects_rect (seg_rect (A, B)) (bbox_spec ps) = true); [|congruence].
        apply (rects_meet_mono _ (seg_rect (A, B)) _ (seg_rect e)); [apply rcr_refl'|exact Hc|exact Em].
Qed.

Print Assumptions parity_constant_off_boundary.
Print Assumptions two_edges_meet.
Print Assumptions ring_intersects_segment_exact.
