(* Series.v — model of geometry/series.go (baseSeries without its index):
   processPoints, NumSegments, SegmentAt, Empty, brute-force Search, Move.
   No proofs here. *)
From GJ Require Import Base Kernel.

Record series := { closed : bool; pts : list pt }.

Definition npoints (s : series) : nat := length (pts s).

Definition pt0 : pt := (0, 0).
Definition nthp (l : list pt) (i : nat) : pt := nth i l pt0.

(* baseSeries.Empty (series.go:126-131) *)
Definition series_empty (s : series) : bool :=
  (closed s && (npoints s <? 3)%nat) || (npoints s <? 2)%nat.

(* baseSeries.NumSegments (series.go:196-210) *)
Definition num_segments (s : series) : nat :=
  let n := npoints s in
  if closed s then
    if (n <? 3)%nat then 0%nat
    else if pt_eqb (nthp (pts s) (n - 1)) (nthp (pts s) 0) then (n - 1)%nat else n
  else
    if (n <? 2)%nat then 0%nat else (n - 1)%nat.

(* baseSeries.SegmentAt (series.go:212-221); Go panics when index is out of
   range: callers only pass index < NumSegments (proved in SeriesProofs). *)
Definition segment_at (s : series) (i : nat) : seg :=
  let n := npoints s in
  (nthp (pts s) i, if (i =? n - 1)%nat then nthp (pts s) 0 else nthp (pts s) (i + 1)).

(* the segments in index order, as Search visits them without an index *)
Definition segments (s : series) : list seg :=
  map (segment_at s) (seq 0 (num_segments s)).

(* ---- processPoints (series.go:223-292, after the seam repair F3) ---- *)

(* rectangle inflation: the else-if chain of series.go:241-250 *)
Definition inflate (r : rect) (p : pt) : rect :=
  let '((mnx, mny), (mxx, mxy)) := r in
  let '(mnx', mxx') := if px p <? mnx then (px p, mxx) else if mxx <? px p then (mnx, px p) else (mnx, mxx) in
  let '(mny', mxy') := if py p <? mny then (py p, mxy) else if mxy <? py p then (mny, py p) else (mny, mxy) in
  ((mnx', mny'), (mxx', mxy')).

Definition points_rect (ps : list pt) : rect :=
  match ps with
  | [] => (pt0, pt0)
  | p :: r => fold_left inflate r (p, p)
  end.

(* number of cyclic vertices used by the turn pass: a closed ring's repeated
   closing point is not a vertex of its own (repair of finding F3) *)
Definition turn_count (cl : bool) (ps : list pt) : nat :=
  let n := length ps in
  if cl && pt_eqb (nthp ps (n - 1)) (nthp ps 0) then (n - 1)%nat else n.

(* neighbour selection of series.go:255-264 over the first m points *)
Definition tri_at (ps : list pt) (m i : nat) : pt * pt * pt :=
  let a := nthp ps i in
  if (i =? m - 1)%nat then (a, nthp ps 0, nthp ps 1)
  else if (i =? m - 2)%nat then (a, nthp ps (i + 1), nthp ps 0)
  else (a, nthp ps (i + 1), nthp ps (i + 2)).

Definition zcross (t : pt * pt * pt) : Z :=
  let '(a, b, c) := t in
  (px b - px a) * (py c - py b) - (py b - py a) * (px c - px b).

Definition cw_term (t : pt * pt * pt) : Z :=
  let '(a, b, _) := t in (px b - px a) * (py b + py a).

(* the dir/concave automaton of series.go:273-288; state = (concave, dir) *)
Definition turn_step (st : bool * Z) (z : Z) : bool * Z :=
  let '(concave, dir) := st in
  if concave then st
  else if dir =? 0 then
    if z <? 0 then (false, -1) else if 0 <? z then (false, 1) else (false, 0)
  else if z <? 0 then (if dir =? 1 then (true, dir) else st)
  else if 0 <? z then (if dir =? -1 then (true, dir) else st)
  else st.

(* returns (convex, rect, clockwise) *)
Definition process_points (ps : list pt) (cl : bool) : bool * rect * bool :=
  let n := length ps in
  if (cl && (n <? 3)%nat) || (n <? 2)%nat then (false, (pt0, pt0), false)
  else
    let m := turn_count cl ps in
    let tris := map (tri_at ps m) (seq 0 m) in
    let cwc := fold_left (fun acc t => acc + cw_term t) tris 0 in
    let st := fold_left turn_step (map zcross tris) (false, 0) in
    (negb (fst st), points_rect ps, 0 <? cwc).

(* pinned (pre-repair) variant: every point, the closing one included, takes part *)
Definition process_points_pinned (ps : list pt) (cl : bool) : bool * rect * bool :=
  let n := length ps in
  if (cl && (n <? 3)%nat) || (n <? 2)%nat then (false, (pt0, pt0), false)
  else
    let tris := map (tri_at ps n) (seq 0 n) in
    let cwc := fold_left (fun acc t => acc + cw_term t) tris 0 in
    let st := fold_left turn_step (map zcross tris) (false, 0) in
    (negb (fst st), points_rect ps, 0 <? cwc).

Definition series_convex (s : series) : bool := fst (fst (process_points (pts s) (closed s))).
Definition series_rect (s : series) : rect := snd (fst (process_points (pts s) (closed s))).
Definition series_clockwise (s : series) : bool := snd (process_points (pts s) (closed s)).

(* baseSeries.Search without an index (series.go:172-181): the (segment, index)
   pairs whose rectangle meets the query, in index order.  The consumer folds
   over this list and may stop early. *)
Definition search_brute (s : series) (q : rect) : list (seg * nat) :=
  filter (fun si => rect_intersects_rect (seg_rect (fst si)) q)
         (combine (segments s) (seq 0 (num_segments s))).

(* baseSeries.Move (series.go:111-123) on the point list *)
Definition move_pts (ps : list pt) (dx dy : Z) : list pt :=
  map (fun p => (px p + dx, py p + dy)) ps.
Definition series_move (s : series) (dx dy : Z) : series :=
  {| closed := closed s; pts := move_pts (pts s) dx dy |}.

(* Point.Valid / baseSeries.Valid over a grid scale: lim180 = 180*2^s, lim90 = 90*2^s *)
Definition pt_valid (l180 l90 : Z) (p : pt) : bool :=
  (- l180 <=? px p) && (px p <=? l180) && (- l90 <=? py p) && (py p <=? l90).
Definition series_valid (l180 l90 : Z) (s : series) : bool := forallb (pt_valid l180 l90) (pts s).
