(* HoleRing.v — property C02 / C03: strict containment of a closed ring by a ring (the test Poly.IntersectsPoly
   applies to "the other polygon lies in one of my holes"), any number of points: true exactly when every
   rational point of every edge of the argument is strictly inside.  A closed ring is, for rcr_core, the open
   line through its vertices followed by the first one; the bounding-box shortcut is sound by HoleBox.v. *)
From Coq Require Import ZArith Bool List Lia.
From GJ Require Import Base Kernel KernelSpec Series SeriesSpec Ring RingSpec
  RaycastProofs KernelProofs IntersectsProofs IntersectsQ SeriesProofs PipProofs PairProofs Invariance
  Jordan JordanQ JordanRing JordanRect Convex Holes LineSound HoleBox.
Import ListNotations.
Open Scope Z_scope.

(* the closed path through the vertices of a ring *)
Definition closed_path (f : list pt) : list pt :=
  if pt_eqb (last f pt0) (hd pt0 f) then f else f ++ [hd pt0 f].

Lemma closed_path_segs (f : list pt) : (3 <= length f)%nat -> path_segs (closed_path f) = ring_edges f.
Proof.
  intros H3. unfold closed_path, ring_edges, segments_spec. cbn [closed pts].
  destruct (Nat.ltb_spec (length f) 3) as [?|_]; [lia|].
  destruct (pt_eqb (last f pt0) (hd pt0 f)); [reflexivity|].
  apply path_segs_snoc. intros ->. cbn in H3. lia.
Qed.

Lemma closed_path_in (f : list pt) (p : pt) : f <> [] -> (In p (closed_path f) <-> In p f).
Proof.
  intros Hne. unfold closed_path. destruct (pt_eqb (last f pt0) (hd pt0 f)); [tauto|].
  rewrite in_app_iff. cbn [In]. split; [|tauto]. intros [H|[<-|[]]]; [exact H|]. destruct f; [congruence|left; reflexivity].
Qed.

Lemma min_list_le (d : Z) (l : list Z) : min_list d l <= d.
Proof. unfold min_list. revert d. induction l as [|x l IH]; intros d; cbn [fold_left]; [lia|]. pose proof (IH (Z.min d x)). lia. Qed.
Lemma max_list_ge (d : Z) (l : list Z) : d <= max_list d l.
Proof. unfold max_list. revert d. induction l as [|x l IH]; intros d; cbn [fold_left]; [lia|]. pose proof (IH (Z.max d x)). lia. Qed.

Lemma closed_path_bbox (f : list pt) : bbox_spec (closed_path f) = bbox_spec f.
Proof.
  unfold closed_path. destruct (pt_eqb (last f pt0) (hd pt0 f)); [reflexivity|].
  destruct f as [|p r]; [reflexivity|]. cbn [hd app bbox_spec]. rewrite !map_app. cbn [map].
  unfold min_list, max_list. rewrite !fold_left_app. cbn [fold_left]. fold (min_list (px p) (map px r)). fold (min_list (py p) (map py r)).
  fold (max_list (px p) (map px r)). fold (max_list (py p) (map py r)).
  pose proof (min_list_le (px p) (map px r)). pose proof (min_list_le (py p) (map py r)).
  pose proof (max_list_ge (px p) (map px r)). pose proof (max_list_ge (py p) (map py r)).
  apply f_equal2; apply f_equal2; lia.
Qed.

Lemma forallb_same {A} (g : A -> bool) (l l' : list A) : (forall x, In x l <-> In x l') -> forallb g l = forallb g l'.
Proof.
  intros H. apply bool_eq_iff. rewrite !forallb_forall. split; intros F x Hx; apply F; apply H; exact Hx.
Qed.

(* for rcr_core a closed ring is the open line along its closed path *)
Lemma rcr_core_ring_as_line (h f : list pt) (allow : bool) : (3 <= length f)%nat ->
  rcr_core (Rg h) (Rg f) allow = rcr_core (Rg h) (Lr (closed_path f)) allow.
Proof.
  intros H3. assert (Hne : f <> []) by (intros ->; cbn in H3; lia).
  assert (L2 : (2 <= length (closed_path f))%nat).
  { unfold closed_path. destruct (pt_eqb (last f pt0) (hd pt0 f)); [lia|]. rewrite app_length. cbn. lia. }
  assert (E1 : series_empty {| closed := true; pts := f |} = false) by (rewrite closed_series_empty; apply Nat.ltb_ge; exact H3).
  assert (E2 : series_empty {| closed := false; pts := closed_path f |} = false).
  { unfold series_empty, npoints. cbn [closed pts andb orb]. apply Nat.ltb_ge. exact L2. }
  unfold rcr_core, ring_empty, ring_rect, ring_points, ring_segments, Rg, Lr.
  rewrite !RS_empty, !RS_rect, !RS_pts, !RS_segs. rewrite E1, E2.
  rewrite (series_rect_spec _ E1), (series_rect_spec _ E2). cbn [pts]. rewrite closed_path_bbox.
  change (segments_spec {| closed := true; pts := f |}) with (ring_edges f).
  change (segments_spec {| closed := false; pts := closed_path f |}) with (path_segs (closed_path f)).
  rewrite (closed_path_segs f H3).
  rewrite (forallb_same _ f (closed_path f)) by (intros x; symmetry; apply closed_path_in; exact Hne).
  reflexivity.
Qed.

(* ringContainsRing for two closed rings of ANY size, strict mode *)
Theorem ring_contains_ring_strict_exact (h f : list pt) : hole_ok h -> (3 <= length f)%nat ->
  (ring_contains_ring (Rg h) (Rg f) false = true <->
   (3 <= length h)%nat /\ forall sg, In sg (ring_edges f) -> all_strictly_inside h (fst sg) (snd sg)).
Proof.
  intros Hok H3.
  assert (L2 : (2 <= length (closed_path f))%nat).
  { unfold closed_path. destruct (pt_eqb (last f pt0) (hd pt0 f)); [lia|]. rewrite app_length. cbn. lia. }
  assert (Core : rcr_core (Rg h) (Rg f) false = true <->
                 (3 <= length h)%nat /\ forall sg, In sg (ring_edges f) -> all_strictly_inside h (fst sg) (snd sg)).
  { rewrite (rcr_core_ring_as_line h f false H3), (rcr_core_line_strict h (closed_path f) Hok L2).
    unfold line_strictly_inside. rewrite (closed_path_segs f H3). tauto. }
  rewrite <- Core. unfold ring_contains_ring.
  destruct (ring_empty (Rg h) || ring_empty (Rg f)) eqn:Ee.
  - unfold rcr_core. rewrite Ee. tauto.
  - destruct ((complexRingMinPoints <=? ring_npoints (Rg f))%nat && rcr_core (Rg h) (RR (ring_rect (Rg f))) false) eqn:Es; [|tauto].
    apply andb_true_iff in Es. destruct Es as [_ Es].
    (* the box of the ring is the box of its closed path *)
    assert (Er : ring_rect (Rg f) = ring_rect (Lr (closed_path f))).
    { unfold ring_rect, Rg, Lr. rewrite !RS_rect.
      rewrite series_rect_spec by (rewrite closed_series_empty; apply Nat.ltb_ge; exact H3).
      rewrite series_rect_spec by (unfold series_empty, npoints; cbn [closed pts andb orb]; apply Nat.ltb_ge; exact L2).
      cbn [pts]. symmetry. apply closed_path_bbox. }
    rewrite Er in Es. pose proof (shortcut_strict h (closed_path f) Hok L2 Es) as C.
    rewrite <- (rcr_core_ring_as_line h f false H3) in C. rewrite C. tauto.
Qed.

Print Assumptions ring_contains_ring_strict_exact.
