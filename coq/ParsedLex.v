(* ParsedLex.v — property C17 for objects built through Parse: the hypotheses of
   the well-formedness theorem (EmitWellFormed.emit_wellformed) hold for every
   object that Parse returns for a document whose tokens are JSON tokens and
   whose numbers are finite.  So the bytes JSON() writes for it are a text of
   the RFC 8259 grammar, for every option set. *)
From Coq Require Import Lia.
From GJ Require Import Base JsonConst Json JsonSpec JsonProofs EmitProofs JsonGrammar EmitWellFormed RoundTrip ParsedForm.
Open Scope Z_scope.

Definition nb (f : fnum) : Prop := f <> FBad.

(* what parsed form does not record: point ordinates exist, member texts are lexically JSON *)
Fixpoint plex (g : gobj) : Prop :=
  match g with
  | JPoint p ex => fpt_ok p /\ Forall nb (ex_values ex) /\ members_lex ex
  | JSimple p => fpt_ok p
  | JRect _ _ => True
  | JLine _ ex | JPoly _ ex => members_lex ex
  | JFeature b ex => plex b /\ members_lex ex
  | JColl k cs ex =>
      members_lex ex /\ (fix all (l : list gobj) : Prop := match l with [] => True | c :: r => plex c /\ all r end) cs
  | JCircle c m => fpt_ok c /\ m <> FBad
  end.

Lemma fin_nb (f : fnum) : fin f -> nb f.
Proof. destruct f; cbn; [discriminate|contradiction|contradiction]. Qed.

Lemma Forall_fin_nb (l : list fnum) : Forall fin l -> Forall nb l.
Proof. intros H. eapply Forall_impl; [|exact H]. exact fin_nb. Qed.

Lemma fin_pt_ok (p : fpt) : fin_pt p -> fpt_ok p.
Proof. intros [A B]. split; apply fin_nb; assumption. Qed.

(* ------------------------------------------------------------------ *)
(* parsed form + plex give the theorem's hypotheses                     *)

Lemma plex_coll_children (k : Z) (cs : list gobj) (ex : option extra) : plex (JColl k cs ex) -> Forall plex cs.
Proof.
  cbn [plex]. intros [_ H]. induction cs as [|c cs IH]; [constructor|]. destruct H as [Hc Hr]. constructor; [exact Hc|exact (IH Hr)].
Qed.

Lemma lex_coll_intro (k : Z) (cs : list gobj) (ex : option extra) : members_lex ex -> Forall lex_o cs -> lex_o (JColl k cs ex).
Proof.
  intros Hm H. cbn [lex_o]. split; [exact Hm|]. induction H as [|c cs Hc Hcs IH]; [exact I|]. split; [exact Hc|exact IH].
Qed.

Lemma values_ok_of (n : nat) (ex : option extra) : ex_form n ex -> Forall nb (ex_values ex) -> values_ok ex n.
Proof.
  destruct ex as [e|]; cbn [ex_form values_ok ex_values]; [|intros; exact I]. intros (_ & Hl & _) Hn. split; [lia|exact Hn].
Qed.

Lemma child_lex (k : Z) (c : gobj) : child_pf k c -> plex c -> lex_o c.
Proof.
  destruct c as [p ex|p|mn mx|ps ex|rings ex|b ex|k' cs ex|cc m]; cbn [child_pf plex lex_o]; try contradiction.
  - intros (_ & Hf & _) (Hp & Hn & Hm). split; [exact Hp|]. split; [exact (values_ok_of 1 ex Hf Hn)|exact Hm].
  - intros (_ & (_ & Hps & Hf & Hv) & _) Hm. split; [eapply Forall_impl; [|exact Hps]; exact fin_pt_ok|].
    split; [exact (values_ok_of _ ex Hf (Forall_fin_nb _ Hv))|exact Hm].
  - intros (_ & (_ & _ & Hr & Hf & Hv) & _) Hm.
    split; [eapply Forall_impl; [|exact Hr]; intros r Hrr; eapply Forall_impl; [|exact Hrr]; exact fin_pt_ok|].
    split; [exact (values_ok_of _ ex Hf (Forall_fin_nb _ Hv))|exact Hm].
Qed.

Theorem pf_plex_lex (o : popts) (one : Z) (g : gobj) : pf o one g -> plex g -> lex_o g.
Proof.
  induction g as [p ex|p|mn mx|ps ex|rings ex|b ex IHb|k cs ex IHcs|c m] using gobj_ind'; intros Hpf Hx.
  - destruct Hpf as (Hf & _). destruct Hx as (Hp & Hn & Hm). cbn [lex_o]. split; [exact Hp|]. split; [exact (values_ok_of 1 ex Hf Hn)|exact Hm].
  - exact Hx.
  - destruct Hpf as (_ & (A & B & _) & _). cbn [lex_o]. split; apply fin_pt_ok; assumption.
  - destruct Hpf as ((_ & Hps & Hf & Hv) & _). cbn [plex] in Hx. cbn [lex_o].
    split; [eapply Forall_impl; [|exact Hps]; exact fin_pt_ok|]. split; [exact (values_ok_of _ ex Hf (Forall_fin_nb _ Hv))|exact Hx].
  - destruct Hpf as ((_ & _ & Hr & Hf & Hv) & _). cbn [plex] in Hx. cbn [lex_o].
    split; [eapply Forall_impl; [|exact Hr]; intros r Hrr; eapply Forall_impl; [|exact Hrr]; exact fin_pt_ok|].
    split; [exact (values_ok_of _ ex Hf (Forall_fin_nb _ Hv))|exact Hx].
  - destruct Hpf as (Hb & _). destruct Hx as (Hxb & Hm). cbn [lex_o]. split; [exact (IHb Hb Hxb)|exact Hm].
  - pose proof (pf_coll_children o one k cs ex Hpf) as Hch. pose proof (plex_coll_children k cs ex Hx) as Hxc.
    destruct Hx as [Hm _]. apply lex_coll_intro; [exact Hm|]. rewrite Forall_forall in *. intros c Hc.
    specialize (Hch c Hc). destruct (k <? 3); [exact (child_lex k c Hch (Hxc c Hc))|exact (IHcs c Hc Hch (Hxc c Hc))].
  - exact Hx.
Qed.

(* ------------------------------------------------------------------ *)
(* Parse establishes plex                                               *)

Lemma take_nums_nb (allow : bool) (n : nat) : forall l t, Forall (fun x => fin_doc x = true) l -> take_nums allow n l = Some t -> Forall nb t.
Proof.
  induction n as [|n IH]; intros l t Hl H; [inversion H; constructor|].
  destruct l as [|v l]; [inversion H; constructor|]. cbn [take_nums] in H. inversion Hl as [|? ? Hv Hl']; subst.
  destruct v as [| | |r f|r d|l0|ms]; try discriminate.
  - destruct allow; [|discriminate]. destruct (take_nums true n l) as [t'|] eqn:E; [|discriminate]. inversion H; subst.
    constructor; [discriminate|exact (IH l t' Hl' E)].
  - destruct (take_nums allow n l) as [t'|] eqn:E; [|discriminate]. inversion H; subst.
    constructor; [cbn [fin_doc] in Hv; destruct f; [discriminate|discriminate Hv|discriminate Hv]|exact (IH l t' Hl' E)].
Qed.

Lemma extra_of_nums_nb (nums : list fnum) : Forall nb nums -> Forall nb (ex_values (extra_of_nums nums)).
Proof.
  intros H. destruct nums as [|x [|y [|z [|m r]]]]; cbn [extra_of_nums ex_values values].
  - constructor.
  - constructor.
  - constructor.
  - inversion H as [|? ? _ H1]; subst. inversion H1 as [|? ? _ H2]; subst. inversion H2 as [|? ? Hz H3]; subst.
    constructor; [exact Hz|constructor].
  - inversion H as [|? ? _ H1]; subst. inversion H1 as [|? ? _ H2]; subst. inversion H2 as [|? ? Hz H3]; subst.
    inversion H3 as [|? ? Hm H4]; subst. constructor; [exact Hz|]. constructor; [exact Hm|constructor].
Qed.

Lemma point_coords_nb (top : bool) (v : jv) (p : fpt) (ex : option extra) :
  fin_doc v = true -> parse_point_coords top (Some v) = ROk (p, ex) -> fpt_ok p /\ Forall nb (ex_values ex).
Proof.
  intros Hv. unfold parse_point_coords. destruct (top && negb (is_array v)); [discriminate|].
  destruct (take_nums true 4 (elems v)) as [nums|] eqn:E; [|discriminate].
  pose proof (take_nums_nb true 4 _ _ (fin_doc_elems v Hv) E) as Hn.
  destruct nums as [|x [|y r]]; try discriminate. intros H. inversion H; subst.
  split; [|exact (extra_of_nums_nb _ Hn)]. inversion Hn as [|? ? Hx H1]; subst. inversion H1; subst. split; assumption.
Qed.

Lemma foreign_lex (ms : list (jkey * jv)) : lex_ok (JObj ms) = true -> lex_ok (JObj (k_foreign (scan_keys ms))) = true.
Proof.
  rewrite foreign_is_filter. cbn [lex_ok]. intros H. apply forallb_forall. intros x Hx. apply filter_In in Hx.
  rewrite forallb_forall in H. apply H. tauto.
Qed.

Lemma member_lex (ms : list (jkey * jv)) (k : jkey) (v : jv) : lex_ok (JObj ms) = true -> In (k, v) ms -> lex_ok v = true.
Proof.
  cbn [lex_ok]. intros H Hin. rewrite forallb_forall in H. specialize (H (k, v) Hin). cbn [fst snd] in H.
  apply andb_true_iff in H. tauto.
Qed.

Lemma last_member_lex (name : list Z) (ms : list (jkey * jv)) (v : jv) :
  lex_ok (JObj ms) = true -> last_member name ms = Some v -> lex_ok v = true.
Proof. intros Hf H. destruct (last_member_in name ms v H) as [k Hk]. exact (member_lex ms k v Hf Hk). Qed.

Lemma lex_elems (v : jv) : lex_ok v = true -> Forall (fun x => lex_ok x = true) (elems v).
Proof.
  destruct v as [| | |r f|r d|l|ms]; intros H; cbn [elems]; try (constructor; [exact H|constructor]).
  - cbn [lex_ok] in H. apply Forall_forall. intros x Hx. rewrite forallb_forall in H. auto.
  - apply Forall_forall. intros x Hx. apply in_map_iff in Hx. destruct Hx as ([k y] & <- & Hkv). exact (member_lex ms k y H Hkv).
Qed.

Lemma members_lex_with (ex : option extra) (foreign : list (jkey * jv)) :
  lex_ok (JObj foreign) = true -> st_ok 0 ex \/ (exists n, st_ok n ex) -> members_lex (with_members ex foreign).
Proof.
  intros Hl Hs. destruct foreign as [|m r]; cbn [with_members].
  - destruct ex as [e|]; [|exact I]. cbn [members_lex]. destruct Hs as [Hs|[n Hs]]; cbn [st_ok] in Hs; destruct Hs as (_ & _ & ->); exact I.
  - destruct ex as [e|]; cbn [members_lex members]; exact Hl.
Qed.

Definition both (v : jv) : Prop := fin_doc v = true /\ lex_ok v = true.

Lemma both_elems (v : jv) : both v -> Forall both (elems v).
Proof.
  intros [A B]. pose proof (fin_doc_elems v A) as FA. pose proof (lex_elems v B) as FB.
  rewrite Forall_forall in *. intros x Hx. split; auto.
Qed.

Lemma plex_coll_intro (k : Z) (cs : list gobj) (ex : option extra) : members_lex ex -> Forall plex cs -> plex (JColl k cs ex).
Proof.
  intros Hm H. cbn [plex]. split; [exact Hm|]. induction H as [|c cs Hc Hcs IH]; [exact I|]. split; [exact Hc|exact IH].
Qed.

Theorem parse_plex (fuel : nat) : forall (o : popts) (one : Z) (v : jv) (g : gobj),
  both v -> parse fuel o one v = POk g -> plex g.
Proof.
  induction fuel as [|f IH]; intros o one v g [Hv Hlx] H; [discriminate|].
  cbn [parse] in H. destruct v as [| | |raw x|raw d|l|ms]; try discriminate.
  pose proof (foreign_lex ms Hlx) as Hfl. pose proof (foreign_fin ms Hv) as Hffin.
  destruct (scan_keys_last ms) as (_ & Kc & Kgs & Kg & Kf).
  assert (Hc : forall cv, k_coords (scan_keys ms) = Some cv -> both cv)
    by (intros cv E; rewrite Kc in E; split; [exact (last_member_fin _ ms cv Hv E)|exact (last_member_lex _ ms cv Hlx E)]).
  assert (Hgs : forall cv, k_geoms (scan_keys ms) = Some cv -> both cv)
    by (intros cv E; rewrite Kgs in E; split; [exact (last_member_fin _ ms cv Hv E)|exact (last_member_lex _ ms cv Hlx E)]).
  assert (Hg : forall cv, k_geom (scan_keys ms) = Some cv -> both cv)
    by (intros cv E; rewrite Kg in E; split; [exact (last_member_fin _ ms cv Hv E)|exact (last_member_lex _ ms cv Hlx E)]).
  assert (Hfe : forall cv, k_feats (scan_keys ms) = Some cv -> both cv)
    by (intros cv E; rewrite Kf in E; split; [exact (last_member_fin _ ms cv Hv E)|exact (last_member_lex _ ms cv Hlx E)]).
  clear Kc Kgs Kg Kf.
  set (foreign := k_foreign (scan_keys ms)) in *.
  assert (Hnone : members_lex (with_members None foreign)) by (apply members_lex_with; [exact Hfl|left; exact I]).
  destruct (k_type (scan_keys ms)) as [[| | |r0 x0|traw tname|l0|ms0]|]; try discriminate.
  destruct (bytes_eqb tname s_Point).
  { destruct (k_coords (scan_keys ms)) as [cv|] eqn:Ec; [|discriminate].
    destruct (parse_point_coords true (Some cv)) as [[p ex]|c] eqn:Ep; [|discriminate].
    destruct (point_coords_nb _ _ _ _ (proj1 (Hc cv eq_refl)) Ep) as [Hp Hn].
    pose proof (point_coords_form _ _ _ _ Ep) as Hs.
    destruct (st_ok_form 1 ex foreign Hs (foreign_keys_ok ms)) as [_ Hvals].
    pose proof (members_lex_with ex foreign Hfl (or_intror (ex_intro (fun n => st_ok n ex) 1%nat Hs))) as Hml.
    destruct (with_members ex foreign) as [e|] eqn:Ew.
    - destruct (check_inv _ _ _ _ H) as [-> _]. cbn [plex]. rewrite Hvals. repeat split; try assumption; apply Hp.
    - destruct (allow_simple o); destruct (check_inv _ _ _ _ H) as [-> _]; cbn [plex ex_values]; [exact Hp|].
      split; [exact Hp|]. split; [constructor|exact I]. }
  destruct (bytes_eqb tname s_LineString).
  { destruct (k_coords (scan_keys ms)) as [cv|] eqn:Ec; [|discriminate].
    destruct (parse_line_coords true (Some cv)) as [[ps ex]|c] eqn:Ep; [|discriminate].
    destruct (line_coords_form _ _ _ _ (proj1 (Hc cv eq_refl)) Ep) as (_ & Hs & _).
    destruct (length ps <? 2)%nat; [discriminate|].
    destruct (check_inv _ _ _ _ H) as [-> _]. cbn [plex]. apply members_lex_with; [exact Hfl|right; eexists; exact Hs]. }
  destruct (bytes_eqb tname s_Polygon).
  { destruct (k_coords (scan_keys ms)) as [cv|] eqn:Ec; [|discriminate].
    destruct (parse_poly_coords true (Some cv)) as [[rings ex]|c] eqn:Ep; [|discriminate].
    destruct (poly_coords_form _ _ _ _ (proj1 (Hc cv eq_refl)) Ep) as (_ & Hs & _).
    destruct rings as [|ext holes]; [discriminate|].
    destruct (negb (forallb ring_ok (ext :: holes))); [discriminate|].
    pose proof (members_lex_with ex foreign Hfl (or_intror (ex_intro (fun n => st_ok n ex) _ Hs))) as Hml.
    destruct (with_members ex foreign) as [e|] eqn:Ew.
    - destruct (check_inv _ _ _ _ H) as [-> _]. exact Hml.
    - destruct holes as [|h holes]; [destruct (allow_rects o && perfect_rect ext)|]; destruct (check_inv _ _ _ _ H) as [-> _]; exact I. }
  destruct (bytes_eqb tname s_Feature).
  { destruct (k_geom (scan_keys ms)) as [gv|] eqn:Eg; [|discriminate].
    destruct (parse f o one gv) as [base|c] eqn:Eb; [|discriminate].
    pose proof (IH o one gv base (Hg gv eq_refl) Eb) as Hb.
    destruct (match base, foreign with
              | JPoint p _, _ :: _ => circle_of o one p foreign
              | JSimple p, _ :: _ => if CIRCLE_SIMPLE_OK then circle_of o one p foreign else None
              | _, _ => None end) as [r|] eqn:Ecr.
    - subst r. destruct base as [p ex|p| | | | | |]; try discriminate; destruct foreign as [|m0 ms'] eqn:Ef; try discriminate.
      + destruct (circle_of_form o one p _ g Hffin Ecr) as (m & -> & Hm & _). cbn [plex] in *. split; [apply Hb|exact (fin_nb m Hm)].
      + unfold CIRCLE_SIMPLE_OK in Ecr. destruct (circle_of_form o one p _ g Hffin Ecr) as (m & -> & Hm & _). cbn [plex] in *.
        split; [exact Hb|exact (fin_nb m Hm)].
    - inversion H; subst. cbn [plex]. split; [exact Hb|exact Hnone]. }
  destruct (bytes_eqb tname s_MultiPoint).
  { destruct (k_coords (scan_keys ms)) as [cv|] eqn:Ec; [|discriminate].
    destruct (negb (is_array cv)); [discriminate|].
    destruct (map_until _ (elems cv)) as [kids|c] eqn:Ek; [|discriminate].
    unfold MULTIPOINT_VALID_CHECK in H. destruct (check_inv _ _ _ _ H) as [-> _].
    apply plex_coll_intro; [exact Hnone|].
    eapply (map_until_forall' _ both); [exact (both_elems cv (Hc cv eq_refl))| |exact Ek].
    intros x y [Hx _] Hxy. cbv beta in Hxy. destruct (parse_point_coords false (Some x)) as [[p ex]|c] eqn:Ep; [|discriminate].
    inversion Hxy; subst. cbn [plex]. destruct (point_coords_nb _ _ _ _ Hx Ep) as [Hp Hn].
    split; [exact Hp|]. split; [exact Hn|]. pose proof (point_coords_form _ _ _ _ Ep) as Hs.
    destruct ex as [e|]; [|exact I]. cbn [st_ok members_lex] in *. destruct Hs as (_ & _ & ->). exact I. }
  destruct (bytes_eqb tname s_MultiLineString).
  { destruct (k_coords (scan_keys ms)) as [cv|] eqn:Ec; [|discriminate].
    destruct (negb (is_array cv)); [discriminate|].
    destruct (map_until _ (elems cv)) as [kids|c] eqn:Ek; [|discriminate].
    destruct (check_inv _ _ _ _ H) as [-> _].
    apply plex_coll_intro; [exact Hnone|].
    eapply (map_until_forall' _ both); [exact (both_elems cv (Hc cv eq_refl))| |exact Ek].
    intros x y [Hx _] Hxy. cbv beta in Hxy. destruct (parse_line_coords false (Some x)) as [[ps ex]|c] eqn:Ep; [|discriminate].
    destruct (length ps <? 2)%nat; [discriminate|]. inversion Hxy; subst. cbn [plex].
    destruct (line_coords_form _ _ _ _ Hx Ep) as (_ & Hs & _).
    destruct ex as [e|]; [|exact I]. cbn [st_ok members_lex] in *. destruct Hs as (_ & _ & ->). exact I. }
  destruct (bytes_eqb tname s_MultiPolygon).
  { destruct (k_coords (scan_keys ms)) as [cv|] eqn:Ec; [|discriminate].
    destruct (negb (is_array cv)); [discriminate|].
    destruct (map_until _ (elems cv)) as [kids|c] eqn:Ek; [|discriminate].
    destruct (check_inv _ _ _ _ H) as [-> _].
    apply plex_coll_intro; [exact Hnone|].
    eapply (map_until_forall' _ both); [exact (both_elems cv (Hc cv eq_refl))| |exact Ek].
    intros x y [Hx _] Hxy. cbv beta in Hxy. destruct (parse_poly_coords false (Some x)) as [[rings ex]|c] eqn:Ep; [|discriminate].
    destruct rings as [|ext holes]; [discriminate|].
    destruct (forallb ring_ok (ext :: holes)); [|discriminate]. inversion Hxy; subst. cbn [plex].
    destruct (poly_coords_form _ _ _ _ Hx Ep) as (_ & Hs & _).
    destruct ex as [e|]; [|exact I]. cbn [st_ok members_lex] in *. destruct Hs as (_ & _ & ->). exact I. }
  destruct (bytes_eqb tname s_GeometryCollection).
  { destruct (k_geoms (scan_keys ms)) as [cv|] eqn:Ec; [|discriminate].
    destruct (negb (is_array cv)); [discriminate|].
    destruct (map_until _ (elems cv)) as [kids|c] eqn:Ek; [|discriminate].
    inversion H; subst. apply plex_coll_intro; [exact Hnone|].
    eapply (map_until_forall' _ both); [exact (both_elems cv (Hgs cv eq_refl))| |exact Ek].
    intros x y Hx Hxy. cbv beta in Hxy. unfold pres_res in Hxy. destruct (parse f o one x) as [gx|cx] eqn:Ex; [|discriminate].
    inversion Hxy; subst. exact (IH o one x y Hx Ex). }
  destruct (bytes_eqb tname s_FeatureCollection); [|discriminate].
  destruct (k_feats (scan_keys ms)) as [cv|] eqn:Ec; [|discriminate].
  destruct (negb (is_array cv)); [discriminate|].
  destruct (map_until _ (elems cv)) as [kids|c] eqn:Ek; [|discriminate].
  inversion H; subst. apply plex_coll_intro; [exact Hnone|].
  eapply (map_until_forall' _ both); [exact (both_elems cv (Hfe cv eq_refl))| |exact Ek].
  intros x y Hx Hxy. cbv beta in Hxy. unfold pres_res in Hxy. destruct (parse f o one x) as [gx|cx] eqn:Ex; [|discriminate].
  inversion Hxy; subst. exact (IH o one x y Hx Ex).
Qed.

(* MAIN (C17, objects built through Parse): the bytes are a text of the JSON grammar for an object whose
   first member is "type": <name> *)
Theorem parsed_bytes_are_json (fmt : Z -> list Z) (fmt_number : forall k, num_lexeme (fmt k) = true)
    (fuel : nat) (o : popts) (one : Z) (v : jv) (g : gobj) :
  fin_doc v = true -> lex_ok v = true -> parse fuel o one v = POk g ->
  json_text (emit fmt g) (emit_jv fmt g) /\
  exists rest, emit_jv fmt g = JObj ((key s_type, str_jv (type_name g)) :: rest).
Proof.
  intros Hv Hl Hp. pose proof (parse_pf fuel o one v g Hv Hp) as Hpf.
  pose proof (parse_plex fuel o one v g (conj Hv Hl) Hp) as Hx.
  apply (emit_wellformed fmt fmt_number g); [exact (proj1 (pf_wf o one g Hpf))|exact (pf_plex_lex o one g Hpf Hx)].
Qed.

Print Assumptions parsed_bytes_are_json.
