(* SphereRect.v — property C14 over the reals: the longitude band of
   RectFromCenter covers the disc, and the angle the code computes (since the
   repair 7efb257: atan2 (sin r) (sqrt (cos (lat+r) * cos (lat-r)))) is the
   tangent longitude asin (sin r / cos lat) of that band.  Together with
   Sphere.disc_latitude_band: when the disc reaches neither a pole nor the
   antimeridian, every location within the radius lies in the rectangle. *)
From Coq Require Import Reals Lra Lia.
From GJ Require Import Sphere.
Open Scope R_scope.

Lemma sqr_sin_cos x : sin x * sin x + cos x * cos x = 1.
Proof. pose proof (sin2_cos2 x) as H. unfold Rsqr in H. exact H. Qed.

(* the haversine of a pair is (1 - cos of the central angle) / 2 *)
Lemma hav_cos (lat0 lon0 lat lon : R) :
  hav lat0 lon0 lat lon =
  (1 - (sin (rad lat0) * sin (rad lat) + cos (rad lat0) * cos (rad lat) * cos (rad lon - rad lon0))) / 2.
Proof.
  unfold hav. cbv zeta. rewrite !sin_half_sqr. rewrite cos_minus. field.
Qed.

(* cos (a+b) cos (a-b) = cos^2 a - sin^2 b *)
Lemma cos_sum_diff (a b : R) : cos (a + b) * cos (a - b) = cos a * cos a - sin b * sin b.
Proof.
  rewrite cos_plus, cos_minus. pose proof (sqr_sin_cos a). pose proof (sqr_sin_cos b). nra.
Qed.

(* MAIN 1: a location within angular distance r of the centre, for a disc that stays clear of the poles,
   differs in longitude by at most the tangent longitude *)
Theorem disc_longitude_band (lat0 lon0 lat lon r : R) :
  lat_ok lat0 -> lat_ok lat -> 0 <= r -> Rabs (rad lat0) + r < PI / 2 ->
  - PI <= rad lon - rad lon0 <= PI ->
  hav lat0 lon0 lat lon <= sin (r / 2) * sin (r / 2) ->
  Rabs (rad lon - rad lon0) <= asin (sin r / cos (rad lat0)).
Proof.
  intros H0 H1 Hr Hpole HL Hh. pose proof PI_RGT_0 as Hpi.
  set (p0 := rad lat0) in *. set (p := rad lat) in *. set (L := rad lon - rad lon0) in *.
  pose proof (rad_lat_bounds lat H1) as Bp. fold p in Bp.
  assert (Bp0 : - (PI / 2) < p0 < PI / 2) by (unfold Rabs in Hpole; destruct (Rcase_abs p0); lra).
  assert (C0 : 0 < cos p0) by (apply cos_gt_0; lra).
  assert (C1 : 0 <= cos p) by (apply cos_ge_0; lra).
  assert (Hr2 : r < PI / 2) by (pose proof (Rabs_pos p0); lra).
  assert (Cr : 0 < cos r) by (apply cos_gt_0; lra).
  assert (Sr : 0 <= sin r) by (apply sin_ge_0; lra).
  (* |sin p0| < cos r : the disc stays clear of the poles *)
  assert (Hclear : Rabs (sin p0) < cos r).
  { assert (E : Rabs (sin p0) = sin (Rabs p0)).
    { unfold Rabs at 2. destruct (Rcase_abs p0) as [N|N].
      - rewrite sin_neg. apply Rabs_left. apply sin_lt_0_var; lra.
      - apply Rabs_right. apply Rle_ge. apply sin_ge_0; lra. }
    rewrite E. rewrite <- (cos_shift (Rabs p0)).
    apply cos_decreasing_1; pose proof (Rabs_pos p0); lra. }
  (* the central angle *)
  rewrite hav_cos in Hh. fold p0 p L in Hh. rewrite sin_half_sqr in Hh.
  set (C := sin p0 * sin p + cos p0 * cos p * cos L) in *.
  assert (HC : cos r <= C) by lra.
  pose proof (SIN_bound p) as [Sp1 Sp2].
  (* step 1: cos L > 0 *)
  assert (CL : 0 < cos L).
  { destruct (Rlt_dec 0 (cos L)) as [G|G]; [exact G|]. exfalso.
    assert (Hneg : cos p0 * cos p * cos L <= 0).
    { assert (0 <= cos p0 * cos p) by (apply Rmult_le_pos; lra). assert (cos L <= 0) by lra. nra. }
    assert (Hss : sin p0 * sin p <= Rabs (sin p0)).
    { unfold Rabs. destruct (Rcase_abs (sin p0)); nra. }
    unfold C in HC. lra. }
  assert (BL : - (PI / 2) < L < PI / 2).
  { split.
    - destruct (Rlt_dec (- (PI / 2)) L) as [G|G]; [exact G|]. exfalso.
      assert (cos L <= 0).
      { rewrite <- cos_neg. apply cos_le_0; lra. }
      lra.
    - destruct (Rlt_dec L (PI / 2)) as [G|G]; [exact G|]. exfalso.
      assert (cos L <= 0) by (apply cos_le_0; lra). lra. }
  (* step 2: Cauchy-Schwarz on (sin p0, cos p0 cos L) . (sin p, cos p) *)
  assert (CS : C * C <= sin p0 * sin p0 + cos p0 * cos p0 * (cos L * cos L)).
  { pose proof (sqr_sin_cos p) as Ep.
    pose proof (Rle_0_sqr (sin p0 * cos p - cos p0 * cos L * sin p)) as Hz. unfold Rsqr in Hz.
    assert (Id : C * C + (sin p0 * cos p - cos p0 * cos L * sin p) * (sin p0 * cos p - cos p0 * cos L * sin p)
                 = (sin p0 * sin p0 + cos p0 * cos p0 * (cos L * cos L)) * (sin p * sin p + cos p * cos p))
      by (unfold C; ring).
    rewrite Ep, Rmult_1_r in Id. lra. }
  assert (Hsq : cos p0 * cos p0 * (sin L * sin L) <= sin r * sin r).
  { pose proof (sqr_sin_cos p0). pose proof (sqr_sin_cos L). pose proof (sqr_sin_cos r).
    assert (cos r * cos r <= C * C) by nra. nra. }
  (* step 3: sin |L| <= sin r / cos p0 *)
  set (x := sin r / cos p0).
  assert (Hx0 : 0 <= x) by (unfold x; apply Rmult_le_pos; [exact Sr|left; apply Rinv_0_lt_compat; exact C0]).
  assert (Hx1 : x < 1).
  { unfold x. apply Rmult_lt_reg_r with (cos p0); [exact C0|]. unfold Rdiv. rewrite Rmult_assoc, Rinv_l, Rmult_1_r, Rmult_1_l by lra.
    (* sin r < cos p0 : r < PI/2 - |p0| *)
    assert (E : cos p0 = sin (PI / 2 - Rabs p0)).
    { rewrite sin_shift. unfold Rabs. destruct (Rcase_abs p0); [rewrite cos_neg|]; reflexivity. }
    rewrite E. apply sin_increasing_1; pose proof (Rabs_pos p0); lra. }
  assert (HsL : sin (Rabs L) <= x).
  { assert (E : sin (Rabs L) * sin (Rabs L) = sin L * sin L).
    { unfold Rabs. destruct (Rcase_abs L); [apply sin_sqr_neg|reflexivity]. }
    assert (S0 : 0 <= sin (Rabs L)).
    { apply sin_ge_0; [apply Rabs_pos|]. unfold Rabs. destruct (Rcase_abs L); lra. }
    unfold x. apply Rmult_le_reg_r with (cos p0); [exact C0|]. unfold Rdiv. rewrite Rmult_assoc, Rinv_l, Rmult_1_r by lra.
    assert (0 <= sin (Rabs L) * cos p0) by (apply Rmult_le_pos; lra).
    destruct (Rle_dec (sin (Rabs L) * cos p0) (sin r)) as [G|G]; [exact G|]. exfalso.
    assert (sin r < sin (Rabs L) * cos p0) by lra. nra. }
  pose proof (asin_bound x) as [A1 A2].
  destruct (Rle_dec (Rabs L) (asin x)) as [G|G]; [exact G|]. exfalso.
  assert (HL2 : 0 <= Rabs L < PI / 2) by (split; [apply Rabs_pos|unfold Rabs; destruct (Rcase_abs L); lra]).
  assert (S : sin (asin x) < sin (Rabs L)) by (apply sin_increasing_1; lra).
  rewrite sin_asin in S by lra. lra.
Qed.

(* MAIN 2: the angle RectFromCenter computes is that tangent longitude *)
Theorem rect_lon_is_tangent_longitude (lat r : R) :
  0 <= r -> Rabs lat + r < PI / 2 ->
  atan (sin r / sqrt (cos (lat + r) * cos (lat - r))) = asin (sin r / cos lat).
Proof.
  intros Hr Hpole. pose proof PI_RGT_0 as Hpi.
  assert (Bl : - (PI / 2) < lat < PI / 2) by (unfold Rabs in Hpole; destruct (Rcase_abs lat); lra).
  assert (C0 : 0 < cos lat) by (apply cos_gt_0; lra).
  assert (Hr2 : r < PI / 2) by (pose proof (Rabs_pos lat); lra).
  assert (Sr : 0 <= sin r) by (apply sin_ge_0; lra).
  assert (Hlt : sin r < cos lat).
  { assert (E : cos lat = sin (PI / 2 - Rabs lat)).
    { rewrite sin_shift. unfold Rabs. destruct (Rcase_abs lat); [rewrite cos_neg|]; reflexivity. }
    rewrite E. apply sin_increasing_1; pose proof (Rabs_pos lat); lra. }
  set (x := sin r / cos lat).
  assert (Hx : -1 < x < 1).
  { unfold x. split.
    - apply Rlt_le_trans with 0; [lra|]. apply Rmult_le_pos; [exact Sr|left; apply Rinv_0_lt_compat; exact C0].
    - apply Rmult_lt_reg_r with (cos lat); [exact C0|]. unfold Rdiv. rewrite Rmult_assoc, Rinv_l, Rmult_1_r, Rmult_1_l by lra. exact Hlt. }
  rewrite (asin_atan x Hx). f_equal.
  rewrite cos_sum_diff.
  assert (P : 0 < cos lat * cos lat - sin r * sin r) by nra.
  assert (E : 1 - x² = (cos lat * cos lat - sin r * sin r) / (cos lat * cos lat)).
  { unfold x, Rsqr. field. lra. }
  rewrite E. rewrite sqrt_div_alt by nra. rewrite (sqrt_square (cos lat)) by lra.
  unfold x. field. split; [lra|]. apply Rgt_not_eq. apply sqrt_lt_R0. exact P.
Qed.

Print Assumptions disc_longitude_band.
Print Assumptions rect_lon_is_tangent_longitude.
