(* IntersectsProofs.v — C19: Segment.IntersectsSegment (repaired) equals the
   textbook orientation characterisation [seg_meet]; symmetry; ContainsSegment;
   CollinearPoint; the pinned code's asymmetry (finding F1) as a theorem. *)
From GJ Require Import Base Kernel KernelSpec RaycastProofs KernelProofs.

(* ---------------------------------------------------------------- *)
(* small characterisations of the building blocks                    *)
(* ---------------------------------------------------------------- *)

Lemma raycast_on_eq s p : raycast_on s p = on_segb s p.
Proof. unfold raycast_on. rewrite raycast_eq_spec. reflexivity. Qed.

Lemma axis_disjoint_iff a b c d :
  axis_disjoint a b c d = true <->
  (Z.max a b < Z.min c d \/ Z.max c d < Z.min a b).
Proof.
  unfold axis_disjoint.
  destruct (Z.ltb_spec b a), (Z.ltb_spec d c);
    rewrite orb_true_iff, !Z.ltb_lt; lia.
Qed.

Lemma unit_frac_iff n d :
  unit_frac n d = true <->
  ((0 < d /\ 0 <= n <= d) \/ (d <= 0 /\ d <= n <= 0)).
Proof.
  unfold unit_frac.
  destruct (Z.ltb_spec 0 d); rewrite andb_true_iff, !Z.leb_le; lia.
Qed.

Lemma on_seg_left a b : on_seg (a, b) a.
Proof. unfold on_seg, cross. split; [ring | lia]. Qed.

Lemma on_seg_right a b : on_seg (a, b) b.
Proof. unfold on_seg, cross. split; [ring | lia]. Qed.

Lemma pt_eq_coords (p q : pt) : px p = px q -> py p = py q -> p = q.
Proof. destruct p, q; unfold px, py; simpl; congruence. Qed.

(* ---------------------------------------------------------------- *)
(* the algebra of two segments a->b (r) and c->d (s)                  *)
(* ---------------------------------------------------------------- *)

(* r x s *)
Definition rxs (a b c d : pt) : Z :=
  (px b - px a) * (py d - py c) - (py b - py a) * (px d - px c).

Lemma id_B a b c d : cross a b d = cross a b c + rxs a b c d.
Proof. unfold cross, rxs. ring. Qed.

Lemma id_D a b c d : cross c d b = cross c d a - rxs a b c d.
Proof. unfold cross, rxs. ring. Qed.

(* Cramer: the meeting point q of the two lines satisfies
   rxs*(q-a) = C*r and rxs*(q-c) = -A*s; the identities below relate each of
   the four endpoints to q. *)
Lemma id_dx a b c d :
  rxs a b c d * (px d - px a) = cross c d a * (px b - px a) + cross a b d * (px d - px c).
Proof. unfold cross, rxs. ring. Qed.
Lemma id_dy a b c d :
  rxs a b c d * (py d - py a) = cross c d a * (py b - py a) + cross a b d * (py d - py c).
Proof. unfold cross, rxs. ring. Qed.

Lemma id_ax a b c d :
  rxs a b c d * (px a - px c) = - cross a b c * (px d - px c) - cross c d a * (px b - px a).
Proof. unfold cross, rxs. ring. Qed.
Lemma id_ay a b c d :
  rxs a b c d * (py a - py c) = - cross a b c * (py d - py c) - cross c d a * (py b - py a).
Proof. unfold cross, rxs. ring. Qed.

Lemma id_bx a b c d :
  rxs a b c d * (px b - px c) = - cross a b c * (px d - px c) - cross c d b * (px b - px a).
Proof. unfold cross, rxs. ring. Qed.
Lemma id_by a b c d :
  rxs a b c d * (py b - py c) = - cross a b c * (py d - py c) - cross c d b * (py b - py a).
Proof. unfold cross, rxs. ring. Qed.

(* the two convex-combination expressions of the meeting point *)
Lemma id_meet_x a b c d :
  cross c d a * px b - cross c d b * px a = cross a b d * px c - cross a b c * px d.
Proof. unfold cross. ring. Qed.
Lemma id_meet_y a b c d :
  cross c d a * py b - cross c d b * py a = cross a b d * py c - cross a b c * py d.
Proof. unfold cross. ring. Qed.

(* parallel lines: sx*A = -rx*C - (ax-cx)*rxs etc. *)
Lemma id_par_x a b c d :
  (px d - px c) * cross a b c = - (px b - px a) * cross c d a - (px a - px c) * rxs a b c d.
Proof. unfold cross, rxs. ring. Qed.
Lemma id_par_y a b c d :
  (py d - py c) * cross a b c = - (py b - py a) * cross c d a - (py a - py c) * rxs a b c d.
Proof. unfold cross, rxs. ring. Qed.

(* ---------------------------------------------------------------- *)
(* arithmetic helpers                                                 *)
(* ---------------------------------------------------------------- *)

(* k/r = n/d with n/d in [0,1]  ==>  k between 0 and r *)
Lemma frac_between n d k r :
  d * k = n * r ->
  ((0 < d /\ 0 <= n <= d) \/ (d < 0 /\ d <= n <= 0)) ->
  Z.min 0 r <= k <= Z.max 0 r.
Proof.
  intros E [[Hd Hn]|[Hd Hn]]; destruct (Z.lt_trichotomy 0 r) as [Hr|[Hr|Hr]];
    split; nia.
Qed.

Lemma frac_between_inv n d k r :
  d * k = n * r -> r <> 0 -> d <> 0 ->
  Z.min 0 r <= k <= Z.max 0 r ->
  ((0 < d /\ 0 <= n <= d) \/ (d < 0 /\ d <= n <= 0)).
Proof.
  intros E Hr Hd Hk.
  destruct (Z.lt_trichotomy 0 r) as [Hr'|[Hr'|Hr']]; [| lia |];
  destruct (Z.lt_trichotomy 0 d) as [Hd'|[Hd'|Hd']]; try lia;
    [left | right | left | right]; repeat split; nia.
Qed.

(* two convex combinations (equal total weight) of separated pairs differ *)
Lemma convex_sep w1 w2 v1 v2 y1 y2 z1 z2 :
  0 < w1 -> 0 < w2 -> 0 < v1 -> 0 < v2 -> w1 + w2 = v1 + v2 ->
  w1 * y1 + w2 * y2 = v1 * z1 + v2 * z2 ->
  Z.max y1 y2 < Z.min z1 z2 -> False.
Proof.
  intros W1 W2 V1 V2 ES EQ Hs.
  set (m := Z.min z1 z2) in *.
  assert (0 < w1 * (m - y1)) by nia.
  assert (0 < w2 * (m - y2)) by nia.
  assert (0 <= v1 * (z1 - m)) by nia.
  assert (0 <= v2 * (z2 - m)) by nia.
  nia.
Qed.

Lemma convex_overlap w1 w2 v1 v2 y1 y2 z1 z2 :
  0 < w1 -> 0 < w2 -> 0 < v1 -> 0 < v2 -> w1 + w2 = v1 + v2 ->
  w1 * y1 + w2 * y2 = v1 * z1 + v2 * z2 ->
  ~ (Z.max y1 y2 < Z.min z1 z2 \/ Z.max z1 z2 < Z.min y1 y2).
Proof.
  intros W1 W2 V1 V2 ES EQ [H|H].
  - exact (convex_sep w1 w2 v1 v2 y1 y2 z1 z2 W1 W2 V1 V2 ES EQ H).
  - symmetry in ES, EQ.
    exact (convex_sep v1 v2 w1 w2 z1 z2 y1 y2 V1 V2 W1 W2 ES EQ H).
Qed.

(* ---------------------------------------------------------------- *)
(* geometry                                                           *)
(* ---------------------------------------------------------------- *)

(* c, d strictly on opposite sides of the line a b *)
Definition opp (a b c d : pt) : Prop :=
  0 < cross a b c /\ cross a b d < 0 \/ cross a b c < 0 /\ 0 < cross a b d.

Lemma seg_meet_unfold a b c d :
  seg_meet (a, b) (c, d) <->
  (on_seg (a, b) c \/ on_seg (a, b) d \/ on_seg (c, d) a \/ on_seg (c, d) b \/
   (opp a b c d /\ opp c d a b)).
Proof. reflexivity. Qed.

(* a proper crossing forces the bounding boxes to overlap on each axis *)
Lemma opp_overlap_y a b c d :
  opp a b c d -> opp c d a b ->
  ~ (Z.max (py a) (py b) < Z.min (py c) (py d) \/
     Z.max (py c) (py d) < Z.min (py a) (py b)).
Proof.
  unfold opp. intros H1 H2.
  pose proof (id_B a b c d) as HB. pose proof (id_D a b c d) as HD.
  pose proof (id_meet_y a b c d) as HM.
  set (A := cross a b c) in *. set (B := cross a b d) in *.
  set (C := cross c d a) in *. set (D := cross c d b) in *.
  destruct H1 as [[? ?]|[? ?]], H2 as [[? ?]|[? ?]]; try lia.
  - intros Hsep. apply (convex_overlap A (-B) D (-C) (py d) (py c) (py a) (py b)); lia.
  - intros Hsep. apply (convex_overlap (-A) B (-D) C (py d) (py c) (py a) (py b)); lia.
Qed.

Lemma opp_overlap_x a b c d :
  opp a b c d -> opp c d a b ->
  ~ (Z.max (px a) (px b) < Z.min (px c) (px d) \/
     Z.max (px c) (px d) < Z.min (px a) (px b)).
Proof.
  unfold opp. intros H1 H2.
  pose proof (id_B a b c d) as HB. pose proof (id_D a b c d) as HD.
  pose proof (id_meet_x a b c d) as HM.
  set (A := cross a b c) in *. set (B := cross a b d) in *.
  set (C := cross c d a) in *. set (D := cross c d b) in *.
  destruct H1 as [[? ?]|[? ?]], H2 as [[? ?]|[? ?]]; try lia.
  - intros Hsep. apply (convex_overlap A (-B) D (-C) (px d) (px c) (px a) (px b)); lia.
  - intros Hsep. apply (convex_overlap (-A) B (-D) C (px d) (px c) (px a) (px b)); lia.
Qed.

Lemma seg_meet_overlap_y a b c d :
  seg_meet (a, b) (c, d) ->
  ~ (Z.max (py a) (py b) < Z.min (py c) (py d) \/
     Z.max (py c) (py d) < Z.min (py a) (py b)).
Proof.
  rewrite seg_meet_unfold. unfold on_seg.
  intros [H|[H|[H|[H|[H1 H2]]]]]; try lia.
  apply opp_overlap_y; assumption.
Qed.

Lemma seg_meet_overlap_x a b c d :
  seg_meet (a, b) (c, d) ->
  ~ (Z.max (px a) (px b) < Z.min (px c) (px d) \/
     Z.max (px c) (px d) < Z.min (px a) (px b)).
Proof.
  rewrite seg_meet_unfold. unfold on_seg.
  intros [H|[H|[H|[H|[H1 H2]]]]]; try lia.
  apply opp_overlap_x; assumption.
Qed.

Lemma cross_nz_r a b c :
  cross a b c <> 0 -> px b - px a <> 0 \/ py b - py a <> 0.
Proof.
  intros H.
  destruct (Z.eq_dec (px b - px a) 0) as [E|E]; [|left; exact E].
  destruct (Z.eq_dec (py b - py a) 0) as [E'|E']; [|right; exact E'].
  exfalso; apply H. unfold cross. rewrite E, E'. ring.
Qed.

Lemma rxs_nz_s a b c d :
  rxs a b c d <> 0 -> px d - px c <> 0 \/ py d - py c <> 0.
Proof.
  intros H.
  destruct (Z.eq_dec (px d - px c) 0) as [E|E]; [|left; exact E].
  destruct (Z.eq_dec (py d - py c) 0) as [E'|E']; [|right; exact E'].
  exfalso; apply H. unfold rxs. rewrite E, E'. ring.
Qed.

(* a point of the line a b whose x (or y) lies strictly-then-weakly between
   the endpoints' is on the segment: the Go code's "else true" shortcut *)
Lemma collinear_between_x a b c :
  cross a b c = 0 ->
  (px c <= px a /\ px b < px c \/ px a < px c /\ px c <= px b) ->
  on_seg (a, b) c.
Proof.
  unfold on_seg. intros E H. split; [exact E|]. split; [lia|].
  unfold cross in E.
  destruct (Z.lt_trichotomy (py a) (py b)) as [?|[?|?]];
    destruct H as [[? ?]|[? ?]]; split; nia.
Qed.

Lemma collinear_between_y a b c :
  cross a b c = 0 ->
  (py c <= py a /\ py b < py c \/ py a < py c /\ py c <= py b) ->
  on_seg (a, b) c.
Proof.
  unfold on_seg. intros E H. split; [exact E|]. split; [|lia].
  unfold cross in E.
  destruct (Z.lt_trichotomy (px a) (px b)) as [?|[?|?]];
    destruct H as [[? ?]|[? ?]]; split; nia.
Qed.

(* parallel, non-collinear: no meeting *)
Lemma parallel_no_meet a b c d :
  cross a b c <> 0 -> rxs a b c d = 0 -> ~ seg_meet (a, b) (c, d).
Proof.
  intros HA HR. rewrite seg_meet_unfold. unfold opp, on_seg.
  pose proof (id_B a b c d) as HB. pose proof (id_D a b c d) as HD.
  pose proof (id_par_x a b c d) as HPx. pose proof (id_par_y a b c d) as HPy.
  rewrite HR in *.
  set (A := cross a b c) in *. set (B := cross a b d) in *.
  set (C := cross c d a) in *. set (D := cross c d b) in *.
  assert (HC : C = 0 -> px d - px c = 0 /\ py d - py c = 0).
  { intros E. rewrite E in *. split; nia. }
  intros [H|[H|[H|[H|[H1 H2]]]]]; try lia.
  - destruct H as (E & Hx & Hy). destruct (HC E) as [Ex Ey].
    apply HA. unfold A, cross.
    replace (px c) with (px a) by lia. replace (py c) with (py a) by lia. ring.
  - destruct H as (E & Hx & Hy). assert (E' : C = 0) by lia.
    destruct (HC E') as [Ex Ey].
    assert (Eb : cross a b b = 0) by (unfold cross; ring).
    apply HA. unfold A.
    replace c with b; [exact Eb|]. apply pt_eq_coords; lia.
Qed.

Definition unit_fracP (n d : Z) : Prop :=
  (0 < d /\ 0 <= n <= d) \/ (d <= 0 /\ d <= n <= 0).

(* transversal lines, c off the line a b: the two Cramer quotients are in
   [0,1] exactly when the segments meet *)
Lemma transversal_meet a b c d :
  cross a b c <> 0 -> rxs a b c d <> 0 ->
  (seg_meet (a, b) (c, d) <->
   unit_fracP (cross c d a) (rxs a b c d) /\
   unit_fracP (- cross a b c) (rxs a b c d)).
Proof.
  intros HA HR. rewrite seg_meet_unfold. unfold opp, on_seg, unit_fracP.
  pose proof (id_B a b c d) as HB. pose proof (id_D a b c d) as HD.
  pose proof (id_dx a b c d) as Hdx. pose proof (id_dy a b c d) as Hdy.
  pose proof (id_ax a b c d) as Hax. pose proof (id_ay a b c d) as Hay.
  pose proof (id_bx a b c d) as Hbx. pose proof (id_by a b c d) as Hby.
  pose proof (cross_nz_r a b c HA) as Hr.
  pose proof (rxs_nz_s a b c d HR) as Hs.
  set (A := cross a b c) in *. set (B := cross a b d) in *.
  set (C := cross c d a) in *. set (D := cross c d b) in *.
  set (R := rxs a b c d) in *.
  split.
  - intros [H|[H|[H|[H|[H1 H2]]]]].
    + lia.
    + destruct H as (E & Hx & Hy). rewrite E in *.
      rewrite Z.mul_0_l, Z.add_0_r in Hdx, Hdy.
      split; [|lia].
      assert (HH : (0 < R /\ 0 <= C <= R) \/ (R < 0 /\ R <= C <= 0)).
      { destruct Hr as [Hr|Hr].
        - apply (frac_between_inv C R (px d - px a) (px b - px a)); auto; lia.
        - apply (frac_between_inv C R (py d - py a) (py b - py a)); auto; lia. }
      lia.
    + destruct H as (E & Hx & Hy). rewrite E in *.
      rewrite Z.mul_0_l, Z.sub_0_r in Hax, Hay.
      split; [lia|].
      assert (HH : (0 < R /\ 0 <= -A <= R) \/ (R < 0 /\ R <= -A <= 0)).
      { destruct Hs as [Hs|Hs].
        - apply (frac_between_inv (-A) R (px a - px c) (px d - px c)); auto; lia.
        - apply (frac_between_inv (-A) R (py a - py c) (py d - py c)); auto; lia. }
      lia.
    + destruct H as (E & Hx & Hy). rewrite E in *.
      rewrite Z.mul_0_l, Z.sub_0_r in Hbx, Hby.
      split; [lia|].
      assert (HH : (0 < R /\ 0 <= -A <= R) \/ (R < 0 /\ R <= -A <= 0)).
      { destruct Hs as [Hs|Hs].
        - apply (frac_between_inv (-A) R (px b - px c) (px d - px c)); auto; lia.
        - apply (frac_between_inv (-A) R (py b - py c) (py d - py c)); auto; lia. }
      lia.
    + lia.
  - intros [H1 H2].
    assert (H1' : (0 < R /\ 0 <= C <= R) \/ (R < 0 /\ R <= C <= 0)) by lia.
    assert (H2' : (0 < R /\ 0 <= -A <= R) \/ (R < 0 /\ R <= -A <= 0)) by lia.
    destruct (Z.eq_dec B 0) as [EB|NB].
    { right; left. split; [exact EB|]. rewrite EB in *.
      rewrite Z.mul_0_l, Z.add_0_r in Hdx, Hdy.
      pose proof (frac_between C R (px d - px a) (px b - px a) Hdx H1').
      pose proof (frac_between C R (py d - py a) (py b - py a) Hdy H1').
      lia. }
    destruct (Z.eq_dec C 0) as [EC|NC].
    { right; right; left. split; [exact EC|]. rewrite EC in *.
      rewrite Z.mul_0_l, Z.sub_0_r in Hax, Hay.
      pose proof (frac_between (-A) R (px a - px c) (px d - px c) Hax H2').
      pose proof (frac_between (-A) R (py a - py c) (py d - py c) Hay H2').
      lia. }
    destruct (Z.eq_dec D 0) as [ED|ND].
    { right; right; right; left. split; [exact ED|]. rewrite ED in *.
      rewrite Z.mul_0_l, Z.sub_0_r in Hbx, Hby.
      pose proof (frac_between (-A) R (px b - px c) (px d - px c) Hbx H2').
      pose proof (frac_between (-A) R (py b - py c) (py d - py c) Hby H2').
      lia. }
    right; right; right; right. lia.
Qed.

(* ---------------------------------------------------------------- *)
(* 1. IntersectsSegment (repaired) = seg_meet                         *)
(* ---------------------------------------------------------------- *)

Theorem intersects_segment_iff (s o : seg) :
  intersects_segment s o = true <-> seg_meet s o.
Proof.
  destruct s as [a b], o as [c d].
  unfold intersects_segment, intersects_segment_gen.
  destruct (axis_disjoint (py a) (py b) (py c) (py d)) eqn:Ey.
  { apply axis_disjoint_iff in Ey. split; [discriminate|].
    intros H; exfalso. exact (seg_meet_overlap_y _ _ _ _ H Ey). }
  destruct (axis_disjoint (px a) (px b) (px c) (px d)) eqn:Ex.
  { apply axis_disjoint_iff in Ex. split; [discriminate|].
    intros H; exfalso. exact (seg_meet_overlap_x _ _ _ _ H Ex). }
  clear Ey Ex.
  destruct (pt_eqb a c || pt_eqb a d || pt_eqb b c || pt_eqb b d) eqn:Eeq.
  { split; [intros _|reflexivity].
    rewrite !orb_true_iff, !pt_eqb_eq in Eeq. rewrite seg_meet_unfold.
    destruct Eeq as [[[E|E]|E]|E]; subst.
    - left. apply on_seg_left.
    - right; left. apply on_seg_left.
    - left. apply on_seg_right.
    - right; left. apply on_seg_right. }
  clear Eeq.
  cbv zeta.
  rewrite !raycast_on_eq.
  assert (EA : (px c - px a) * (py b - py a) - (py c - py a) * (px b - px a)
               = - cross a b c) by (unfold cross; ring).
  assert (EC : (px c - px a) * (py d - py c) - (py c - py a) * (px d - px c)
               = cross c d a) by (unfold cross; ring).
  rewrite EA, EC. clear EA EC.
  change ((px b - px a) * (py d - py c) - (py b - py a) * (px d - px c))
    with (rxs a b c d).
  destruct (Z.eqb_spec (- cross a b c) 0) as [HA|HA].
  - (* c on the line a b *)
    assert (HA' : cross a b c = 0) by lia. clear HA.
    destruct (Z.leb_spec (px c - px a) 0), (Z.leb_spec (px c - px b) 0),
             (Z.leb_spec (py c - py a) 0), (Z.leb_spec (py c - py b) 0);
      cbn [Bool.eqb negb orb andb];
      try (split; [intros _|reflexivity]; rewrite seg_meet_unfold; left;
           first [ apply collinear_between_x; [exact HA'|lia]
                 | apply collinear_between_y; [exact HA'|lia] ]).
    all: rewrite !orb_true_iff, !on_segb_iff, seg_meet_unfold; unfold opp;
      split; [tauto | intros [Hm|[Hm|[Hm|[Hm|[Hm1 Hm2]]]]]; try tauto; exfalso; lia].
  - assert (HA' : cross a b c <> 0) by lia. clear HA.
    destruct (Z.eqb_spec (rxs a b c d) 0) as [HR|HR].
    + split; [discriminate|]. intros H; exfalso.
      exact (parallel_no_meet a b c d HA' HR H).
    + rewrite (transversal_meet a b c d HA' HR).
      rewrite andb_true_iff, !unit_frac_iff. reflexivity.
Qed.

(* ---------------------------------------------------------------- *)
(* 2. symmetry                                                        *)
(* ---------------------------------------------------------------- *)

Theorem seg_meet_sym (s o : seg) : seg_meet s o <-> seg_meet o s.
Proof.
  destruct s as [a b], o as [c d]. rewrite !seg_meet_unfold. tauto.
Qed.

Theorem intersects_segment_sym (s o : seg) :
  intersects_segment s o = intersects_segment o s.
Proof.
  apply bool_eq_iff. rewrite !intersects_segment_iff. apply seg_meet_sym.
Qed.

(* ---------------------------------------------------------------- *)
(* 3. the boolean oracle reflects seg_meet                            *)
(* ---------------------------------------------------------------- *)

Theorem seg_meetb_iff (s o : seg) : seg_meetb s o = true <-> seg_meet s o.
Proof.
  destruct s as [a b], o as [c d]. rewrite seg_meet_unfold.
  unfold seg_meetb, opp.
  rewrite !orb_true_iff, !andb_true_iff, !orb_true_iff, !andb_true_iff,
          !on_segb_iff, !Z.ltb_lt.
  tauto.
Qed.

(* ---------------------------------------------------------------- *)
(* 4. ContainsSegment                                                 *)
(* ---------------------------------------------------------------- *)

Theorem seg_contains_segment_iff (s o : seg) :
  seg_contains_segment s o = true <-> (on_seg s (fst o) /\ on_seg s (snd o)).
Proof.
  unfold seg_contains_segment. rewrite andb_true_iff, !raycast_on_iff. reflexivity.
Qed.

(* ---------------------------------------------------------------- *)
(* 5. CollinearPoint                                                  *)
(* ---------------------------------------------------------------- *)

Theorem collinear_point_iff (s : seg) (p : pt) :
  collinear_point s p = true <-> cross (fst s) (snd s) p = 0.
Proof.
  destruct s as [a b]. unfold collinear_point. cbn [fst snd].
  rewrite Z.eqb_eq.
  replace ((px p - px a) * (py b - py a) - (py p - py a) * (px b - px a))
    with (- cross a b p) by (unfold cross; ring).
  lia.
Qed.

(* ---------------------------------------------------------------- *)
(* 6. the pinned code is asymmetric and misses a meeting (finding F1) *)
(* ---------------------------------------------------------------- *)

Theorem intersects_segment_pinned_refuted :
  exists s o, intersects_segment_pinned s o = false /\
              intersects_segment_pinned o s = true /\ seg_meet s o.
Proof.
  exists ((1, 0), (2, 0)), ((0, 0), (3, 0)).
  split; [vm_compute; reflexivity|].
  split; [vm_compute; reflexivity|].
  apply seg_meetb_iff. vm_compute. reflexivity.
Qed.

(* ---------------------------------------------------------------- *)
(* extras: what the pinned code does get right, and exactly what it   *)
(* misses                                                             *)
(* ---------------------------------------------------------------- *)

Lemma pinned_implies_fixed (s o : seg) :
  intersects_segment_pinned s o = true -> intersects_segment s o = true.
Proof.
  destruct s as [a b], o as [c d].
  unfold intersects_segment, intersects_segment_pinned, intersects_segment_gen.
  cbv zeta.
  repeat match goal with
  | |- context [if ?c then _ else _] => destruct c
  end; auto.
  cbn [andb]. rewrite orb_false_r. intros ->. reflexivity.
Qed.

(* the pinned code never reports a meeting that is not there ... *)
Theorem intersects_segment_pinned_sound (s o : seg) :
  intersects_segment_pinned s o = true -> seg_meet s o.
Proof. intros H. apply intersects_segment_iff, pinned_implies_fixed, H. Qed.

(* ... and every meeting it misses is the configuration of finding F1: c on
   the line a b, neither end of o on s, but an end of s on o (s nested in o) *)
Theorem intersects_segment_pinned_miss (s o : seg) :
  intersects_segment_pinned s o = false -> seg_meet s o ->
  cross (fst s) (snd s) (fst o) = 0 /\
  ~ on_seg s (fst o) /\ ~ on_seg s (snd o) /\
  (on_seg o (fst s) \/ on_seg o (snd s)).
Proof.
  intros Hp Hm. apply intersects_segment_iff in Hm. revert Hp Hm.
  destruct s as [a b], o as [c d]. cbn [fst snd].
  unfold intersects_segment, intersects_segment_pinned, intersects_segment_gen.
  cbv zeta.
  assert (EA : (px c - px a) * (py b - py a) - (py c - py a) * (px b - px a)
               = - cross a b c) by (unfold cross; ring).
  rewrite EA. clear EA.
  destruct (axis_disjoint (py a) (py b) (py c) (py d)); [discriminate|].
  destruct (axis_disjoint (px a) (px b) (px c) (px d)); [discriminate|].
  destruct (pt_eqb a c || pt_eqb a d || pt_eqb b c || pt_eqb b d); [discriminate|].
  destruct (Z.eqb_spec (- cross a b c) 0) as [HA|HA]; [|congruence].
  match goal with
  | |- context [if ?c then _ else _] => destruct c
  end; [|discriminate].
  rewrite !raycast_on_eq. cbn [andb]. rewrite orb_false_r.
  intros Hp. apply orb_false_iff in Hp. destruct Hp as [H1 H2].
  rewrite H1, H2. cbn [orb]. rewrite orb_true_iff, !on_segb_iff. intros Hm.
  rewrite <- !on_segb_iff, H1, H2.
  split; [lia|]. split; [discriminate|]. split; [discriminate|].
  rewrite !on_segb_iff. exact Hm.
Qed.

Print Assumptions intersects_segment_iff.
Print Assumptions seg_meet_sym.
Print Assumptions intersects_segment_sym.
Print Assumptions seg_meetb_iff.
Print Assumptions seg_contains_segment_iff.
Print Assumptions collinear_point_iff.
Print Assumptions intersects_segment_pinned_refuted.
Print Assumptions intersects_segment_pinned_sound.
Print Assumptions intersects_segment_pinned_miss.
