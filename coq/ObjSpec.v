(* ObjSpec.v — specifications of the object layer, from the texts of properties
   C09, C10 and C11, independent of the dispatch code:
   - attributes (C11) as direct functions of the positions;
   - Contains / Intersects (C09, C10) as the composition laws of C10 over the
     point-set oracle of PairSpec at the leaves, Features transparent. *)
From GJ Require Import Base Kernel KernelSpec Series SeriesSpec RingSpec PairSpec Obj.

(* ---- C11 ---- *)

(* every position of every non-empty part *)
Fixpoint positions (o : obj) : list pt :=
  match o with
  | OPoint p | OSimple p => [p]
  | ORect r => [fst r; snd r]
  | OLine ps => if (length ps <? 2)%nat then [] else ps
  | OPoly rs => match rs with [] => [] | e :: hs => if (length e <? 3)%nat then [] else e end
  | OFeature b => positions b
  | OColl _ cs => flat_map positions cs
  end.

(* every position, occupied or not (for Valid) *)
Fixpoint all_positions (o : obj) : list pt :=
  match o with
  | OPoint p | OSimple p => [p]
  | ORect r => [fst r; snd r]
  | OLine ps => ps
  | OPoly rs => concat rs
  | OFeature b => all_positions b
  | OColl _ cs => flat_map all_positions cs
  end.

(* no part that occupies space *)
Definition spec_empty (o : obj) : bool := match positions o with [] => true | _ => false end.

Definition spec_rect (o : obj) : rect := bbox_spec (positions o).

Definition spec_valid (l180 l90 : Z) (o : obj) : bool :=
  forallb (fun p => (- l180 <=? px p) && (px p <=? l180) && (- l90 <=? py p) && (py p <=? l90)) (all_positions o).

Definition spec_center2 (o : obj) : pt :=
  match o with
  | OPoint p | OSimple p => (2 * px p, 2 * py p)
  | _ => let r := spec_rect o in (px (fst r) + px (snd r), py (fst r) + py (snd r))
  end.

Fixpoint spec_npoints (o : obj) : Z :=
  match o with
  | OPoint _ | OSimple _ => 1
  | ORect _ => 2
  | OLine ps => Z.of_nat (length ps)
  | OPoly rs => Z.of_nat (length (concat rs))
  | OFeature b => spec_npoints b
  | OColl _ cs => fold_right Z.add 0 (map spec_npoints cs)
  end.

(* ---- C09 / C10 ---- *)

Definition shape_of_leaf (o : obj) : option shape :=
  match o with
  | OPoint p | OSimple p => Some (SPoint p)
  | ORect r => Some (SRect r)
  | OLine ps => Some (SLine ps)
  | OPoly rs => match rs with [] => Some (SPoly [] []) | e :: hs => Some (SPoly e hs) end
  | _ => None
  end.

(* the leaf shapes of an object, Features transparent *)
Fixpoint leaf_shapes (o : obj) : list shape :=
  match o with
  | OFeature b => leaf_shapes b
  | OColl _ cs => flat_map leaf_shapes cs
  | _ => match shape_of_leaf o with Some s => [s] | None => [] end
  end.

(* intersects: some non-empty leaf of a meets some non-empty leaf of b *)
Definition spec_intersects (a b : obj) : bool :=
  existsb (fun sa => existsb (fun sb => meets_x sa sb) (leaf_shapes b)) (leaf_shapes a).

(* parts of X for collection containment: leaves (Features transparent), non-empty only *)
Fixpoint spec_parts (o : obj) : list obj :=
  match o with
  | OFeature b => spec_parts b
  | OColl _ cs => flat_map spec_parts cs
  | _ => if spec_empty o then [] else [o]
  end.

(* o within the leaf shape sa: a collection is within X iff it is non-empty and every child is *)
Fixpoint spec_within_shape (o : obj) (sa : shape) : bool :=
  match o with
  | OFeature b => spec_within_shape b sa
  | OColl _ cs => negb (spec_empty o) && forallb (fun c => spec_within_shape c sa) cs
  | _ => match shape_of_leaf o with Some sb => covers_x sa sb | None => false end
  end.

Fixpoint spec_contains (a b : obj) : bool :=
  match a with
  | OFeature base => spec_contains base b
  | OColl _ cs =>
      match spec_parts b with
      | [] => false
      | parts => forallb (fun p => existsb (fun c => negb (spec_empty c) && spec_contains c p) cs) parts
      end
  | _ => match shape_of_leaf a with Some sa => spec_within_shape b sa | None => false end
  end.
