(* SeriesSpec.v — specifications for C18/C11 at the series level, from the
   property texts: cyclic turns, shoelace area, tight bounding box, segment rule. *)
From GJ Require Import Base Kernel Series.

(* the cyclic vertex sequence of a ring: the repeated closing vertex, if
   present, is the same vertex as the first *)
Definition ring_vertices (ps : list pt) : list pt :=
  match ps with
  | [] => []
  | p :: _ => if pt_eqb (last ps pt0) p then removelast ps else ps
  end.

Definition cyc (vs : list pt) (i : nat) : pt := nth (i mod length vs) vs pt0.

(* orientation of the turn at vertex i+1 of the cyclic sequence *)
Definition turn (vs : list pt) (i : nat) : Z :=
  let a := cyc vs i in let b := cyc vs (i + 1) in let c := cyc vs (i + 2) in
  (px b - px a) * (py c - py b) - (py b - py a) * (px c - px b).

Definition convex_spec (vs : list pt) : Prop :=
  ~ exists i j, (i < length vs)%nat /\ (j < length vs)%nat /\ 0 < turn vs i /\ turn vs j < 0.

Definition convex_specb (vs : list pt) : bool :=
  let ts := map (turn vs) (seq 0 (length vs)) in
  negb (existsb (fun z => 0 <? z) ts && existsb (fun z => z <? 0) ts).

(* twice the signed (shoelace) area of the cyclic sequence; >0 = counter-clockwise *)
Definition shoelace2 (vs : list pt) : Z :=
  fold_left Z.add
    (map (fun i => let a := cyc vs i in let b := cyc vs (i + 1) in px a * py b - px b * py a)
         (seq 0 (length vs))) 0.

Definition clockwise_specb (vs : list pt) : bool := shoelace2 vs <? 0.

(* tight bounding box *)
Definition min_list (d : Z) (l : list Z) : Z := fold_left Z.min l d.
Definition max_list (d : Z) (l : list Z) : Z := fold_left Z.max l d.
Definition bbox_spec (ps : list pt) : rect :=
  match ps with
  | [] => (pt0, pt0)
  | p :: r =>
      ((min_list (px p) (map px r), min_list (py p) (map py r)),
       (max_list (px p) (map px r), max_list (py p) (map py r)))
  end.

(* the segment rule of C18 *)
Fixpoint path_segs (ps : list pt) : list seg :=
  match ps with
  | a :: ((b :: _) as r) => (a, b) :: path_segs r
  | _ => []
  end.

Definition segments_spec (s : series) : list seg :=
  let ps := pts s in
  if closed s then
    if (length ps <? 3)%nat then []
    else if pt_eqb (last ps pt0) (hd pt0 ps) then path_segs ps
    else path_segs ps ++ [(last ps pt0, hd pt0 ps)]
  else path_segs ps.
