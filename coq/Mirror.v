(* Mirror.v — property C12: reflection in the vertical axis (x -> -x).
   Point membership is defined with a ray to the RIGHT; its mirror image uses a ray to the left.
   For a point off the boundary the two crossing parities agree, because an edge that spans the
   point's ordinate (half-open rule) is crossed by exactly one of the two rays and a closed ring
   has an even number of spanning edges.  Hence ring / polygon membership is invariant under the
   reflection, and so — through the point-set theorems of JordanQ / JordanRing — are the
   Intersects answers of ring x segment, ring x line and ring x ring. *)
From Coq Require Import ZArith Bool List Lia.
From GJ Require Import Base Kernel KernelSpec Series SeriesSpec Ring RingSpec
  RaycastProofs KernelProofs IntersectsProofs SeriesProofs PipProofs PairProofs Invariance
  Jordan JordanQ JordanRing.
Import ListNotations.
Open Scope Z_scope.

Definition mir (p : pt) : pt := (- px p, py p).
Definition mirs (s : seg) : seg := (mir (fst s), mir (snd s)).

Lemma mir_mir p : mir (mir p) = p.
Proof. destruct p as [x y]. unfold mir, px, py. cbn [fst snd]. f_equal. lia. Qed.

Lemma cross_mir a b p : cross (mir a) (mir b) (mir p) = - cross a b p.
Proof. unfold cross, mir, px, py. cbn [fst snd]. ring. Qed.

Lemma pt_eqb_mir p q : pt_eqb (mir p) (mir q) = pt_eqb p q.
Proof.
  unfold pt_eqb, mir, px, py. cbn [fst snd]. f_equal. apply bool_eq_iff. rewrite !Z.eqb_eq. lia.
Qed.

Lemma on_segb_mir s p : on_segb (mirs s) (mir p) = on_segb s p.
Proof.
  destruct s as [a b]. unfold mirs, on_segb. cbn [fst snd]. rewrite cross_mir.
  unfold mir, px, py. cbn [fst snd].
  apply bool_eq_iff. rewrite !andb_true_iff, !Z.eqb_eq, !Z.leb_le. lia.
Qed.

(* the ray to the left *)
Definition crossesb_left (s : seg) (p : pt) : bool :=
  let '(a, b) := s in
  ((py a <=? py p) && (py p <? py b) && (cross a b p <? 0)) ||
  ((py b <=? py p) && (py p <? py a) && (0 <? cross a b p)).

Lemma crossesb_mir s p : crossesb (mirs s) (mir p) = crossesb_left s p.
Proof.
  destruct s as [a b]. unfold mirs, crossesb, crossesb_left. cbn [fst snd]. rewrite cross_mir.
  unfold mir, px, py. cbn [fst snd].
  apply bool_eq_iff. rewrite !orb_true_iff, !andb_true_iff, !Z.leb_le, !Z.ltb_lt. lia.
Qed.

(* off the edge: exactly one of the two rays crosses an edge that spans the ordinate *)
Lemma left_or_right (a b p : pt) : on_segb (a, b) p = false ->
  xorb (crossesb (a, b) p) (crossesb_left (a, b) p) = xorb (above p a) (above p b).
Proof.
  intros Hoff. unfold crossesb, crossesb_left, above.
  assert (Hn : ~ on_seg (a, b) p) by (rewrite <- on_segb_iff; congruence).
  destruct (Z.lt_trichotomy (cross a b p) 0) as [C|[C|C]].
  - replace (0 <? cross a b p) with false by (symmetry; apply Z.ltb_ge; lia).
    replace (cross a b p <? 0) with true by (symmetry; apply Z.ltb_lt; lia).
    rewrite !andb_false_r, !andb_true_r, orb_false_l, orb_false_r.
    destruct (Z.leb_spec (py a) (py p)), (Z.ltb_spec (py p) (py b)), (Z.leb_spec (py b) (py p)), (Z.ltb_spec (py p) (py a));
      cbn; try reflexivity; lia.
  - (* collinear: neither ray crosses; spanning would put p on the segment *)
    rewrite C. cbn [Z.ltb Z.compare]. rewrite !andb_false_r. cbn [orb xorb].
    destruct (Z.ltb_spec (py p) (py a)), (Z.ltb_spec (py p) (py b)); cbn [xorb]; try reflexivity; exfalso; apply Hn;
      apply IntersectsQ.collinear_in_y; try exact C; lia.
  - replace (0 <? cross a b p) with true by (symmetry; apply Z.ltb_lt; lia).
    replace (cross a b p <? 0) with false by (symmetry; apply Z.ltb_ge; lia).
    rewrite !andb_false_r, !andb_true_r, orb_false_l, orb_false_r.
    destruct (Z.leb_spec (py a) (py p)), (Z.ltb_spec (py p) (py b)), (Z.leb_spec (py b) (py p)), (Z.ltb_spec (py p) (py a));
      cbn; try reflexivity; lia.
Qed.

Lemma path_segs_mir ps : path_segs (map mir ps) = map mirs (path_segs ps).
Proof.
  induction ps as [|a r IH]; [reflexivity|]. destruct r as [|b r']; [reflexivity|].
  change (path_segs (mir a :: map mir (b :: r')) = mirs (a, b) :: map mirs (path_segs (b :: r'))).
  rewrite <- IH. reflexivity.
Qed.

Lemma last_map_mir ps : ps <> [] -> last (map mir ps) pt0 = mir (last ps pt0).
Proof.
  induction ps as [|a [|b r] IH]; intros H; [congruence|reflexivity|].
  change (map mir (a :: b :: r)) with (mir a :: map mir (b :: r)).
  change (last (mir a :: map mir (b :: r)) pt0) with (last (map mir (b :: r)) pt0).
  rewrite IH by discriminate. reflexivity.
Qed.

Lemma ring_edges_mir ps : ring_edges (map mir ps) = map mirs (ring_edges ps).
Proof.
  unfold ring_edges, segments_spec. cbn [closed pts]. rewrite map_length.
  destruct (length ps <? 3)%nat eqn:E; [reflexivity|].
  destruct ps as [|a r]; [reflexivity|].
  rewrite last_map_mir by discriminate. cbn [map hd]. rewrite pt_eqb_mir.
  change (mir a :: map mir r) with (map mir (a :: r)).
  destruct (pt_eqb (last (a :: r) pt0) a).
  - apply path_segs_mir.
  - rewrite path_segs_mir, map_app. reflexivity.
Qed.

Lemma on_boundaryb_mir E p : on_boundaryb (map mirs E) (mir p) = on_boundaryb E p.
Proof.
  unfold on_boundaryb. induction E as [|s l IH]; cbn [map existsb]; [reflexivity|]. rewrite on_segb_mir, IH. reflexivity.
Qed.

Lemma parityb_mir_left (E : list seg) (p : pt) :
  parityb (map mirs E) (mir p) = xfold (fun s => crossesb_left s p) E.
Proof.
  unfold parityb, xfold. induction E as [|s l IH]; cbn [map fold_right]; [reflexivity|].
  rewrite crossesb_mir, IH. reflexivity.
Qed.

(* MAIN 1: membership in a closed ring is invariant under the reflection *)
Theorem in_ringb_mir (ps : list pt) (p : pt) :
  in_ringb (ring_edges (map mir ps)) (mir p) = in_ringb (ring_edges ps) p.
Proof.
  rewrite ring_edges_mir. unfold in_ringb. rewrite on_boundaryb_mir.
  destruct (on_boundaryb (ring_edges ps) p) eqn:Hb; [reflexivity|]. cbn [orb].
  (* parity to the left = parity to the right *)
  rewrite parityb_mir_left. symmetry. apply xorb_eq. rewrite parityb_xfold, xfold_xor.
  rewrite (xfold_ext _ (fun s : seg => xorb (above p (fst s)) (above p (snd s)))); [apply ring_edges_telescope|].
  intros [a b] Hin. cbn [fst snd]. apply left_or_right.
  unfold on_boundaryb in Hb. apply (proj1 (existsb_false_iff _ _) Hb (a, b) Hin).
Qed.

Theorem strictly_in_ringb_mir (ps : list pt) (p : pt) :
  strictly_in_ringb (ring_edges (map mir ps)) (mir p) = strictly_in_ringb (ring_edges ps) p.
Proof.
  pose proof (in_ringb_mir ps p) as H. rewrite ring_edges_mir in *. unfold in_ringb, strictly_in_ringb in *.
  rewrite on_boundaryb_mir in *. destruct (on_boundaryb (ring_edges ps) p); cbn [orb negb andb] in *; [reflexivity|exact H].
Qed.

(* ringContainsPoint / Poly.ContainsPoint of the mirrored shape at the mirrored point *)
Theorem ring_contains_point_mir (ps : list pt) (p : pt) (allow : bool) :
  rcp_hit (RS {| closed := true; pts := map mir ps |}) (mir p) allow = rcp_hit (RS {| closed := true; pts := ps |}) p allow.
Proof.
  rewrite !ring_contains_point_spec. pose proof (in_ringb_mir ps p) as H.
  rewrite ring_edges_mir in *. unfold in_ringb in H. rewrite on_boundaryb_mir in *.
  destruct (on_boundaryb (ring_edges ps) p); [reflexivity|exact H].
Qed.

Theorem poly_contains_point_mir (e : list pt) (hs : list (list pt)) (p : pt) :
  poly_contains_point (Pg (map mir e) (map (map mir) hs)) (mir p) = poly_contains_point (Pg e hs) p.
Proof.
  rewrite !poly_intersects_point_spec. unfold in_polyb. rewrite in_ringb_mir. f_equal.
  rewrite map_map. induction hs as [|h hs IH]; [reflexivity|]. cbn [map forallb]. rewrite strictly_in_ringb_mir, IH. reflexivity.
Qed.

Print Assumptions in_ringb_mir.
Print Assumptions poly_contains_point_mir.

(* ------------------------------------------------------------------ *)
(* Intersects of ring x segment / line / ring under the reflection      *)

Lemma sc_mir k p : sc k (mir p) = mir (sc k p).
Proof. destruct p as [x y]. unfold sc, aff, mir, px, py. cbn [fst snd]. f_equal; ring. Qed.

Lemma map_sc_mir k ps : map (sc k) (map mir ps) = map mir (map (sc k) ps).
Proof. rewrite !map_map. apply map_ext. intros p. apply sc_mir. Qed.

Lemma map_mir_mir ps : map mir (map mir ps) = ps.
Proof. rewrite map_map. rewrite <- (map_id ps) at 2. apply map_ext. intros p. apply mir_mir. Qed.

Lemma on_seg_mir a b p : on_seg (mir a, mir b) (mir p) <-> on_seg (a, b) p.
Proof. rewrite <- !on_segb_iff. change (mir a, mir b) with (mirs (a, b)). rewrite on_segb_mir. tauto. Qed.

Lemma shares_point_mir_1 ps A B : shares_point ps A B -> shares_point (map mir ps) (mir A) (mir B).
Proof.
  intros (k & P & Hk & Hon & Hin). exists k, (mir P). split; [exact Hk|]. split.
  - rewrite !sc_mir. apply on_seg_mir. exact Hon.
  - rewrite map_sc_mir, in_ringb_mir. exact Hin.
Qed.

Lemma shares_point_mir ps A B : shares_point (map mir ps) (mir A) (mir B) <-> shares_point ps A B.
Proof.
  split; [|apply shares_point_mir_1]. intros H. apply shares_point_mir_1 in H.
  rewrite map_mir_mir, !mir_mir in H. exact H.
Qed.

Theorem ring_intersects_segment_mir (ps : list pt) (A B : pt) :
  ring_intersects_segment (RS {| closed := true; pts := map mir ps |}) (mir A, mir B) true =
  ring_intersects_segment (RS {| closed := true; pts := ps |}) (A, B) true.
Proof. apply bool_eq_iff. rewrite !ring_intersects_segment_pointset. apply shares_point_mir. Qed.

Theorem ring_intersects_line_mir (ps qs : list pt) :
  ring_intersects_line (RS {| closed := true; pts := map mir ps |}) (RS {| closed := false; pts := map mir qs |}) true =
  ring_intersects_line (RS {| closed := true; pts := ps |}) (RS {| closed := false; pts := qs |}) true.
Proof.
  apply bool_eq_iff. rewrite !ring_intersects_line_pointset, !map_length, path_segs_mir. split.
  - intros (H1 & H2 & sg & Hin & Hs). split; [exact H1|]. split; [exact H2|].
    apply in_map_iff in Hin. destruct Hin as ([a b] & <- & Hin). exists (a, b). split; [exact Hin|].
    cbn [mirs fst snd] in Hs. apply (proj1 (shares_point_mir ps a b)) in Hs. exact Hs.
  - intros (H1 & H2 & [a b] & Hin & Hs). split; [exact H1|]. split; [exact H2|].
    exists (mirs (a, b)). split; [apply in_map; exact Hin|]. cbn [mirs fst snd]. apply (proj2 (shares_point_mir ps a b)). exact Hs.
Qed.

Lemma rings_share_point_mir_1 ps qs : rings_share_point ps qs -> rings_share_point (map mir ps) (map mir qs).
Proof.
  intros (k & P & Hk & H1 & H2). exists k, (mir P). split; [exact Hk|]. unfold edges_at in *.
  rewrite !map_sc_mir, !in_ringb_mir. split; assumption.
Qed.

Lemma rings_share_point_mir ps qs : rings_share_point (map mir ps) (map mir qs) <-> rings_share_point ps qs.
Proof.
  split; [|apply rings_share_point_mir_1]. intros H. apply rings_share_point_mir_1 in H.
  rewrite !map_mir_mir in H. exact H.
Qed.

Theorem ring_intersects_ring_mir (ps qs : list pt) :
  ring_intersects_ring (RS {| closed := true; pts := map mir ps |}) (RS {| closed := true; pts := map mir qs |}) true =
  ring_intersects_ring (RS {| closed := true; pts := ps |}) (RS {| closed := true; pts := qs |}) true.
Proof.
  apply bool_eq_iff. rewrite !ring_intersects_ring_pointset, !map_length, rings_share_point_mir. tauto.
Qed.

Theorem poly_intersects_poly_noholes_mir (e1 e2 : list pt) :
  poly_intersects_poly (Pg (map mir e1) []) (Pg (map mir e2) []) = poly_intersects_poly (Pg e1 []) (Pg e2 []).
Proof.
  apply bool_eq_iff. rewrite !poly_intersects_poly_noholes, !map_length, rings_share_point_mir. tauto.
Qed.

Print Assumptions ring_intersects_segment_mir.
Print Assumptions ring_intersects_line_mir.
Print Assumptions ring_intersects_ring_mir.
