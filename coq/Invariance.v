(* Invariance.v — property C12: answers are invariant under translation and
   positive scaling.  Proved here for the segment kernels (raycast, segment
   intersection, collinearity) and for point membership in rings, polygons,
   rectangles and lines — i.e. for every predicate whose model has been proved
   equal to its specification.  The map is p |-> (k*x+dx, k*y+dy), k > 0. *)
From Coq Require Import Lia.
From GJ Require Import Base Kernel KernelSpec KernelProofs IntersectsProofs Series SeriesSpec
  SeriesProofs Ring RingSpec PipProofs.
Open Scope Z_scope.

Section Affine.
Variables k dx dy : Z.
Hypothesis kpos : 0 < k.

Definition aff (p : pt) : pt := (k * px p + dx, k * py p + dy).
Definition affs (s : seg) : seg := (aff (fst s), aff (snd s)).

Lemma aff_px p : px (aff p) = k * px p + dx. Proof. reflexivity. Qed.
Lemma aff_py p : py (aff p) = k * py p + dy. Proof. reflexivity. Qed.

Lemma cross_aff a b p : cross (aff a) (aff b) (aff p) = k * k * cross a b p.
Proof. unfold cross. rewrite !aff_px, !aff_py. ring. Qed.

Lemma aff_inj p q : aff p = aff q -> p = q.
Proof.
  destruct p as [a b], q as [c d]. unfold aff, px, py. cbn [fst snd]. intros H. inversion H.
  f_equal; nia.
Qed.

Lemma pt_eqb_aff p q : pt_eqb (aff p) (aff q) = pt_eqb p q.
Proof.
  apply Bool.eq_true_iff_eq. rewrite !pt_eqb_eq. split; [apply aff_inj|congruence].
Qed.

Lemma sq_pos : 0 < k * k. Proof. nia. Qed.

Lemma on_segb_aff s p : on_segb (affs s) (aff p) = on_segb s p.
Proof.
  destruct s as [a b]. unfold affs, on_segb. cbn [fst snd]. rewrite cross_aff, !aff_px, !aff_py.
  pose proof sq_pos as S.
  apply Bool.eq_true_iff_eq. rewrite !andb_true_iff, !Z.eqb_eq, !Z.leb_le. nia.
Qed.

Lemma crossesb_aff s p : crossesb (affs s) (aff p) = crossesb s p.
Proof.
  destruct s as [a b]. unfold affs, crossesb. cbn [fst snd]. rewrite cross_aff, !aff_py.
  pose proof sq_pos as S.
  apply Bool.eq_true_iff_eq. rewrite !orb_true_iff, !andb_true_iff, !Z.leb_le, !Z.ltb_lt. nia.
Qed.

(* Segment.Raycast *)
Theorem raycast_aff s p : raycast (affs s) (aff p) = raycast s p.
Proof. rewrite !raycast_eq_spec, crossesb_aff, on_segb_aff. reflexivity. Qed.

(* Segment.IntersectsSegment *)
Theorem intersects_segment_aff s o : intersects_segment (affs s) (affs o) = intersects_segment s o.
Proof.
  apply Bool.eq_true_iff_eq. rewrite !intersects_segment_iff, <- !seg_meetb_iff.
  destruct s as [a b], o as [c d]. unfold affs, seg_meetb. cbn [fst snd].
  change (aff a, aff b) with (affs (a, b)). change (aff c, aff d) with (affs (c, d)).
  rewrite !on_segb_aff, !cross_aff. pose proof sq_pos as S.
  assert (P : forall z, (0 <? k * k * z) = (0 <? z)) by (intros z; apply Bool.eq_true_iff_eq; rewrite !Z.ltb_lt; nia).
  assert (N : forall z, (k * k * z <? 0) = (z <? 0)) by (intros z; apply Bool.eq_true_iff_eq; rewrite !Z.ltb_lt; nia).
  rewrite !P, !N. reflexivity.
Qed.

(* Segment.CollinearPoint *)
Theorem collinear_point_aff s p : collinear_point (affs s) (aff p) = collinear_point s p.
Proof.
  apply Bool.eq_true_iff_eq. rewrite !collinear_point_iff. destruct s as [a b]. unfold affs. cbn [fst snd].
  rewrite cross_aff. pose proof sq_pos. nia.
Qed.

(* the edges of the mapped vertex list are the mapped edges *)
Lemma path_segs_aff ps : path_segs (map aff ps) = map affs (path_segs ps).
Proof.
  induction ps as [|a r IH]; [reflexivity|]. destruct r as [|b r']; [reflexivity|].
  change (path_segs (aff a :: map aff (b :: r')) = affs (a, b) :: map affs (path_segs (b :: r'))).
  rewrite <- IH. reflexivity.
Qed.

Lemma last_map_aff ps : ps <> [] -> last (map aff ps) pt0 = aff (last ps pt0).
Proof.
  induction ps as [|a [|b r] IH]; intros H; [congruence|reflexivity|].
  change (map aff (a :: b :: r)) with (aff a :: map aff (b :: r)).
  change (last (aff a :: map aff (b :: r)) pt0) with (last (map aff (b :: r)) pt0).
  rewrite IH by discriminate. reflexivity.
Qed.

Lemma ring_edges_aff ps : ring_edges (map aff ps) = map affs (ring_edges ps).
Proof.
  unfold ring_edges, segments_spec. cbn [closed pts]. rewrite map_length.
  destruct (length ps <? 3)%nat eqn:E; [reflexivity|].
  destruct ps as [|a r]; [reflexivity|].
  rewrite last_map_aff by discriminate. cbn [map hd]. rewrite pt_eqb_aff.
  change (aff a :: map aff r) with (map aff (a :: r)).
  destruct (pt_eqb (last (a :: r) pt0) a).
  - apply path_segs_aff.
  - rewrite path_segs_aff, map_app. reflexivity.
Qed.

Lemma on_boundaryb_aff sgs p : on_boundaryb (map affs sgs) (aff p) = on_boundaryb sgs p.
Proof.
  unfold on_boundaryb. induction sgs as [|s l IH]; cbn [map existsb]; [reflexivity|].
  rewrite on_segb_aff, IH. reflexivity.
Qed.

Lemma parityb_aff sgs p : parityb (map affs sgs) (aff p) = parityb sgs p.
Proof.
  unfold parityb. induction sgs as [|s l IH]; cbn [map fold_right]; [reflexivity|].
  rewrite crossesb_aff, IH. reflexivity.
Qed.

(* ringContainsPoint: a translated / scaled ring answers the translated / scaled point alike *)
Theorem ring_contains_point_aff ps p allow :
  rcp_hit (RS {| closed := true; pts := map aff ps |}) (aff p) allow
  = rcp_hit (RS {| closed := true; pts := ps |}) p allow.
Proof.
  rewrite !ring_contains_point_spec, ring_edges_aff, on_boundaryb_aff, parityb_aff. reflexivity.
Qed.

(* Poly.ContainsPoint (= IntersectsPoint, and Point.Within/Intersects polygon) *)
Theorem poly_contains_point_aff e hs p :
  poly_contains_point {| exterior := RS {| closed := true; pts := map aff e |};
                         holes := map (fun h => RS {| closed := true; pts := h |}) (map (map aff) hs) |} (aff p)
  = poly_contains_point {| exterior := RS {| closed := true; pts := e |};
                           holes := map (fun h => RS {| closed := true; pts := h |}) hs |} p.
Proof.
  rewrite !poly_contains_point_spec. unfold in_polyb, in_ringb, strictly_in_ringb.
  rewrite ring_edges_aff, on_boundaryb_aff, parityb_aff. f_equal.
  induction hs as [|h hs IH]; cbn [map forallb]; [reflexivity|].
  rewrite ring_edges_aff, on_boundaryb_aff, parityb_aff, IH. reflexivity.
Qed.

(* Line.ContainsPoint *)
Theorem line_contains_point_aff ps p :
  line_contains_point {| closed := false; pts := map aff ps |} (aff p)
  = line_contains_point {| closed := false; pts := ps |} p.
Proof.
  rewrite !line_contains_point_spec. unfold in_lineb. rewrite path_segs_aff. apply on_boundaryb_aff.
Qed.

(* Rect.ContainsPoint *)
Theorem rect_contains_point_aff (r : rect) p :
  rect_contains_point (aff (fst r), aff (snd r)) (aff p) = rect_contains_point r p.
Proof.
  destruct r as [mn mx]. unfold rect_contains_point. cbn [fst snd]. rewrite !aff_px, !aff_py.
  apply Bool.eq_true_iff_eq. rewrite !andb_true_iff, !Z.leb_le. nia.
Qed.

End Affine.

Print Assumptions raycast_aff.
Print Assumptions intersects_segment_aff.
Print Assumptions poly_contains_point_aff.
