(* ParseSpec.v — property C07, the rejection clause as a theorem: every document
   that the independent specification JsonSpec.class_doc classifies as having a
   listed structural defect (not an object, missing / non-string / unknown type,
   missing required member or one that is not an array, a position with fewer
   than two ordinates or a non-numeric value among its first four, a line with
   fewer than two positions, a ring with fewer than four positions or not
   closed, a polygon with no ring, or any such defect in a nested object) is
   rejected by the model of Parse — under every option set. *)
From Coq Require Import Lia.
From GJ Require Import Base JsonConst Json JsonSpec JsonProofs EmitProofs RoundTrip ParsedForm Obj JsonExec.
Open Scope Z_scope.

(* ------------------------------------------------------------------ *)
(* sequences of classes                                                 *)

Lemma class_all_defect (l : list sclass) : class_all l = inr true -> In DEFECT l.
Proof.
  induction l as [|c r IH]; [discriminate|]. cbn [class_all].
  destruct c as [t| |]; [|intros _; left; reflexivity|];
    destruct (class_all r) as [[ts|]|[|]]; intros H; try discriminate; right; apply IH; reflexivity.
Qed.

Lemma class_all_wf {A} (f : A -> sclass) (l : list A) (ts : list gobj) :
  class_all (map f l) = inl (Some ts) -> Forall2 (fun x t => f x = WF t) l ts.
Proof.
  revert ts. induction l as [|x l IH]; intros ts H; cbn [map class_all] in H.
  - inversion H. constructor.
  - destruct (f x) as [t| |] eqn:E; destruct (class_all (map f l)) as [[ts'|]|[|]]; try discriminate.
    inversion H; subst. constructor; [exact E|apply IH; reflexivity].
Qed.

(* ------------------------------------------------------------------ *)
(* positions                                                            *)

Definition okv (allow : bool) (x : jv) : bool :=
  is_num x || (allow && match x with JNull => true | _ => false end) || match x with JNum _ _ => true | _ => false end.

Lemma take_nums_none (allow : bool) (n : nat) : forall l, forallb (okv allow) (firstn n l) = false -> take_nums allow n l = None.
Proof.
  induction n as [|n IH]; intros l H; [destruct l; discriminate|].
  destruct l as [|v l]; [discriminate|]. cbn [firstn forallb] in H. cbn [take_nums].
  destruct (okv allow v) eqn:E.
  - cbn [andb] in H. rewrite (IH l H). destruct v; try reflexivity. destruct allow; reflexivity.
  - unfold okv in E. destruct v as [| | |r f|r d|l0|ms]; try reflexivity; destruct allow; try (destruct f); cbn in E; try discriminate; reflexivity.
Qed.

Lemma take_nums_length (allow : bool) (n : nat) : forall l t, take_nums allow n l = Some t -> length t = Nat.min n (length l).
Proof.
  induction n as [|n IH]; intros l t H; [inversion H; reflexivity|].
  destruct l as [|v l]; [inversion H; reflexivity|]. cbn [take_nums] in H.
  destruct v; try discriminate.
  - destruct allow; [|discriminate]. destruct (take_nums true n l) as [t'|] eqn:E; [|discriminate]. inversion H; subst.
    cbn [length]. rewrite (IH l t' E). reflexivity.
  - destruct (take_nums allow n l) as [t'|] eqn:E; [|discriminate]. inversion H; subst.
    cbn [length]. rewrite (IH l t' E). reflexivity.
Qed.

(* what a defective position is, in the parsers' terms *)
Definition bad_nums (allow : bool) (l : list jv) : Prop :=
  take_nums allow 4 l = None \/ exists t, take_nums allow 4 l = Some t /\ (length t < 2)%nat.

Lemma position_defect (allow : bool) (v : jv) : class_position allow v = DEFECT -> exists l, v = JArr l /\ bad_nums allow l.
Proof.
  destruct v as [| | |r f|r d|l|ms]; try discriminate. cbn [class_position]. cbv zeta. intros H. exists l. split; [reflexivity|].
  destruct (length l <? 2)%nat eqn:El.
  - apply Nat.ltb_lt in El. unfold bad_nums. destruct (take_nums allow 4 l) as [t|] eqn:E; [right|left; reflexivity].
    exists t. split; [reflexivity|]. rewrite (take_nums_length allow 4 l t E). lia.
  - destruct (negb (forallb _ (firstn 4 l))) eqn:Eb.
    + left. apply take_nums_none. apply negb_true_iff in Eb. exact Eb.
    + destruct (forallb is_num l && (length l <=? 4)%nat); discriminate.
Qed.

Lemma bad_point_coords (top : bool) (l : list jv) : bad_nums true l -> exists c, parse_point_coords top (Some (JArr l)) = RErr c.
Proof.
  intros H. unfold parse_point_coords. cbn [is_array negb elems]. rewrite andb_false_r.
  destruct H as [->|(t & -> & Ht)]; [eexists; reflexivity|].
  destruct t as [|x [|y r]]; try (eexists; reflexivity). cbn [length] in Ht. lia.
Qed.

Lemma bad_position (l : list jv) : bad_nums false l -> exists c, parse_position (JArr l) = RErr c.
Proof.
  intros H. unfold parse_position. cbn [elems].
  destruct H as [->|(t & -> & Ht)]; [eexists; reflexivity|].
  destruct t as [|x [|y r]]; try (eexists; reflexivity). cbn [length] in Ht. lia.
Qed.

Lemma bad_pos_step (mixed arr : bool) (st : list fpt * option extra * bool) (l : list jv) :
  bad_nums false l -> exists c, pos_step mixed arr (ROk st) (JArr l) = RErr c.
Proof.
  intros H. destruct st as [[pts ex] f]. unfold pos_step. cbn [is_array negb]. rewrite andb_false_r.
  destruct (bad_position l H) as [c ->]. eexists; reflexivity.
Qed.

(* a fold over positions fails as soon as one of them is defective *)
Lemma pos_fold_defect (mixed arr : bool) : forall (l : list jv) (st : res (list fpt * option extra * bool)),
  In DEFECT (map (class_position false) l) -> exists c, fold_left (pos_step mixed arr) l st = RErr c.
Proof.
  induction l as [|v l IH]; intros st H; [contradiction|]. cbn [map fold_left] in *.
  destruct st as [s|c0]; [|exists c0; apply pos_fold_err].
  destruct H as [H|H].
  - destruct (position_defect false v H) as (l' & -> & Hb). destruct (bad_pos_step mixed arr s l' Hb) as [c ->].
    exists c. apply pos_fold_err.
  - apply IH. exact H.
Qed.

(* ------------------------------------------------------------------ *)
(* the points the parsers read                                          *)

Definition pos_xy (v : jv) : fpt :=
  match elems v with a :: b :: _ => (num_of a, num_of b) | _ => (FNull, FNull) end.

Lemma take_nums_two (allow : bool) (n : nat) (l : list jv) (x y : fnum) (r : list fnum) :
  take_nums allow n l = Some (x :: y :: r) ->
  match l with a :: b :: _ => (if allow then True else x = num_of a /\ y = num_of b) | _ => False end.
Proof.
  destruct n as [|n]; [discriminate|]. destruct l as [|a l]; [discriminate|]. cbn [take_nums].
  destruct a; try discriminate.
  - destruct allow; [|discriminate]. destruct (take_nums true n l) as [t|] eqn:E; [|discriminate]. intros H. inversion H; subst.
    destruct n as [|n]; [discriminate|]. destruct l as [|b l]; [discriminate|]. exact I.
  - destruct (take_nums allow n l) as [t|] eqn:E; [|discriminate]. intros H. inversion H; subst.
    destruct n as [|n]; [discriminate|]. destruct l as [|b l]; [discriminate|]. destruct allow; [exact I|].
    cbn [take_nums] in E. destruct b; try discriminate. destruct (take_nums false n l); [|discriminate]. inversion E; subst.
    split; reflexivity.
Qed.

Lemma pos_step_shape (mixed arr : bool) (st : res (list fpt * option extra * bool)) (v : jv) pts' ex' f' :
  pos_step mixed arr st v = ROk (pts', ex', f') -> exists pts ex f, st = ROk (pts, ex, f) /\ pts' = pos_xy v :: pts.
Proof.
  destruct st as [[[pts ex] f]|c]; [|discriminate]. unfold pos_step. destruct (arr && negb (is_array v)); [discriminate|].
  unfold parse_position. destruct (take_nums false 4 (elems v)) as [nums|] eqn:E; [|discriminate].
  destruct nums as [|x [|y r]]; try discriminate. pose proof (take_nums_two false 4 (elems v) x y r E) as Hxy.
  assert (Hp : (x, y) = pos_xy v).
  { unfold pos_xy. destruct (elems v) as [|a [|b l]]; try contradiction. destruct Hxy as [-> ->]. reflexivity. }
  cbn [nth skipn]. intros H. exists pts, ex, f. split; [reflexivity|]. rewrite <- Hp.
  destruct ex as [e|]; [inversion H; reflexivity|].
  destruct r; [inversion H; reflexivity|]. destruct f; [inversion H; reflexivity|]. destruct mixed; [inversion H; reflexivity|discriminate].
Qed.

Lemma pos_fold_shape (mixed arr : bool) : forall (l : list jv) st pts' ex' f',
  fold_left (pos_step mixed arr) l st = ROk (pts', ex', f') ->
  exists pts ex f, st = ROk (pts, ex, f) /\ pts' = rev (map pos_xy l) ++ pts.
Proof.
  induction l as [|v l IH]; intros st pts' ex' f' H.
  - cbn in H. subst st. exists pts', ex', f'. split; reflexivity.
  - cbn [fold_left] in H. destruct (IH _ _ _ _ H) as (pts1 & ex1 & f1 & E1 & ->).
    destruct (pos_step_shape _ _ _ _ _ _ _ E1) as (pts & ex & f & -> & ->).
    exists pts, ex, f. split; [reflexivity|]. cbn [map rev]. rewrite <- app_assoc. reflexivity.
Qed.

Lemma line_coords_shape (top : bool) (l : list jv) ps ex :
  parse_line_coords top (Some (JArr l)) = ROk (ps, ex) -> ps = map pos_xy l.
Proof.
  unfold parse_line_coords. cbn [is_array negb elems]. rewrite andb_false_r.
  destruct (fold_left _ l _) as [[[pts e] f]|c] eqn:E; [|discriminate]. intros H. inversion H; subst.
  destruct (pos_fold_shape _ _ _ _ _ _ _ E) as (p0 & e0 & f0 & E0 & ->). inversion E0; subst.
  rewrite app_nil_r, rev_involutive. reflexivity.
Qed.

Definition ring_pts (r : jv) : list fpt := map pos_xy (elems r).

Lemma ring_step_shape st ring rings' ex' f' :
  ring_step st ring = ROk (rings', ex', f') -> exists rings ex f, st = ROk (rings, ex, f) /\ rings' = ring_pts ring :: rings.
Proof.
  destruct st as [[[rings ex] f]|c]; [|discriminate]. unfold ring_step. destruct (negb (is_array ring)); [discriminate|].
  destruct (fold_left _ (elems ring) _) as [[[pts e] f1]|c] eqn:E; [|discriminate]. intros H. inversion H; subst.
  destruct (pos_fold_shape _ _ _ _ _ _ _ E) as (p0 & e0 & f0 & E0 & ->). inversion E0; subst.
  eexists _, _, _. split; [reflexivity|]. rewrite app_nil_r, rev_involutive. reflexivity.
Qed.

Lemma ring_fold_shape : forall (l : list jv) st rings' ex' f',
  fold_left ring_step l st = ROk (rings', ex', f') ->
  exists rings ex f, st = ROk (rings, ex, f) /\ rings' = rev (map ring_pts l) ++ rings.
Proof.
  induction l as [|v l IH]; intros st rings' ex' f' H.
  - cbn in H. subst st. exists rings', ex', f'. split; reflexivity.
  - cbn [fold_left] in H. destruct (IH _ _ _ _ H) as (r1 & ex1 & f1 & E1 & ->).
    destruct (ring_step_shape _ _ _ _ _ E1) as (rings & ex & f & -> & ->).
    exists rings, ex, f. split; [reflexivity|]. cbn [map rev]. rewrite <- app_assoc. reflexivity.
Qed.

Lemma poly_coords_shape (top : bool) (l : list jv) rings ex :
  parse_poly_coords top (Some (JArr l)) = ROk (rings, ex) -> rings = map ring_pts l.
Proof.
  unfold parse_poly_coords. cbn [is_array negb elems]. rewrite andb_false_r.
  destruct (fold_left _ l _) as [[[rs e] f]|c] eqn:E; [|discriminate]. intros H. inversion H; subst.
  destruct (ring_fold_shape _ _ _ _ _ E) as (r0 & e0 & f0 & E0 & ->). inversion E0; subst.
  rewrite app_nil_r, rev_involutive. reflexivity.
Qed.

(* the specification reads the same points *)
Lemma class_position_wf_xy (allow : bool) (v : jv) (t : gobj) : class_position allow v = WF t -> pt_of t = pos_xy v.
Proof.
  destruct v as [| | |r f|r d|l|ms]; try discriminate. cbn [class_position]. cbv zeta.
  destruct (length l <? 2)%nat eqn:El; [discriminate|]. destruct (negb _); [discriminate|].
  destruct (forallb is_num l && (length l <=? 4)%nat); [|discriminate]. intros H. inversion H; subst. cbn [pt_of].
  unfold pos_xy. cbn [elems]. apply Nat.ltb_ge in El. destruct l as [|a [|b l]]; cbn [length] in El; try lia. reflexivity.
Qed.

Lemma class_positions_xy (l : list jv) (ps : list fpt) : class_positions (JArr l) = inl (Some ps) -> ps = map pos_xy l.
Proof.
  cbn [class_positions]. destruct (class_all (map (class_position false) l)) as [[ts|]|b] eqn:E; try discriminate.
  intros H. inversion H; subst. pose proof (class_all_wf _ _ _ E) as F. clear E H.
  induction F as [|x t l ts Hx F IH]; [reflexivity|]. cbn [map]. rewrite IH, (class_position_wf_xy false x t Hx). reflexivity.
Qed.

(* ------------------------------------------------------------------ *)
(* lines, rings, polygons                                               *)

Lemma ring_ok_short (ps : list fpt) : (length ps < 4)%nat -> ring_ok ps = false.
Proof. intros H. unfold ring_ok. apply Nat.leb_gt in H. rewrite H. reflexivity. Qed.

Lemma Forall2_len {A B} (R : A -> B -> Prop) (l : list A) (m : list B) : Forall2 R l m -> length l = length m.
Proof. induction 1; cbn [length]; congruence. Qed.

(* a defective line: a defective position, or fewer than two positions *)
Lemma line_defect (v : jv) : class_line v = DEFECT ->
  exists l, v = JArr l /\ (In DEFECT (map (class_position false) l) \/ (length l < 2)%nat).
Proof.
  unfold class_line. destruct v as [| | |r f|r d|l|ms]; cbn [class_positions]; try discriminate.
  destruct (class_all (map (class_position false) l)) as [[ts|]|[|]] eqn:E; intros H; exists l; (split; [reflexivity|]).
  - rewrite map_length in H. pose proof (class_all_wf _ _ _ E) as F. apply Forall2_len in F.
    destruct (length ts <? 2)%nat eqn:El; [|discriminate]. apply Nat.ltb_lt in El. right. lia.
  - destruct (length l <? 2)%nat eqn:El; [|discriminate]. apply Nat.ltb_lt in El. right. exact El.
  - left. apply class_all_defect. exact E.
  - destruct (length l <? 2)%nat eqn:El; [|discriminate]. apply Nat.ltb_lt in El. right. exact El.
Qed.

Lemma line_defect_rejected (top : bool) (v : jv) : class_line v = DEFECT ->
  match parse_line_coords top (Some v) with
  | ROk (ps, _) => (length ps < 2)%nat
  | RErr _ => True
  end.
Proof.
  intros H. destruct (line_defect v H) as (l & -> & [Hd|Hl]).
  - unfold parse_line_coords. cbn [is_array negb elems]. rewrite andb_false_r.
    destruct (pos_fold_defect MIXED_OK true l (ROk ([], None, true)) Hd) as [c ->]. exact I.
  - destruct (parse_line_coords top (Some (JArr l))) as [[ps ex]|c] eqn:E; [|exact I].
    rewrite (line_coords_shape top l ps ex E), map_length. exact Hl.
Qed.

(* a defective ring: a defective position, or its points do not form a linear ring *)
Lemma ring_defect (r : jv) : class_ring r = DEFECT ->
  exists l, r = JArr l /\ (In DEFECT (map (class_position false) l) \/ ring_ok (map pos_xy l) = false).
Proof.
  unfold class_ring. destruct r as [| | |r0 f|r0 d|l|ms]; try (cbn [class_positions]; discriminate).
  destruct (class_positions (JArr l)) as [[ps|]|[|]] eqn:E; intros H; exists l; (split; [reflexivity|]).
  - rewrite (class_positions_xy l ps E) in H. destruct (ring_ok (map pos_xy l)); [discriminate|]. right. reflexivity.
  - discriminate H.
  - left. cbn [class_positions] in E. destruct (class_all (map (class_position false) l)) as [[ts|]|[|]] eqn:E2; try discriminate.
    apply class_all_defect. exact E2.
  - destruct (length l <? 4)%nat eqn:El; [|discriminate]. apply Nat.ltb_lt in El. right. apply ring_ok_short. rewrite map_length. exact El.
Qed.

Lemma ring_fold_defect : forall (l : list jv) (st : res (list (list fpt) * option extra * bool)) (r : jv) (lr : list jv),
  In r l -> r = JArr lr -> In DEFECT (map (class_position false) lr) -> exists c, fold_left ring_step l st = RErr c.
Proof.
  induction l as [|v l IH]; intros st r lr Hin Hr Hd; [contradiction|]. cbn [fold_left].
  destruct st as [[[rings ex] f]|c0]; [|exists c0; apply ring_fold_err].
  destruct Hin as [->|Hin].
  - subst r. unfold ring_step at 2. cbn [is_array negb elems].
    destruct (pos_fold_defect MIXED_OK false lr (ROk ([], ex, f)) Hd) as [c ->]. exists c. apply ring_fold_err.
  - exact (IH _ r lr Hin Hr Hd).
Qed.

Lemma polygon_defect_rejected (top : bool) (v : jv) : class_polygon v = DEFECT ->
  match parse_poly_coords top (Some v) with
  | ROk (rings, _) => rings = [] \/ forallb ring_ok rings = false
  | RErr _ => True
  end.
Proof.
  unfold class_polygon. destruct v as [| | |r0 f|r0 d|l|ms]; try discriminate.
  destruct l as [|r1 l1].
  - intros _. destruct (parse_poly_coords top (Some (JArr []))) as [[rings ex]|c] eqn:E; [|exact I].
    left. exact (poly_coords_shape top [] rings ex E).
  - set (l := r1 :: l1). destruct (class_all (map class_ring l)) as [[ts|]|[|]] eqn:E; try discriminate. intros _.
    apply class_all_defect in E. apply in_map_iff in E. destruct E as (r & Hr & Hin).
    destruct (ring_defect r Hr) as (lr & -> & [Hd|Hok]).
    + unfold parse_poly_coords. cbn [is_array negb elems]. rewrite andb_false_r.
      destruct (ring_fold_defect l (ROk ([], None, true)) (JArr lr) lr Hin eq_refl Hd) as [c ->]. exact I.
    + destruct (parse_poly_coords top (Some (JArr l))) as [[rings ex]|c] eqn:Ep; [|exact I]. right.
      rewrite (poly_coords_shape top l rings ex Ep).
      apply Bool.not_true_is_false. intros Hall. rewrite forallb_forall in Hall.
      assert (Hi : In (ring_pts (JArr lr)) (map ring_pts l)) by (apply in_map; exact Hin).
      specialize (Hall _ Hi). unfold ring_pts in Hall. cbn [elems] in Hall. congruence.
Qed.

Lemma map_until_ok_all {A B} (f : A -> res B) (l : list A) (out : list B) :
  map_until f l = ROk out -> forall x, In x l -> exists y, f x = ROk y.
Proof.
  revert out. induction l as [|a l IH]; intros out H x Hin; [contradiction|]. cbn [map_until] in H.
  destruct (f a) as [b|c] eqn:E; [|discriminate]. destruct (map_until f l) as [t|c] eqn:Et; [|discriminate].
  destruct Hin as [->|Hin]; [exists b; exact E|exact (IH t eq_refl x Hin)].
Qed.

(* a Multi* / collection member list with a defective child *)
Lemma multi_defect (k : Z) (f : jv -> sclass) (v : jv) : class_multi k f v = DEFECT ->
  is_array v = false \/ exists l c, v = JArr l /\ In c l /\ f c = DEFECT.
Proof.
  unfold class_multi. destruct v as [| | |r0 x|r0 d|l|ms]; try (intros _; left; reflexivity).
  destruct (class_all (map f l)) as [[ts|]|[|]] eqn:E; try discriminate. intros _. right.
  apply class_all_defect in E. apply in_map_iff in E. destruct E as (c & Hc & Hin). exists l, c. repeat split; assumption.
Qed.

(* ------------------------------------------------------------------ *)
(* MAIN: a listed structural defect is rejected, whatever the options   *)

Ltac others_false :=
  repeat match goal with
  | H : bytes_eqb ?d ?a = true |- context [bytes_eqb ?d ?b] =>
      let E := fresh in
      assert (E : bytes_eqb d b = false) by (apply bytes_eqb_eq in H; rewrite H; reflexivity);
      rewrite E; clear E
  end.

Theorem defect_rejected (fuel : nat) : forall (o : popts) (one : Z) (v : jv),
  class_doc fuel v = DEFECT -> exists c, parse fuel o one v = PErr c.
Proof.
  induction fuel as [|f IH]; intros o one v H; [discriminate|].
  cbn [class_doc] in H. cbn [parse].
  destruct v as [| | |raw x|raw d|l|ms]; try (eexists; reflexivity).
  destruct (scan_keys_last ms) as (Kt & Kc & Kgs & Kg & Kf). rewrite Kt, Kc, Kgs, Kg, Kf. clear Kt Kc Kgs Kg Kf.
  destruct (last_member s_type ms) as [tv|]; [|eexists; reflexivity].
  destruct tv as [| | |r0 x0|traw t|l0|ms0]; try (eexists; reflexivity).
  cbv zeta in H. revert H.
  destruct (bytes_eqb t s_Point) eqn:E1.
  { intros H. destruct (last_member s_coordinates ms) as [m|]; [|eexists; reflexivity].
    destruct (is_array m) eqn:Ea.
    - destruct (position_defect true m H) as (lm & -> & Hb). destruct (bad_point_coords true lm Hb) as [c ->]. eexists; reflexivity.
    - unfold parse_point_coords. rewrite Ea. cbn [negb andb]. eexists; reflexivity. }
  destruct (bytes_eqb t s_LineString) eqn:E2.
  { intros H. destruct (last_member s_coordinates ms) as [m|]; [|eexists; reflexivity].
    destruct (is_array m) eqn:Ea.
    - pose proof (line_defect_rejected true m H) as Hr. destruct (parse_line_coords true (Some m)) as [[ps ex]|c]; [|eexists; reflexivity].
      apply Nat.ltb_lt in Hr. rewrite Hr. eexists; reflexivity.
    - unfold parse_line_coords. rewrite Ea. cbn [negb andb]. eexists; reflexivity. }
  destruct (bytes_eqb t s_Polygon) eqn:E3.
  { intros H. destruct (last_member s_coordinates ms) as [m|]; [|eexists; reflexivity].
    destruct (is_array m) eqn:Ea.
    - pose proof (polygon_defect_rejected true m H) as Hr. destruct (parse_poly_coords true (Some m)) as [[rings ex]|c]; [|eexists; reflexivity].
      destruct Hr as [->|Hr]; [eexists; reflexivity|]. destruct rings as [|ext holes]; [eexists; reflexivity|].
      rewrite Hr. cbn [negb]. eexists; reflexivity.
    - unfold parse_poly_coords. rewrite Ea. cbn [negb andb]. eexists; reflexivity. }
  destruct (bytes_eqb t s_Feature) eqn:E4.
  { others_false. intros H. destruct (last_member s_geometry ms) as [gv|]; [|eexists; reflexivity].
    destruct (match get2 s_properties s_type ms with Some tv => bytes_eqb (str_of tv) s_Circle | None => false end); [discriminate|].
    destruct gv as [| | |r1 x1|r1 d1|l1|ms1]; try discriminate.
    destruct (class_doc f (JObj ms1)) as [t'| |] eqn:Ec; try discriminate.
    destruct (IH o one (JObj ms1) Ec) as [c ->]. eexists; reflexivity. }
  destruct (bytes_eqb t s_MultiPoint) eqn:E5.
  { intros H. destruct (last_member s_coordinates ms) as [m|]; [|eexists; reflexivity].
    destruct (multi_defect 0 _ m H) as [Ea|(lm & c & -> & Hin & Hc)]; [rewrite Ea; eexists; reflexivity|].
    cbn [is_array negb elems].
    destruct (map_until _ lm) as [kids|c'] eqn:Ek; [|eexists; reflexivity]. exfalso.
    destruct (map_until_ok_all _ _ _ Ek c Hin) as [y Hy]. cbv beta in Hy.
    destruct (position_defect true c Hc) as (lc & -> & Hb). destruct (bad_point_coords false lc Hb) as [e He].
    rewrite He in Hy. discriminate. }
  destruct (bytes_eqb t s_MultiLineString) eqn:E6.
  { intros H. destruct (last_member s_coordinates ms) as [m|]; [|eexists; reflexivity].
    destruct (multi_defect 1 _ m H) as [Ea|(lm & c & -> & Hin & Hc)]; [rewrite Ea; eexists; reflexivity|].
    cbn [is_array negb elems].
    destruct (map_until _ lm) as [kids|c'] eqn:Ek; [|eexists; reflexivity]. exfalso.
    destruct (map_until_ok_all _ _ _ Ek c Hin) as [y Hy]. cbv beta in Hy.
    pose proof (line_defect_rejected false c Hc) as Hr.
    destruct (parse_line_coords false (Some c)) as [[ps ex]|e]; [|discriminate].
    apply Nat.ltb_lt in Hr. rewrite Hr in Hy. discriminate. }
  destruct (bytes_eqb t s_MultiPolygon) eqn:E7.
  { intros H. destruct (last_member s_coordinates ms) as [m|]; [|eexists; reflexivity].
    destruct (multi_defect 2 _ m H) as [Ea|(lm & c & -> & Hin & Hc)]; [rewrite Ea; eexists; reflexivity|].
    cbn [is_array negb elems].
    destruct (map_until _ lm) as [kids|c'] eqn:Ek; [|eexists; reflexivity]. exfalso.
    destruct (map_until_ok_all _ _ _ Ek c Hin) as [y Hy]. cbv beta in Hy.
    pose proof (polygon_defect_rejected false c Hc) as Hr.
    destruct (parse_poly_coords false (Some c)) as [[rings ex]|e]; [|discriminate].
    destruct Hr as [->|Hr]; [discriminate|]. destruct rings as [|ext holes]; [discriminate|]. rewrite Hr in Hy. discriminate. }
  destruct (bytes_eqb t s_GeometryCollection) eqn:E8.
  { intros H. destruct (last_member s_geometries ms) as [m|]; [|eexists; reflexivity].
    destruct (multi_defect 3 _ m H) as [Ea|(lm & c & -> & Hin & Hc)]; [rewrite Ea; eexists; reflexivity|].
    cbn [is_array negb elems].
    destruct (map_until _ lm) as [kids|c'] eqn:Ek; [|eexists; reflexivity]. exfalso.
    destruct (map_until_ok_all _ _ _ Ek c Hin) as [y Hy]. cbv beta in Hy.
    destruct (IH o one c Hc) as [e He]. rewrite He in Hy. discriminate. }
  destruct (bytes_eqb t s_FeatureCollection) eqn:E9.
  { intros H. destruct (last_member s_features ms) as [m|]; [|eexists; reflexivity].
    destruct (multi_defect 4 _ m H) as [Ea|(lm & c & -> & Hin & Hc)]; [rewrite Ea; eexists; reflexivity|].
    cbn [is_array negb elems].
    destruct (map_until _ lm) as [kids|c'] eqn:Ek; [|eexists; reflexivity]. exfalso.
    destruct (map_until_ok_all _ _ _ Ek c Hin) as [y Hy]. cbv beta in Hy.
    destruct (IH o one c Hc) as [e He]. rewrite He in Hy. discriminate. }
  intros _. eexists; reflexivity.
Qed.


(* ================================================================== *)
(* the decoding clause: a well-formed document is accepted and decoded  *)

(* the dimensionality rule of the coordinate parsers, as a predicate on the
   document: [s] = z/m values are being kept, [first] = no position read yet.
   A position is taken when values are kept, or it is the first, or it has
   exactly two ordinates (finding F6: a later position with more ordinates than
   a two-ordinate first position is rejected; TestIssue714 pins that) *)
Definition plen (v : jv) : nat := length (elems v).
Fixpoint seq_ok (s first : bool) (l : list jv) : bool :=
  match l with
  | [] => true
  | p :: r => (s || first || (plen p =? 2)%nat) && seq_ok (s || (first && (2 <? plen p)%nat)) false r
  end.
Fixpoint seq_end (s first : bool) (l : list jv) : bool * bool :=
  match l with
  | [] => (s, first)
  | p :: r => seq_end (s || (first && (2 <? plen p)%nat)) false r
  end.
Fixpoint rings_ok (s first : bool) (rs : list jv) : bool :=
  match rs with
  | [] => true
  | r :: rest => seq_ok s first (elems r) && rings_ok (fst (seq_end s first (elems r))) false rest
  end.

Definition is_some {A} (x : option A) : bool := match x with Some _ => true | None => false end.

Definition wfpos (l : list jv) : Prop := (2 <= length l <= 4)%nat /\ forallb is_num l = true.

Lemma position_wf (allow : bool) (v : jv) (t : gobj) : class_position allow v = WF t ->
  exists l, v = JArr l /\ wfpos l /\ t = JPoint (pos_xy v) None.
Proof.
  intros H. pose proof (class_position_wf_xy allow v t H) as Hxy.
  destruct v as [| | |r f|r d|l|ms]; try discriminate. cbn [class_position] in H. cbv zeta in H.
  destruct (length l <? 2)%nat eqn:El; [discriminate|]. destruct (negb _); [discriminate|].
  destruct (forallb is_num l) eqn:En; [|discriminate]. destruct (length l <=? 4)%nat eqn:E4; [|discriminate].
  cbn [andb] in H. inversion H; subst. exists l. apply Nat.ltb_ge in El. apply Nat.leb_le in E4.
  split; [reflexivity|]. split; [split; [lia|exact En]|]. cbn [pt_of] in Hxy. rewrite Hxy. reflexivity.
Qed.

Lemma take_nums_isnum (allow : bool) (n : nat) : forall l, forallb is_num l = true -> take_nums allow n l = Some (map num_of (firstn n l)).
Proof.
  induction n as [|n IH]; intros l H; [destruct l; reflexivity|]. destruct l as [|v l]; [reflexivity|].
  cbn [forallb] in H. apply andb_true_iff in H. destruct H as [Hv Hl]. cbn [take_nums firstn map].
  destruct v as [| | |r f|r d|l0|ms]; try discriminate. rewrite (IH l Hl). reflexivity.
Qed.

Lemma pos_step_wf (arr : bool) (pts : list fpt) (ex : option extra) (first : bool) (l : list jv) :
  wfpos l -> (first = true -> ex = None) ->
  (is_some ex || first || (length l =? 2)%nat) = true ->
  exists ex', pos_step MIXED_OK arr (ROk (pts, ex, first)) (JArr l) = ROk (pos_xy (JArr l) :: pts, ex', false) /\
              is_some ex' = is_some ex || (first && (2 <? length l)%nat).
Proof.
  intros [[L2 L4] Hn] Hf Hacc. unfold pos_step. cbn [is_array negb]. rewrite andb_false_r.
  unfold parse_position. cbn [elems]. rewrite (take_nums_isnum false 4 l Hn), firstn_all2 by lia.
  destruct l as [|a [|b l2]]; cbn [length] in L2; try lia. cbn [map nth skipn]. unfold pos_xy. cbn [elems].
  destruct ex as [e|].
  - eexists. split; [reflexivity|]. reflexivity.
  - cbn [is_some orb] in *. destruct l2 as [|c l2]; cbn [map].
    + eexists. split; [reflexivity|]. cbn [length]. rewrite andb_false_r. reflexivity.
    + destruct first; [|cbn [length] in Hacc; discriminate].
      eexists. split; [reflexivity|]. reflexivity.
Qed.

Definition wfposv (p : jv) : Prop := exists l, p = JArr l /\ wfpos l.

Lemma pos_fold_wf (arr : bool) : forall (ps : list jv) (pts : list fpt) (ex : option extra) (first : bool),
  Forall wfposv ps -> (first = true -> ex = None) -> seq_ok (is_some ex) first ps = true ->
  exists ex' f', fold_left (pos_step MIXED_OK arr) ps (ROk (pts, ex, first)) = ROk (rev (map pos_xy ps) ++ pts, ex', f') /\
                 (is_some ex', f') = seq_end (is_some ex) first ps /\ (f' = true -> ex' = None).
Proof.
  induction ps as [|p ps IH]; intros pts ex first Hw Hf Hok.
  - exists ex, first. split; [reflexivity|]. split; [reflexivity|exact Hf].
  - inversion Hw as [|? ? (l & -> & Hl) Hw']; subst. cbn [seq_ok] in Hok. apply andb_true_iff in Hok. destruct Hok as [Hacc Hrest].
    unfold plen in *. cbn [elems] in *.
    destruct (pos_step_wf arr pts ex first l Hl Hf Hacc) as (ex1 & E1 & S1). cbn [fold_left]. rewrite E1.
    rewrite <- S1 in Hrest. destruct (IH (pos_xy (JArr l) :: pts) ex1 false Hw' ltac:(discriminate) Hrest) as (ex' & f' & E & Se & Hn).
    exists ex', f'. split; [|split; [|exact Hn]].
    + rewrite E. cbn [map rev]. rewrite <- app_assoc. reflexivity.
    + cbn [seq_end]. unfold plen. cbn [elems]. rewrite <- S1. exact Se.
Qed.

Lemma class_positions_wf (l : list jv) (ps : list fpt) : class_positions (JArr l) = inl (Some ps) ->
  Forall wfposv l /\ ps = map pos_xy l.
Proof.
  intros H. split; [|exact (class_positions_xy l ps H)]. cbn [class_positions] in H.
  destruct (class_all (map (class_position false) l)) as [[ts|]|b] eqn:E; try discriminate.
  pose proof (class_all_wf _ _ _ E) as F. clear E H.
  induction F as [|x t l ts Hx F IH]; constructor; [|exact IH].
  destruct (position_wf false x t Hx) as (lx & -> & Hw & _). exists lx. split; [reflexivity|exact Hw].
Qed.

Lemma line_wf (v : jv) (t : gobj) : class_line v = WF t ->
  exists l, v = JArr l /\ Forall wfposv l /\ (2 <= length l)%nat /\ t = JLine (map pos_xy l) None.
Proof.
  unfold class_line. destruct v as [| | |r f|r d|l|ms]; try (cbn [class_positions]; discriminate).
  destruct (class_positions (JArr l)) as [[ps|]|[|]] eqn:E; try discriminate.
  - destruct (class_positions_wf l ps E) as [Hw ->]. rewrite map_length.
    destruct (length l <? 2)%nat eqn:El; [discriminate|]. apply Nat.ltb_ge in El. intros H. inversion H; subst.
    exists l. repeat split; assumption.
  - destruct (length l <? 2)%nat; discriminate.
Qed.

Lemma ring_wf (v : jv) (t : gobj) : class_ring v = WF t ->
  exists l, v = JArr l /\ Forall wfposv l /\ ring_ok (map pos_xy l) = true /\ t = JLine (map pos_xy l) None.
Proof.
  unfold class_ring. destruct v as [| | |r f|r d|l|ms]; try (cbn [class_positions]; discriminate).
  destruct (class_positions (JArr l)) as [[ps|]|[|]] eqn:E; try discriminate.
  - destruct (class_positions_wf l ps E) as [Hw ->].
    destruct (ring_ok (map pos_xy l)) eqn:Er; [|discriminate]. intros H. inversion H; subst.
    exists l. repeat split; assumption.
  - destruct (length l <? 4)%nat; discriminate.
Qed.

Definition wfringv (r : jv) : Prop := exists l, r = JArr l /\ Forall wfposv l /\ ring_ok (map pos_xy l) = true.

Lemma polygon_wf (v : jv) (t : gobj) : class_polygon v = WF t ->
  exists rs, v = JArr rs /\ rs <> [] /\ Forall wfringv rs /\ t = JPoly (map ring_pts rs) None.
Proof.
  unfold class_polygon. destruct v as [| | |r f|r d|l|ms]; try discriminate. destruct l as [|r1 l1]; [discriminate|].
  set (l := r1 :: l1). destruct (class_all (map class_ring l)) as [[ts|]|[|]] eqn:E; try discriminate.
  intros H. inversion H; subst. exists l. split; [reflexivity|]. split; [discriminate|].
  pose proof (class_all_wf _ _ _ E) as F. clear E H. generalize dependent ts. generalize l. clear l r1 l1.
  induction l as [|x l IH]; intros ts F; inversion F as [|? t0 ? ts0 Hx F']; subst; [split; [constructor|reflexivity]|].
  destruct (IH ts0 F') as [A B]. destruct (ring_wf x t0 Hx) as (lx & -> & Hw & Hr & ->). split.
  - constructor; [exists lx; repeat split; assumption|exact A].
  - cbn [map line_of]. unfold ring_pts at 1. cbn [elems]. inversion B. reflexivity.
Qed.

Lemma ring_step_wf (rings : list (list fpt)) (ex : option extra) (first : bool) (r : jv) :
  wfringv r -> (first = true -> ex = None) -> seq_ok (is_some ex) first (elems r) = true ->
  exists ex', ring_step (ROk (rings, ex, first)) r = ROk (ring_pts r :: rings, ex', false) /\
              is_some ex' = fst (seq_end (is_some ex) first (elems r)).
Proof.
  intros (l & -> & Hw & _) Hf Hok. unfold ring_step. cbn [is_array negb elems] in *.
  destruct (pos_fold_wf false l [] ex first Hw Hf Hok) as (ex' & f' & E & Se & _). rewrite E.
  exists ex'. split; [|rewrite <- Se; reflexivity]. rewrite app_nil_r, rev_involutive. reflexivity.
Qed.

Lemma ring_fold_wf : forall (rs : list jv) (rings : list (list fpt)) (ex : option extra) (first : bool),
  Forall wfringv rs -> (first = true -> ex = None) -> rings_ok (is_some ex) first rs = true ->
  exists ex' f', fold_left ring_step rs (ROk (rings, ex, first)) = ROk (rev (map ring_pts rs) ++ rings, ex', f').
Proof.
  induction rs as [|r rs IH]; intros rings ex first Hw Hf Hok.
  - exists ex, first. reflexivity.
  - inversion Hw as [|? ? Hr Hw']; subst. cbn [rings_ok] in Hok. apply andb_true_iff in Hok. destruct Hok as [Hs Hrest].
    destruct (ring_step_wf rings ex first r Hr Hf Hs) as (ex1 & E1 & S1). cbn [fold_left]. rewrite E1.
    rewrite <- S1 in Hrest. destruct (IH (ring_pts r :: rings) ex1 false Hw' ltac:(discriminate) Hrest) as (ex' & f' & E).
    exists ex', f'. rewrite E. cbn [map rev]. rewrite <- app_assoc. reflexivity.
Qed.

Lemma line_coords_wf (top : bool) (l : list jv) : Forall wfposv l -> seq_ok false true l = true ->
  exists ex, parse_line_coords top (Some (JArr l)) = ROk (map pos_xy l, ex).
Proof.
  intros Hw Hok. unfold parse_line_coords. cbn [is_array negb elems]. rewrite andb_false_r.
  destruct (pos_fold_wf true l [] None true Hw (fun _ => eq_refl) Hok) as (ex' & f' & E & _). rewrite E.
  exists ex'. rewrite app_nil_r, rev_involutive. reflexivity.
Qed.

Lemma poly_coords_wf (top : bool) (rs : list jv) : Forall wfringv rs -> rings_ok false true rs = true ->
  exists ex, parse_poly_coords top (Some (JArr rs)) = ROk (map ring_pts rs, ex).
Proof.
  intros Hw Hok. unfold parse_poly_coords. cbn [is_array negb elems]. rewrite andb_false_r.
  destruct (ring_fold_wf rs [] None true Hw (fun _ => eq_refl) Hok) as (ex' & f' & E). rewrite E.
  exists ex'. rewrite app_nil_r, rev_involutive. reflexivity.
Qed.

Lemma rings_all_ok (rs : list jv) : Forall wfringv rs -> forallb ring_ok (map ring_pts rs) = true.
Proof.
  intros H. apply forallb_forall. intros x Hx. apply in_map_iff in Hx. destruct Hx as (r & <- & Hr).
  rewrite Forall_forall in H. destruct (H r Hr) as (l & -> & _ & Hok). exact Hok.
Qed.

(* ------------------------------------------------------------------ *)
(* members: the foreign list has the same first "properties" member     *)

Lemma find_filter {A} (p q : A -> bool) (l : list A) : (forall x, p x = true -> q x = true) -> find p (filter q l) = find p l.
Proof.
  intros H. induction l as [|x l IH]; [reflexivity|]. cbn [filter find]. destruct (p x) eqn:E.
  - rewrite (H x E). cbn [find]. rewrite E. reflexivity.
  - destruct (q x); [cbn [find]; rewrite E|]; exact IH.
Qed.

Lemma first_member_filter (name : list Z) (ms : list (jkey * jv)) :
  (forall kv, bytes_eqb (snd (fst kv)) name = true -> foreign_key kv = true) ->
  first_member name (filter foreign_key ms) = first_member name ms.
Proof.
  intros Hn. unfold first_member.
  pose proof (find_filter (fun kv : jkey * jv => bytes_eqb (snd (fst kv)) name) foreign_key ms Hn) as E.
  unfold jkey in *. rewrite E. reflexivity.
Qed.

Lemma properties_is_foreign (kv : jkey * jv) : bytes_eqb (snd (fst kv)) s_properties = true -> foreign_key kv = true.
Proof. intros H. apply bytes_eqb_eq in H. unfold foreign_key. cbv zeta. rewrite H. reflexivity. Qed.

Lemma get2_foreign (b : list Z) (ms : list (jkey * jv)) :
  get2 s_properties b (k_foreign (scan_keys ms)) = get2 s_properties b ms.
Proof. rewrite foreign_is_filter. unfold get2. rewrite (first_member_filter s_properties ms properties_is_foreign). reflexivity. Qed.

Lemma not_circle_convention (o : popts) (one : Z) (p : fpt) (ms : list (jkey * jv)) :
  match get2 s_properties s_type ms with Some tv => bytes_eqb (str_of tv) s_Circle | None => false end = false ->
  circle_of o one p (k_foreign (scan_keys ms)) = None.
Proof.
  intros H. unfold circle_of. destruct (disable_circle o); [reflexivity|]. rewrite get2_foreign.
  destruct (get2 s_properties s_type ms) as [tv|]; [|reflexivity]. rewrite H. reflexivity.
Qed.

(* ------------------------------------------------------------------ *)
(* collections of children                                              *)

Lemma multi_build (F : jv -> res gobj) (f : jv -> sclass) (P : jv -> Prop) (l : list jv) (ts : list gobj) :
  Forall P l -> Forall2 (fun c t => f c = WF t) l ts ->
  (forall c t, P c -> f c = WF t -> exists g, F c = ROk g /\ enc_tree g = enc_tree t) ->
  exists kids, map_until F l = ROk kids /\ length kids = length ts /\ flat_map enc_tree kids = flat_map enc_tree ts.
Proof.
  intros HP H2 Hstep. revert HP. induction H2 as [|c t l ts Hc H2 IH]; intros HP.
  - exists []. repeat split.
  - inversion HP as [|? ? Pc HP']; subst. destruct (IH HP') as (kids & Ek & El & Ef).
    destruct (Hstep c t Pc Hc) as (g & Eg & Et). exists (g :: kids). cbn [map_until]. rewrite Eg, Ek.
    repeat split; [cbn [length]; congruence|]. cbn [flat_map]. rewrite Et, Ef. reflexivity.
Qed.

Lemma forallb_Forall' {A} (p : A -> bool) (l : list A) : forallb p l = true -> Forall (fun x => p x = true) l.
Proof. intros H. apply Forall_forall. intros x Hx. rewrite forallb_forall in H. auto. Qed.

(* the documents on which the dimensionality rule of finding F6 does not bite *)
Fixpoint nomix (fuel : nat) (v : jv) : bool :=
  match fuel with
  | O => true
  | S f =>
      match v with
      | JObj ms =>
          match last_member s_type ms with
          | Some (JStr _ t) =>
              let co := match last_member s_coordinates ms with Some m => m | None => JNull end in
              if bytes_eqb t s_LineString then seq_ok false true (elems co)
              else if bytes_eqb t s_Polygon then rings_ok false true (elems co)
              else if bytes_eqb t s_MultiLineString then forallb (fun c => seq_ok false true (elems c)) (elems co)
              else if bytes_eqb t s_MultiPolygon then forallb (fun c => rings_ok false true (elems c)) (elems co)
              else if bytes_eqb t s_GeometryCollection
                   then match last_member s_geometries ms with Some m => forallb (nomix f) (elems m) | None => true end
              else if bytes_eqb t s_FeatureCollection
                   then match last_member s_features ms with Some m => forallb (nomix f) (elems m) | None => true end
              else if bytes_eqb t s_Feature
                   then match last_member s_geometry ms with Some g => nomix f g | None => true end
              else true
          | _ => true
          end
      | _ => true
      end
  end.

Definition plain (o : popts) : Prop := allow_simple o = false /\ allow_rects o = false /\ require_valid o = false.

Lemma multi_wf (k : Z) (f : jv -> sclass) (v : jv) (t : gobj) : class_multi k f v = WF t ->
  exists l ts, v = JArr l /\ Forall2 (fun c t => f c = WF t) l ts /\ t = JColl k ts None.
Proof.
  unfold class_multi. destruct v as [| | |r0 x|r0 d|l|ms]; try discriminate.
  destruct (class_all (map f l)) as [[ts|]|[|]] eqn:E; try discriminate. intros H. inversion H; subst.
  exists l, ts. repeat split. exact (class_all_wf _ _ _ E).
Qed.

Theorem wf_accepted (fuel : nat) : forall (o : popts) (one : Z) (v : jv) (t : gobj),
  plain o -> class_doc fuel v = WF t -> nomix fuel v = true ->
  exists g, parse fuel o one v = POk g /\ enc_tree g = enc_tree t.
Proof.
  induction fuel as [|f IH]; intros o one v t Hpl H Hmix; [discriminate|].
  destruct Hpl as (Hsimple & Hrects & Hrv).
  cbn [class_doc] in H. cbn [nomix] in Hmix. cbn [parse].
  destruct v as [| | |raw x|raw d|l|ms]; try discriminate.
  destruct (scan_keys_last ms) as (Kt & Kc & Kgs & Kg & Kf). rewrite Kt, Kc, Kgs, Kg, Kf. clear Kt Kc Kgs Kg Kf.
  rewrite Hsimple, Hrects, Hrv. cbn [andb].
  destruct (last_member s_type ms) as [tv|]; [|discriminate].
  destruct tv as [| | |r0 x0|traw tn|l0|ms0]; try discriminate.
  cbv zeta in H, Hmix. revert H Hmix.
  destruct (bytes_eqb tn s_Point) eqn:E1.
  { others_false. intros H _. destruct (last_member s_coordinates ms) as [m|]; [|discriminate].
    destruct (is_array m) eqn:Ea; [|discriminate].
    destruct (position_wf true m t H) as (lm & -> & [[L2 L4] Hn] & ->).
    unfold parse_point_coords. cbn [is_array negb andb elems]. rewrite (take_nums_isnum true 4 lm Hn), firstn_all2 by lia.
    destruct lm as [|a [|b l2]]; cbn [length] in L2; try lia. cbn [map].
    destruct (with_members _ _); eexists; (split; [reflexivity|]); reflexivity. }
  destruct (bytes_eqb tn s_LineString) eqn:E2.
  { others_false. intros H Hmix. destruct (last_member s_coordinates ms) as [m|]; [|discriminate].
    destruct (is_array m) eqn:Ea; [|discriminate].
    destruct (line_wf m t H) as (lm & -> & Hw & Hlen & ->). cbn [elems] in Hmix.
    destruct (line_coords_wf true lm Hw Hmix) as [ex ->]. rewrite map_length.
    assert (El : (length lm <? 2)%nat = false) by (apply Nat.ltb_ge; exact Hlen). rewrite El.
    eexists. split; [reflexivity|]. reflexivity. }
  destruct (bytes_eqb tn s_Polygon) eqn:E3.
  { others_false. intros H Hmix. destruct (last_member s_coordinates ms) as [m|]; [|discriminate].
    destruct (is_array m) eqn:Ea; [|discriminate].
    destruct (polygon_wf m t H) as (rs & -> & Hne & Hw & ->). cbn [elems] in Hmix.
    destruct (poly_coords_wf true rs Hw Hmix) as [ex ->].
    destruct rs as [|r1 rs1]; [congruence|]. pose proof (rings_all_ok (r1 :: rs1) Hw) as Hall.
    cbn [map] in Hall |- *. rewrite Hall. cbn [negb].
    destruct (with_members ex _); [eexists; split; reflexivity|].
    destruct (map ring_pts rs1); eexists; split; reflexivity. }
  destruct (bytes_eqb tn s_Feature) eqn:E4.
  { others_false. intros H Hmix. destruct (last_member s_geometry ms) as [gv|].
    2:{ destruct (match get2 s_properties s_type ms with Some tv => _ | None => false end); discriminate. }
    destruct (match get2 s_properties s_type ms with Some tv => bytes_eqb (str_of tv) s_Circle | None => false end) eqn:Ecirc; [discriminate|].
    destruct gv as [| | |r1 x1|r1 d1|l1|ms1]; try discriminate.
    destruct (class_doc f (JObj ms1)) as [t'| |] eqn:Ec; try discriminate. inversion H; subst.
    destruct (IH o one (JObj ms1) t' (conj Hsimple (conj Hrects Hrv)) Ec Hmix) as (base & -> & Eb).
    pose proof (not_circle_convention o one) as Hnc.
    assert (Hc : match base, k_foreign (scan_keys ms) with
                 | JPoint p _, _ :: _ => circle_of o one p (k_foreign (scan_keys ms))
                 | JSimple p, _ :: _ => if CIRCLE_SIMPLE_OK then circle_of o one p (k_foreign (scan_keys ms)) else None
                 | _, _ => None end = None).
    { destruct base; try reflexivity; destruct (k_foreign (scan_keys ms)) eqn:Ef; try reflexivity; rewrite <- Ef; apply Hnc; exact Ecirc. }
    rewrite Hc. eexists. split; [reflexivity|]. cbn [enc_tree]. rewrite Eb. reflexivity. }
  destruct (bytes_eqb tn s_MultiPoint) eqn:E5.
  { others_false. intros H _. destruct (last_member s_coordinates ms) as [m|]; [|discriminate].
    destruct (multi_wf 0 _ m t H) as (lm & ts & -> & F2 & ->). cbn [is_array negb elems].
    destruct (multi_build (fun c => match parse_point_coords false (Some c) with ROk (p, ex) => ROk (JPoint p ex) | RErr e => RErr e end)
                (class_position true) (fun _ => True) lm ts) as (kids & -> & Hl & Hf); [apply Forall_forall; intros; exact I|exact F2| |].
    - intros c t0 _ Hc. destruct (position_wf true c t0 Hc) as (lc & -> & [[L2 L4] Hn] & ->).
      unfold parse_point_coords. cbn [is_array negb andb elems]. rewrite (take_nums_isnum true 4 lc Hn), firstn_all2 by lia.
      destruct lc as [|a [|b l2]]; cbn [length] in L2; try lia. cbn [map]. eexists. split; reflexivity.
    - unfold MULTIPOINT_VALID_CHECK. eexists. split; [reflexivity|]. cbn [enc_tree]. rewrite Hl, Hf. reflexivity. }
  destruct (bytes_eqb tn s_MultiLineString) eqn:E6.
  { others_false. intros H Hmix. destruct (last_member s_coordinates ms) as [m|]; [|discriminate].
    destruct (multi_wf 1 _ m t H) as (lm & ts & -> & F2 & ->). cbn [is_array negb elems] in *.
    destruct (multi_build (fun c => match parse_line_coords false (Some c) with
                                    | ROk (ps, ex) => if (length ps <? 2)%nat then RErr E_CoordsInvalid else ROk (JLine ps ex)
                                    | RErr e => RErr e end)
                class_line (fun c => seq_ok false true (elems c) = true) lm ts) as (kids & -> & Hl & Hf);
      [exact (forallb_Forall' _ _ Hmix)|exact F2| |].
    - intros c t0 Pc Hc. destruct (line_wf c t0 Hc) as (lc & -> & Hw & Hlen & ->). cbn [elems] in Pc.
      destruct (line_coords_wf false lc Hw Pc) as [ex ->]. rewrite map_length.
      assert (El : (length lc <? 2)%nat = false) by (apply Nat.ltb_ge; exact Hlen). rewrite El. eexists. split; reflexivity.
    - eexists. split; [reflexivity|]. cbn [enc_tree]. rewrite Hl, Hf. reflexivity. }
  destruct (bytes_eqb tn s_MultiPolygon) eqn:E7.
  { others_false. intros H Hmix. destruct (last_member s_coordinates ms) as [m|]; [|discriminate].
    destruct (multi_wf 2 _ m t H) as (lm & ts & -> & F2 & ->). cbn [is_array negb elems] in *.
    destruct (multi_build (fun c => match parse_poly_coords false (Some c) with
                                    | ROk (rings, ex) =>
                                        match rings with
                                        | [] => RErr E_CoordsInvalid
                                        | _ => if forallb ring_ok rings then ROk (JPoly rings ex) else RErr E_CoordsInvalid
                                        end
                                    | RErr e => RErr e end)
                class_polygon (fun c => rings_ok false true (elems c) = true) lm ts) as (kids & -> & Hl & Hf);
      [exact (forallb_Forall' _ _ Hmix)|exact F2| |].
    - intros c t0 Pc Hc. destruct (polygon_wf c t0 Hc) as (rs & -> & Hne & Hw & ->). cbn [elems] in Pc.
      destruct (poly_coords_wf false rs Hw Pc) as [ex ->]. rewrite (rings_all_ok rs Hw).
      destruct rs as [|r1 rs1]; [congruence|]. cbn [map]. eexists. split; reflexivity.
    - eexists. split; [reflexivity|]. cbn [enc_tree]. rewrite Hl, Hf. reflexivity. }
  destruct (bytes_eqb tn s_GeometryCollection) eqn:E8.
  { others_false. intros H Hmix. destruct (last_member s_geometries ms) as [m|]; [|discriminate].
    destruct (multi_wf 3 _ m t H) as (lm & ts & -> & F2 & ->). cbn [is_array negb elems] in *.
    destruct (multi_build (fun c => pres_res (parse f o one c)) (class_doc f) (fun c => nomix f c = true) lm ts) as (kids & -> & Hl & Hf);
      [exact (forallb_Forall' _ _ Hmix)|exact F2| |].
    - intros c t0 Pc Hc. destruct (IH o one c t0 (conj Hsimple (conj Hrects Hrv)) Hc Pc) as (g & -> & Eg). exists g. split; [reflexivity|exact Eg].
    - eexists. split; [reflexivity|]. cbn [enc_tree]. rewrite Hl, Hf. reflexivity. }
  destruct (bytes_eqb tn s_FeatureCollection) eqn:E9.
  { others_false. intros H Hmix. destruct (last_member s_features ms) as [m|]; [|discriminate].
    destruct (multi_wf 4 _ m t H) as (lm & ts & -> & F2 & ->). cbn [is_array negb elems] in *.
    destruct (multi_build (fun c => pres_res (parse f o one c)) (class_doc f) (fun c => nomix f c = true) lm ts) as (kids & -> & Hl & Hf);
      [exact (forallb_Forall' _ _ Hmix)|exact F2| |].
    - intros c t0 Pc Hc. destruct (IH o one c t0 (conj Hsimple (conj Hrects Hrv)) Hc Pc) as (g & -> & Eg). exists g. split; [reflexivity|exact Eg].
    - eexists. split; [reflexivity|]. cbn [enc_tree]. rewrite Hl, Hf. reflexivity. }
  intros H. discriminate.
Qed.

Print Assumptions defect_rejected.
Print Assumptions wf_accepted.
