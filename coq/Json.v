(* Json.v — model of the JSON layer of tidwall/geojson:
     jv        JSON documents as trees that keep the raw lexemes (what gjson sees)
     gobj      objects with their extras (z/m values, foreign members)
     parse     object.go parseJSON + the per-type parsers (point.go, linestring.go,
               polygon.go, multi*.go, feature.go, *collection.go), by ParseOptions
     emit      the AppendJSON writers at byte level (literal prefixes, position
               index threading, the members splice, the properties default)
   Two oracles enter as data: the float64 value of a number lexeme (strconv) and
   the decoded content of a string lexeme; the harness's independent tokenizer
   supplies them.  Number formatting is the parameter [fmt].  No proofs here. *)
From GJ Require Import Base JsonConst.

(* a float64 as data: a finite value k*2^-s on the case's grid, or a non-finite
   one (NaN, ±Inf: all print as null).  FBad marks an out-of-range read of the
   z/m value array (Go would panic); it is never produced on reachable objects. *)
Inductive fnum := FV (k : Z) | FNull | FBad.

Definition jkey : Type := (list Z * list Z)%type.        (* raw lexeme content, decoded content *)

Inductive jv :=
| JNull | JTrue | JFalse
| JNum (raw : list Z) (v : fnum)
| JStr (raw dec : list Z)
| JArr (l : list jv)
| JObj (ms : list (jkey * jv)).

Fixpoint join_comma (l : list (list Z)) : list Z :=
  match l with
  | [] => []
  | [x] => x
  | x :: r => x ++ 44 :: join_comma r
  end.

(* minified text (what pretty.Ugly leaves of the original text) *)
Fixpoint print_min (v : jv) : list Z :=
  match v with
  | JNull => s_null
  | JTrue => s_true
  | JFalse => s_false
  | JNum raw _ => raw
  | JStr raw _ => 34 :: raw ++ [34]
  | JArr l => 91 :: join_comma (map print_min l) ++ [93]
  | JObj ms => 123 :: join_comma (map (fun kv => 34 :: fst (fst kv) ++ 34 :: 58 :: print_min (snd kv)) ms) ++ [125]
  end.

Definition member_text (kv : jkey * jv) : list Z := 34 :: fst (fst kv) ++ 34 :: 58 :: print_min (snd kv).

(* ------------------------------------------------------------------ *)
(* objects                                                              *)

Record extra := {
  dims : nat;                              (* 0, 1 or 2 extra ordinates per position *)
  values : list fnum;
  members : option (list (jkey * jv)) }.   (* None = "" ; Some ms = the text {ms} *)

Definition fpt : Type := (fnum * fnum)%type.

Inductive gobj :=
| JPoint (p : fpt) (ex : option extra)
| JSimple (p : fpt)
| JRect (mn mx : fpt)
| JLine (ps : list fpt) (ex : option extra)
| JPoly (rings : list (list fpt)) (ex : option extra)
| JFeature (b : gobj) (ex : option extra)
| JColl (k : Z) (cs : list gobj) (ex : option extra)
| JCircle (c : fpt) (meters : fnum).

(* ------------------------------------------------------------------ *)
(* bytes helpers                                                        *)

Fixpoint bytes_eqb (a b : list Z) : bool :=
  match a, b with
  | [], [] => true
  | x :: a', y :: b' => (x =? y) && bytes_eqb a' b'
  | _, _ => false
  end.

Definition first_member (name : list Z) (ms : list (jkey * jv)) : option jv :=
  match find (fun kv => bytes_eqb (snd (fst kv)) name) ms with
  | Some kv => Some (snd kv)
  | None => None
  end.

(* ------------------------------------------------------------------ *)
(* emit                                                                 *)

Section Emit.
Variable fmt : Z -> list Z.      (* strconv.AppendFloat(_, f, 'f', -1, 64) of the grid value *)

Definition bad_token : list Z := [-2].

(* appendJSONFloat (object.go:245-250) *)
Definition emit_float (f : fnum) : list Z :=
  match f with FV k => fmt k | FNull => s_null | FBad => bad_token end.

Definition ex_dims (ex : option extra) : nat := match ex with Some e => dims e | None => 0%nat end.
Definition ex_value (ex : option extra) (j : nat) : fnum :=
  match ex with Some e => nth j (values e) FBad | None => FBad end.

(* appendJSONPoint (object.go:252-266) *)
Definition emit_point (p : fpt) (ex : option extra) (idx : nat) : list Z :=
  let d := ex_dims ex in
  91 :: emit_float (fst p) ++ 44 :: emit_float (snd p)
     ++ flat_map (fun i => 44 :: emit_float (ex_value ex (idx * d + i))) (seq 0 d)
     ++ [93].

(* appendJSONSeries (object.go:284-298): text and next position index *)
Definition emit_series (ps : list fpt) (ex : option extra) (pidx : nat) : list Z * nat :=
  (91 :: join_comma (map (fun pi => emit_point (fst pi) ex (snd pi)) (combine ps (seq pidx (length ps)))) ++ [93],
   (pidx + length ps)%nat).

(* appendJSONExtra (object.go:268-282) *)
Definition emit_extra (ex : option extra) (props_required : bool) : list Z :=
  match ex with
  | Some e =>
      match members e with
      | Some ms =>
          44 :: join_comma (map member_text ms)
             ++ (if props_required then
                   match first_member s_properties ms with Some _ => [] | None => props_default end
                 else [])
      | None => if props_required then props_default else []
      end
  | None => if props_required then props_default else []
  end.

(* the rings of a polygon with the position index threaded through *)
Fixpoint emit_rings (rings : list (list fpt)) (ex : option extra) (pidx : nat) : list (list Z) :=
  match rings with
  | [] => []
  | r :: rest => let '(t, n) := emit_series r ex pidx in t :: emit_rings rest ex n
  end.

Definition fpt_rect_points (mn mx : fpt) : list fpt :=
  [(fst mn, snd mn); (fst mx, snd mn); (fst mx, snd mx); (fst mn, snd mx); (fst mn, snd mn)].

(* Poly.Empty(): no exterior, or a closed series of fewer than three points *)
Definition rings_empty (rings : list (list fpt)) : bool :=
  match rings with [] => true | e :: _ => (length e <? 3)%nat end.

(* the "coordinates" value of a Multi* child, re-extracted from the child's own JSON *)
Definition child_coords (c : gobj) : list Z :=
  match c with
  | JPoint p ex => emit_point p ex 0
  | JSimple p => emit_point p None 0
  | JLine ps ex => fst (emit_series ps ex 0)
  | JPoly rings ex => 91 :: (if rings_empty rings then [] else join_comma (emit_rings rings ex 0)) ++ [93]
  | JRect mn mx => 91 :: fst (emit_series (fpt_rect_points mn mx) None 0) ++ [93]
  | _ => []
  end.

Fixpoint emit (o : gobj) : list Z :=
  match o with
  | JPoint p ex => pre_Point ++ emit_point p ex 0 ++ emit_extra ex false ++ [125]
  | JSimple p => pre_Point ++ emit_point p None 0 ++ [125]
  | JRect mn mx => pre_Polygon ++ fst (emit_series (fpt_rect_points mn mx) None 0) ++ [93; 125]
  | JLine ps ex =>
      pre_LineString ++ fst (emit_series ps ex 0)
        ++ (match ex with Some _ => emit_extra ex false | None => [] end) ++ [125]
  | JPoly rings ex =>
      pre_Polygon ++ (if rings_empty rings then [] else join_comma (emit_rings rings ex 0)) ++ 93 ::
        (match ex with Some _ => emit_extra ex false | None => [] end) ++ [125]
  | JFeature b ex => pre_Feature ++ emit b ++ emit_extra ex true ++ [125]
  | JColl k cs ex =>
      (if k =? 0 then pre_MultiPoint else if k =? 1 then pre_MultiLineString else if k =? 2 then pre_MultiPolygon
       else if k =? 3 then pre_GeometryCollection else pre_FeatureCollection)
      ++ join_comma (map (fun c => if k <? 3 then child_coords c else emit c) cs) ++ 93 ::
        (match ex with Some _ => emit_extra ex false | None => [] end) ++ [125]
  | JCircle c meters =>
      circle_a ++ emit_float (fst c) ++ 44 :: emit_float (snd c) ++ circle_b ++ emit_float meters ++ circle_c
  end.

(* AppendJSON(dst) *)
Definition append_json (dst : list Z) (o : gobj) : list Z := dst ++ emit o.

End Emit.

(* ------------------------------------------------------------------ *)
(* parse                                                                *)

Record popts := {
  allow_simple : bool; allow_rects : bool; require_valid : bool; disable_circle : bool;
  l180 : Z; l90 : Z }.       (* the validity limits on the case's grid *)

Inductive pres := POk (o : gobj) | PErr (code : Z).

Definition E_DataInvalid := 1. Definition E_TypeInvalid := 2. Definition E_TypeMissing := 3.
Definition E_CoordsInvalid := 4. Definition E_CoordsMissing := 5. Definition E_GeometryMissing := 6.
Definition E_FeaturesMissing := 7. Definition E_FeaturesInvalid := 8. Definition E_GeometriesMissing := 9.
Definition E_GeometriesInvalid := 10. Definition E_CircleUnits := 11. Definition E_TypeUnknown := 12.
Definition E_Unmodelled := 99.    (* gjson behaviour outside this model (e.g. a string radius) *)

(* gjson Result.ForEach: an array's items, an object's values, or the value itself *)
Definition elems (v : jv) : list jv :=
  match v with
  | JArr l => l
  | JObj ms => map snd ms
  | _ => [v]
  end.

Definition is_array (v : jv) : bool := match v with JArr _ => true | _ => false end.

(* the member scan of parseJSON (object.go:170-203): the last of duplicate reserved
   keys wins; every other member is kept, in order *)
Record pkeys := { k_type : option jv; k_coords : option jv; k_geoms : option jv; k_geom : option jv;
                  k_feats : option jv; k_foreign : list (jkey * jv) }.

Definition scan_step (ks : pkeys) (kv : jkey * jv) : pkeys :=
  let d := snd (fst kv) in let v := snd kv in
  if bytes_eqb d s_type then {| k_type := Some v; k_coords := k_coords ks; k_geoms := k_geoms ks; k_geom := k_geom ks; k_feats := k_feats ks; k_foreign := k_foreign ks |}
  else if bytes_eqb d s_coordinates then {| k_type := k_type ks; k_coords := Some v; k_geoms := k_geoms ks; k_geom := k_geom ks; k_feats := k_feats ks; k_foreign := k_foreign ks |}
  else if bytes_eqb d s_geometries then {| k_type := k_type ks; k_coords := k_coords ks; k_geoms := Some v; k_geom := k_geom ks; k_feats := k_feats ks; k_foreign := k_foreign ks |}
  else if bytes_eqb d s_geometry then {| k_type := k_type ks; k_coords := k_coords ks; k_geoms := k_geoms ks; k_geom := Some v; k_feats := k_feats ks; k_foreign := k_foreign ks |}
  else if bytes_eqb d s_features then {| k_type := k_type ks; k_coords := k_coords ks; k_geoms := k_geoms ks; k_geom := k_geom ks; k_feats := Some v; k_foreign := k_foreign ks |}
  else {| k_type := k_type ks; k_coords := k_coords ks; k_geoms := k_geoms ks; k_geom := k_geom ks; k_feats := k_feats ks; k_foreign := k_foreign ks ++ [kv] |}.

Definition scan_keys (ms : list (jkey * jv)) : pkeys :=
  fold_left scan_step ms {| k_type := None; k_coords := None; k_geoms := None; k_geom := None; k_feats := None; k_foreign := [] |}.

(* parseBBoxAndExtras (object.go:234-243) *)
Definition with_members (ex : option extra) (foreign : list (jkey * jv)) : option extra :=
  match foreign with
  | [] => ex
  | _ => match ex with
         | Some e => Some {| dims := dims e; values := values e; members := Some foreign |}
         | None => Some {| dims := 0; values := []; members := Some foreign |}
         end
  end.

(* the first four ordinates of a position (point.go:181-199; linestring.go:165-176):
   numbers, and null where allowed; Some (list) or None = not a number *)
Fixpoint take_nums (allow_null : bool) (n : nat) (l : list jv) : option (list fnum) :=
  match n, l with
  | O, _ => Some []
  | _, [] => Some []
  | S n', v :: r =>
      match v with
      | JNum _ f => match take_nums allow_null n' r with Some t => Some (f :: t) | None => None end
      | JNull => if allow_null then match take_nums allow_null n' r with Some t => Some (FNull :: t) | None => None end
                 else None
      | _ => None
      end
  end.

Inductive res (A : Type) := ROk (a : A) | RErr (code : Z).
Arguments ROk {A}. Arguments RErr {A}.

Definition extra_of_nums (nums : list fnum) : option extra :=
  match nums with
  | _ :: _ :: z :: m :: _ => Some {| dims := 2; values := [z; m]; members := None |}
  | _ :: _ :: z :: _ => Some {| dims := 1; values := [z]; members := None |}
  | _ => None
  end.

(* parseJSONPointCoords (point.go:159-214); [top] = taken from the object's own
   "coordinates" member (then it must be an array) *)
Definition parse_point_coords (top : bool) (rc : option jv) : res (fpt * option extra) :=
  match rc with
  | None => RErr E_CoordsMissing
  | Some v =>
      if top && negb (is_array v) then RErr E_CoordsInvalid
      else
        match take_nums true 4 (elems v) with
        | None => RErr E_CoordsInvalid
        | Some (x :: y :: r) => ROk ((x, y), extra_of_nums (x :: y :: r))
        | Some _ => RErr E_CoordsInvalid
        end
  end.

(* one position of a line string / ring: its x,y and all its (up to four) numbers *)
Definition parse_position (v : jv) : res (list fnum) :=
  match take_nums false 4 (elems v) with
  | None => RErr E_CoordsInvalid
  | Some (x :: y :: r) => ROk (x :: y :: r)
  | Some _ => RErr E_CoordsInvalid
  end.

Definition pad_dims (d : nat) (extra_nums : list fnum) : list fnum :=
  map (fun i => nth i extra_nums (FV 0)) (seq 0 d).

(* the position loop shared by line strings and rings (linestring.go:160-205,
   polygon.go:205-250).  State: points so far (reversed), extra, dims.
   [first] = this is the very first position of the whole geometry.
   [mixed_ok] = after the repair of finding F6 a later position with more
   ordinates than the first no longer fails (the surplus is dropped) *)
Definition pos_step (mixed_ok : bool) (must_be_array : bool)
    (st : res (list fpt * option extra * bool)) (v : jv) : res (list fpt * option extra * bool) :=
  match st with
  | RErr c => RErr c
  | ROk (pts_rev, ex, first) =>
      if must_be_array && negb (is_array v) then RErr E_CoordsInvalid
      else
        match parse_position v with
        | RErr c => RErr c
        | ROk nums =>
            let x := nth 0 nums (FV 0) in let y := nth 1 nums (FV 0) in
            let more := skipn 2 nums in
            match ex with
            | None =>
                match more with
                | [] => ROk ((x, y) :: pts_rev, None, false)
                | _ =>
                    if first then
                      let d := length more in
                      ROk ((x, y) :: pts_rev, Some {| dims := d; values := more; members := None |}, false)
                    else if mixed_ok then ROk ((x, y) :: pts_rev, None, false)
                    else RErr E_CoordsInvalid
                end
            | Some e =>
                ROk ((x, y) :: pts_rev,
                     Some {| dims := dims e; values := values e ++ pad_dims (dims e) more; members := None |}, false)
            end
        end
  end.

Definition MIXED_OK : bool := false.    (* pinned tree; switched by the repair of F6 *)

(* parseJSONLineStringCoords *)
Definition parse_line_coords (top : bool) (rc : option jv) : res (list fpt * option extra) :=
  match rc with
  | None => RErr E_CoordsMissing
  | Some v =>
      if top && negb (is_array v) then RErr E_CoordsInvalid
      else
        match fold_left (pos_step MIXED_OK true) (elems v) (ROk ([], None, true)) with
        | RErr c => RErr c
        | ROk (pts_rev, ex, _) => ROk (rev pts_rev, ex)
        end
  end.

(* parseJSONPolygonCoords: rings must be arrays, positions need not be *)
Definition ring_step (st : res (list (list fpt) * option extra * bool)) (ring : jv)
    : res (list (list fpt) * option extra * bool) :=
  match st with
  | RErr c => RErr c
  | ROk (rings_rev, ex, first) =>
      if negb (is_array ring) then RErr E_CoordsInvalid
      else
        match fold_left (pos_step MIXED_OK false) (elems ring) (ROk ([], ex, first)) with
        | RErr c => RErr c
        | ROk (pts_rev, ex', _) => ROk (rev pts_rev :: rings_rev, ex', false)
        end
  end.

Definition parse_poly_coords (top : bool) (rc : option jv) : res (list (list fpt) * option extra) :=
  match rc with
  | None => RErr E_CoordsMissing
  | Some v =>
      if top && negb (is_array v) then RErr E_CoordsInvalid
      else
        match fold_left ring_step (elems v) (ROk ([], None, true)) with
        | RErr c => RErr c
        | ROk (rings_rev, ex, _) => ROk (rev rings_rev, ex)
        end
  end.

Definition fnum_eqb (a b : fnum) : bool :=
  match a, b with FV x, FV y => x =? y | _, _ => false end.     (* NaN <> NaN *)
Definition fpt_eqb (a b : fpt) : bool := fnum_eqb (fst a) (fst b) && fnum_eqb (snd a) (snd b).
Definition fnum_ltb (a b : fnum) : bool :=
  match a, b with FV x, FV y => x <? y | _, _ => false end.

(* a linear ring: at least four positions, first = last *)
Definition ring_ok (r : list fpt) : bool :=
  (4 <=? length r)%nat && match r with p :: _ => fpt_eqb p (last r p) | [] => false end.

Definition fnum_valid (lim : Z) (f : fnum) : bool :=
  match f with FV k => (- lim <=? k) && (k <=? lim) | _ => false end.
Definition fpt_valid (o : popts) (p : fpt) : bool := fnum_valid (l180 o) (fst p) && fnum_valid (l90 o) (snd p).

(* the AllowRects test (polygon.go:154-164) *)
Definition perfect_rect (r : list fpt) : bool :=
  match r with
  | [p0; p1; p2; p3; p4] =>
      fnum_ltb (fst p0) (fst p1) && fnum_eqb (snd p0) (snd p1) &&
      fnum_eqb (fst p1) (fst p2) && fnum_ltb (snd p1) (snd p2) &&
      fnum_ltb (fst p3) (fst p2) && fnum_eqb (snd p2) (snd p3) &&
      fnum_eqb (fst p3) (fst p4) && fnum_ltb (snd p4) (snd p3)
  | _ => false
  end.

Fixpoint g_valid (o : popts) (g : gobj) : bool :=
  match g with
  | JPoint p _ | JSimple p => fpt_valid o p
  | JRect mn mx => fpt_valid o mn && fpt_valid o mx
  | JLine ps _ => forallb (fpt_valid o) ps
  | JPoly rings _ => forallb (forallb (fpt_valid o)) rings
  | JFeature b _ => g_valid o b
  | JColl _ cs _ => forallb (g_valid o) cs
  | JCircle c _ => fpt_valid o c     (* the Point it was recognised from (its polygon approximation is outside this model) *)
  end.

(* gjson Result.String() of a member value *)
Definition str_of (v : jv) : list Z :=
  match v with
  | JStr _ dec => dec
  | JNum raw _ => raw
  | JTrue => s_true
  | JFalse => s_false
  | JNull => []
  | _ => print_min v
  end.

Definition get2 (a b : list Z) (ms : list (jkey * jv)) : option jv :=
  match first_member a ms with
  | Some (JObj ms2) => first_member b ms2
  | _ => None
  end.

Definition fmul1000 (f : fnum) : fnum := match f with FV k => FV (k * 1000) | x => x end.

(* Circle recognition (feature.go:155-173) for a Feature whose geometry parsed to
   a Point; [one] is the grid value of 1.0 *)
Definition circle_of (o : popts) (one : Z) (center : fpt) (ms : list (jkey * jv)) : option pres :=
  if disable_circle o then None
  else
    match get2 s_properties s_type ms with
    | Some tv =>
        if bytes_eqb (str_of tv) s_Circle then
          let radius : res fnum :=
            match get2 s_properties s_radius ms with
            | Some (JNum _ f) => ROk f
            | Some JTrue => ROk (FV one)
            | Some (JStr _ _) => RErr E_Unmodelled
            | _ => ROk (FV 0)
            end in
          let units := match get2 s_properties s_radius_units ms with Some v => str_of v | None => [] end in
          let km := bytes_eqb units s_km in
          if negb (bytes_eqb units [] || bytes_eqb units s_m || km) then Some (PErr E_CircleUnits)
          else
            match radius with
            | RErr c => Some (PErr c)
            | ROk r => Some (POk (JCircle center (if km then fmul1000 r else r)))
            end
        else None
    | None => None
    end.

Definition CIRCLE_SIMPLE_OK : bool := true.   (* after the repair of F18 (false = pinned tree) *)
Definition MULTIPOINT_VALID_CHECK : bool := true.   (* after the repair of F10 (false = pinned tree) *)

(* map with the first error *)
Fixpoint all_ok {A} (l : list (res A)) : res (list A) :=
  match l with
  | [] => ROk []
  | RErr c :: _ => RErr c
  | ROk a :: r => match all_ok r with ROk t => ROk (a :: t) | RErr c => RErr c end
  end.

(* stop at the first failing child, as the ForEach callbacks do *)
Fixpoint map_until {A B} (f : A -> res B) (l : list A) : res (list B) :=
  match l with
  | [] => ROk []
  | x :: r => match f x with
              | RErr c => RErr c
              | ROk b => match map_until f r with ROk t => ROk (b :: t) | RErr c => RErr c end
              end
  end.

Definition pres_res (p : pres) : res gobj := match p with POk o => ROk o | PErr c => RErr c end.

(* Parse of a document that gjson.Valid accepted (object.go:119-232); fuel = nesting depth *)
Fixpoint parse (fuel : nat) (o : popts) (one : Z) (v : jv) : pres :=
  match fuel with
  | O => PErr E_Unmodelled
  | S fuel' =>
  match v with
  | JObj ms =>
      let ks := scan_keys ms in
      match k_type ks with
      | None => PErr E_TypeMissing
      | Some (JStr _ tname) =>
          let foreign := k_foreign ks in
          let check (g : gobj) (code : Z) : pres :=
            if require_valid o && negb (g_valid o g) then PErr code else POk g in
          if bytes_eqb tname s_Point then
            match parse_point_coords true (k_coords ks) with
            | RErr c => PErr c
            | ROk (p, ex) =>
                let ex' := with_members ex foreign in
                match ex' with
                | None => if allow_simple o then check (JSimple p) E_CoordsInvalid else check (JPoint p None) E_CoordsInvalid
                | Some _ => check (JPoint p ex') E_CoordsInvalid
                end
            end
          else if bytes_eqb tname s_LineString then
            match parse_line_coords true (k_coords ks) with
            | RErr c => PErr c
            | ROk (ps, ex) =>
                if (length ps <? 2)%nat then PErr E_CoordsInvalid
                else check (JLine ps (with_members ex foreign)) E_DataInvalid
            end
          else if bytes_eqb tname s_Polygon then
            match parse_poly_coords true (k_coords ks) with
            | RErr c => PErr c
            | ROk (rings, ex) =>
                match rings with
                | [] => PErr E_CoordsInvalid
                | ext :: holes =>
                    if negb (forallb ring_ok rings) then PErr E_CoordsInvalid
                    else
                      let ex' := with_members ex foreign in
                      match ex', holes with
                      | None, [] =>
                          if allow_rects o && perfect_rect ext
                          then check (JRect (nth 0 ext (FV 0, FV 0)) (nth 2 ext (FV 0, FV 0))) E_CoordsInvalid
                          else check (JPoly rings None) E_CoordsInvalid
                      | _, _ => check (JPoly rings ex') E_CoordsInvalid
                      end
                end
            end
          else if bytes_eqb tname s_Feature then
            match k_geom ks with
            | None => PErr E_GeometryMissing
            | Some gv =>
                match parse fuel' o one gv with
                | PErr c => PErr c
                | POk base =>
                    let ex' := with_members None foreign in
                    let circ :=
                      match base, foreign with
                      | JPoint p _, _ :: _ => circle_of o one p foreign
                      | JSimple p, _ :: _ => if CIRCLE_SIMPLE_OK then circle_of o one p foreign else None
                      | _, _ => None
                      end in
                    match circ with
                    | Some r => r
                    | None => POk (JFeature base ex')
                    end
                end
            end
          else if bytes_eqb tname s_MultiPoint then
            match k_coords ks with
            | None => PErr E_CoordsMissing
            | Some cv =>
                if negb (is_array cv) then PErr E_CoordsInvalid
                else
                  match map_until (fun c => match parse_point_coords false (Some c) with
                                            | ROk (p, ex) => ROk (JPoint p ex) | RErr e => RErr e end) (elems cv) with
                  | RErr c => PErr c
                  | ROk kids =>
                      let g := JColl 0 kids (with_members None foreign) in
                      if MULTIPOINT_VALID_CHECK then check g E_CoordsInvalid else POk g
                  end
            end
          else if bytes_eqb tname s_MultiLineString then
            match k_coords ks with
            | None => PErr E_CoordsMissing
            | Some cv =>
                if negb (is_array cv) then PErr E_CoordsInvalid
                else
                  match map_until (fun c => match parse_line_coords false (Some c) with
                                            | ROk (ps, ex) => if (length ps <? 2)%nat then RErr E_CoordsInvalid else ROk (JLine ps ex)
                                            | RErr e => RErr e end) (elems cv) with
                  | RErr c => PErr c
                  | ROk kids => check (JColl 1 kids (with_members None foreign)) E_CoordsInvalid
                  end
            end
          else if bytes_eqb tname s_MultiPolygon then
            match k_coords ks with
            | None => PErr E_CoordsMissing
            | Some cv =>
                if negb (is_array cv) then PErr E_CoordsInvalid
                else
                  match map_until (fun c => match parse_poly_coords false (Some c) with
                                            | ROk (rings, ex) =>
                                                match rings with
                                                | [] => RErr E_CoordsInvalid
                                                | _ => if forallb ring_ok rings then ROk (JPoly rings ex) else RErr E_CoordsInvalid
                                                end
                                            | RErr e => RErr e end) (elems cv) with
                  | RErr c => PErr c
                  | ROk kids => check (JColl 2 kids (with_members None foreign)) E_CoordsInvalid
                  end
            end
          else if bytes_eqb tname s_GeometryCollection then
            match k_geoms ks with
            | None => PErr E_GeometriesMissing
            | Some cv =>
                if negb (is_array cv) then PErr E_GeometriesInvalid
                else
                  match map_until (fun c => pres_res (parse fuel' o one c)) (elems cv) with
                  | RErr c => PErr c
                  | ROk kids => POk (JColl 3 kids (with_members None foreign))
                  end
            end
          else if bytes_eqb tname s_FeatureCollection then
            match k_feats ks with
            | None => PErr E_FeaturesMissing
            | Some cv =>
                if negb (is_array cv) then PErr E_FeaturesInvalid
                else
                  match map_until (fun c => pres_res (parse fuel' o one c)) (elems cv) with
                  | RErr c => PErr c
                  | ROk kids => POk (JColl 4 kids (with_members None foreign))
                  end
            end
          else PErr E_TypeUnknown
      | Some _ => PErr E_TypeInvalid
      end
  | _ => PErr E_DataInvalid      (* Parse looks for '{' *)
  end
  end.

(* nesting depth of a document: enough fuel for parse *)
Fixpoint depth (v : jv) : nat :=
  match v with
  | JArr l => S (fold_right (fun x acc => Nat.max (depth x) acc) 0%nat l)
  | JObj ms => S (fold_right (fun kv acc => Nat.max (depth (snd kv)) acc) 0%nat ms)
  | _ => 1%nat
  end.
