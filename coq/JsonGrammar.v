(* JsonGrammar.v — property C17: "the bytes are one valid JSON object".
   The RFC 8259 grammar without insignificant whitespace, as a relation between
   texts and trees; lexical predicates for number and string tokens; and the
   theorem that the minified print of any lexically well-formed tree belongs to
   the grammar.  Combined with EmitProofs.emit_is_print: the writers' bytes are a
   JSON object text. *)
From Coq Require Import Lia.
From GJ Require Import Base JsonConst Json EmitProofs.
Open Scope Z_scope.

(* ------------------------------------------------------------------ *)
(* tokens                                                               *)

Definition is_digit (c : Z) : bool := (48 <=? c) && (c <=? 57).

Fixpoint all_digits (l : list Z) : bool :=
  match l with [] => true | c :: r => is_digit c && all_digits r end.

(* digits (non-empty), then an optional fraction / exponent in [rest] *)
Fixpoint split_digits (l : list Z) : list Z * list Z :=
  match l with
  | c :: r => if is_digit c then let '(d, rest) := split_digits r in (c :: d, rest) else ([], l)
  | [] => ([], [])
  end.

Definition exp_ok (l : list Z) : bool :=      (* after 'e' / 'E' *)
  match l with
  | 43 :: r | 45 :: r => negb (match r with [] => true | _ => false end) && all_digits r
  | _ => negb (match l with [] => true | _ => false end) && all_digits l
  end.

Definition frac_exp_ok (l : list Z) : bool :=
  match l with
  | [] => true
  | 46 :: r =>
      let '(d, rest) := split_digits r in
      negb (match d with [] => true | _ => false end) &&
      match rest with
      | [] => true
      | 101 :: e | 69 :: e => exp_ok e
      | _ => false
      end
  | 101 :: e | 69 :: e => exp_ok e
  | _ => false
  end.

(* number = [ minus ] int [ frac ] [ exp ] ;  int = zero / ( digit1-9 *DIGIT ) *)
Definition num_lexeme (l : list Z) : bool :=
  let body := match l with 45 :: r => r | _ => l end in
  match body with
  | 48 :: rest => frac_exp_ok rest
  | c :: _ =>
      is_digit c &&
      let '(d, rest) := split_digits body in frac_exp_ok rest
  | [] => false
  end.

Definition is_hex (c : Z) : bool :=
  is_digit c || ((65 <=? c) && (c <=? 70)) || ((97 <=? c) && (c <=? 102)).

(* the characters between the quotes: no bare quote, backslash or control character; escapes well formed *)
Fixpoint str_body_fuel (fuel : nat) (l : list Z) : bool :=
  match fuel with
  | O => false
  | S f =>
      match l with
      | [] => true
      | 92 :: 117 :: a :: b :: c :: d :: r => is_hex a && is_hex b && is_hex c && is_hex d && str_body_fuel f r
      | 92 :: e :: r =>
          ((e =? 34) || (e =? 92) || (e =? 47) || (e =? 98) || (e =? 102) || (e =? 110) || (e =? 114) || (e =? 116))
          && str_body_fuel f r
      | c :: r => (32 <=? c) && negb (c =? 34) && negb (c =? 92) && (c <=? 255) && str_body_fuel f r
      end
  end.
Definition str_body (l : list Z) : bool := str_body_fuel (S (length l)) l.

(* ------------------------------------------------------------------ *)
(* the grammar (value / object / member / array, RFC 8259 §2-§7, no whitespace) *)

Inductive json_text : list Z -> jv -> Prop :=
| jt_null : json_text s_null JNull
| jt_true : json_text s_true JTrue
| jt_false : json_text s_false JFalse
| jt_num raw v : num_lexeme raw = true -> json_text raw (JNum raw v)
| jt_str raw dec : str_body raw = true -> json_text (34 :: raw ++ [34]) (JStr raw dec)
| jt_arr ts vs : json_texts ts vs -> json_text (91 :: join_comma ts ++ [93]) (JArr vs)
| jt_obj ts ms : json_members ts ms -> json_text (123 :: join_comma ts ++ [125]) (JObj ms)
with json_texts : list (list Z) -> list jv -> Prop :=
| jts_nil : json_texts [] []
| jts_cons t v ts vs : json_text t v -> json_texts ts vs -> json_texts (t :: ts) (v :: vs)
with json_members : list (list Z) -> list (jkey * jv) -> Prop :=
| jms_nil : json_members [] []
| jms_cons t kraw kdec v ts ms :
    str_body kraw = true -> json_text t v -> json_members ts ms ->
    json_members ((34 :: kraw ++ 34 :: 58 :: t) :: ts) (((kraw, kdec), v) :: ms).

(* lexically well-formed trees: every number and string token is a JSON token *)
Fixpoint lex_ok (v : jv) : bool :=
  match v with
  | JNull | JTrue | JFalse => true
  | JNum raw _ => num_lexeme raw
  | JStr raw _ => str_body raw
  | JArr l => forallb lex_ok l
  | JObj ms => forallb (fun kv => str_body (fst (fst kv)) && lex_ok (snd kv)) ms
  end.

Section JvInd.
Variable P : jv -> Prop.
Hypothesis Hn : P JNull. Hypothesis Ht : P JTrue. Hypothesis Hf : P JFalse.
Hypothesis Hnum : forall r v, P (JNum r v).
Hypothesis Hstr : forall r d, P (JStr r d).
Hypothesis Harr : forall l, Forall P l -> P (JArr l).
Hypothesis Hobj : forall ms, Forall (fun kv => P (snd kv)) ms -> P (JObj ms).
Fixpoint jv_ind' (v : jv) : P v :=
  match v with
  | JNull => Hn | JTrue => Ht | JFalse => Hf
  | JNum r x => Hnum r x
  | JStr r d => Hstr r d
  | JArr l => Harr l ((fix go (l : list jv) : Forall P l :=
                         match l with [] => Forall_nil P | x :: r => Forall_cons x (jv_ind' x) (go r) end) l)
  | JObj ms => Hobj ms ((fix go (l : list (jkey * jv)) : Forall (fun kv => P (snd kv)) l :=
                           match l with [] => Forall_nil _ | x :: r => Forall_cons x (jv_ind' (snd x)) (go r) end) ms)
  end.
End JvInd.

(* MAIN: the minified print of a lexically well-formed tree is a text of the grammar, for that tree *)
Theorem print_min_is_json (v : jv) : lex_ok v = true -> json_text (print_min v) v.
Proof.
  induction v as [| | |r x|r d|l IH|ms IH] using jv_ind'; intros H; cbn [lex_ok] in H; cbn [print_min].
  - constructor. - constructor. - constructor.
  - constructor. exact H.
  - constructor. exact H.
  - apply jt_arr. induction l as [|x l IHl]; cbn [map]; [constructor|].
    cbn [forallb] in H. apply andb_true_iff in H. destruct H as [Hx Hl]. inversion IH; subst.
    constructor; [auto|apply IHl; assumption].
  - apply jt_obj. induction ms as [|[[kr kd] x] ms IHm]; cbn [map]; [constructor|].
    cbn [forallb fst snd] in H. rewrite !andb_true_iff in H. destruct H as [[Hk Hx] Hm]. inversion IH; subst.
    cbn [fst snd]. constructor; [exact Hk|auto|apply IHm; assumption].
Qed.

(* ------------------------------------------------------------------ *)
(* the writers' trees are lexically well formed                         *)

Section Emit.
Variable fmt : Z -> list Z.
Hypothesis fmt_number : forall k, num_lexeme (fmt k) = true.   (* strconv prints a JSON number for a finite value *)

(* no out-of-range read of the z/m value array: every ordinate that is printed exists *)
Definition values_ok (ex : option extra) (npoints : nat) : Prop :=
  match ex with
  | Some e => (dims e * npoints <= length (values e))%nat /\ Forall (fun f => f <> FBad) (values e)
  | None => True
  end.

Definition fpt_ok (p : fpt) : Prop := fst p <> FBad /\ snd p <> FBad.

Definition members_lex (ex : option extra) : Prop :=
  match ex with
  | Some e => match members e with Some ms => lex_ok (JObj ms) = true | None => True end
  | None => True
  end.

Lemma num_jv_lex (f : fnum) : f <> FBad -> lex_ok (num_jv fmt f) = true.
Proof. destruct f; cbn [num_jv lex_ok]; intros H; [apply fmt_number|reflexivity|congruence]. Qed.

Lemma ex_value_ok (ex : option extra) (n j : nat) :
  values_ok ex n -> (j < ex_dims ex * n)%nat -> ex_value ex j <> FBad.
Proof.
  destruct ex as [e|]; cbn [values_ok ex_dims ex_value]; [|lia].
  intros [Hlen Hall] Hj. rewrite Forall_forall in Hall. apply Hall. apply nth_In. lia.
Qed.

Lemma point_jv_lex (p : fpt) (ex : option extra) (idx n : nat) :
  fpt_ok p -> values_ok ex n -> (idx < n)%nat -> lex_ok (point_jv fmt p ex idx) = true.
Proof.
  intros [Hx Hy] Hv Hi. unfold point_jv. cbv zeta. cbn [lex_ok forallb].
  rewrite (num_jv_lex _ Hx), (num_jv_lex _ Hy). cbn [andb].
  apply forallb_forall. intros v Hin. apply in_map_iff in Hin. destruct Hin as (i & <- & Hi').
  apply in_seq in Hi'. apply num_jv_lex. apply (ex_value_ok ex n); [exact Hv|]. nia.
Qed.

Lemma series_jv_lex (ps : list fpt) (ex : option extra) (pidx n : nat) :
  Forall fpt_ok ps -> values_ok ex n -> (pidx + length ps <= n)%nat -> lex_ok (series_jv fmt ps ex pidx) = true.
Proof.
  intros Hps Hv Hn. unfold series_jv. cbn [lex_ok]. apply forallb_forall. intros v Hin.
  apply in_map_iff in Hin. destruct Hin as ([p i] & <- & Hpi). cbn [fst snd].
  assert (Hp : In p ps) by (eapply in_combine_l; exact Hpi).
  assert (Hi : In i (seq pidx (length ps))) by (eapply in_combine_r; exact Hpi).
  apply in_seq in Hi. rewrite Forall_forall in Hps. apply (point_jv_lex p ex i n); [apply Hps; exact Hp|exact Hv|lia].
Qed.

Lemma names_lex :
  str_body s_type = true /\ str_body s_coordinates = true /\ str_body s_geometry = true /\
  str_body s_geometries = true /\ str_body s_features = true /\ str_body s_properties = true /\
  str_body s_radius = true /\ str_body s_radius_units = true /\ str_body s_m = true /\ str_body s_Circle = true /\
  str_body s_Point = true /\ str_body s_LineString = true /\ str_body s_Polygon = true /\ str_body s_Feature = true /\
  str_body s_MultiPoint = true /\ str_body s_MultiLineString = true /\ str_body s_MultiPolygon = true /\
  str_body s_GeometryCollection = true /\ str_body s_FeatureCollection = true.
Proof. repeat split; reflexivity. Qed.

End Emit.

Print Assumptions print_min_is_json.
Print Assumptions series_jv_lex.
