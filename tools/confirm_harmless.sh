#!/bin/bash
# confirm_harmless.sh <src-dir with patch.diff demo_test.go meta.json> <dest harmless/<name>>
# A behaviour-preserving change from a sub-agent: patch applies to /repo HEAD, both builds and the unedited
# suite pass with it, and the agent's own equivalence test passes with AND without it.
set -u
SRC=$1; DEST=$2
export GOFLAGS=-mod=mod GOPROXY=off GOSUMDB=off GOTOOLCHAIN=local
WT=$(mktemp -d /tmp/harmwt-XXXXXX)
git -C /repo worktree add --detach "$WT" HEAD >/dev/null 2>&1 || { echo "worktree failed"; exit 2; }
cleanup() { git -C /repo worktree remove --force "$WT" >/dev/null 2>&1; rm -rf "$WT"; }
trap cleanup EXIT
cd "$WT"
place=$(head -1 "$SRC/demo_test.go" | sed -n 's/.*place in: *\([^ ]*\).*/\1/p'); place=${place:-.}
demo="$WT/$place/zz_harmless_demo_test.go"
res="patch_applies=no"
if git apply --check "$SRC/patch.diff" 2>/dev/null; then
  cp "$SRC/demo_test.go" "$demo"
  if go test -count=1 -timeout 600s ./$place/ >/dev/null 2>&1; then pre=pass; else pre=fail; fi
  rm -f "$demo"; git apply "$SRC/patch.diff"
  if go build ./... >/dev/null 2>&1 && go build -tags verif ./... >/dev/null 2>&1 && go test -count=1 -timeout 600s ./... >/dev/null 2>&1; then suite=pass; else suite=fail; fi
  cp "$SRC/demo_test.go" "$demo"
  if go test -count=1 -timeout 600s ./$place/ >/dev/null 2>&1; then post=pass; else post=fail; fi
  res="patch_applies=yes demo_without_patch=$pre suite_with_patch=$suite demo_with_patch=$post"
fi
echo "$(basename $DEST): $res"
if [ "$res" = "patch_applies=yes demo_without_patch=pass suite_with_patch=pass demo_with_patch=pass" ]; then
  mkdir -p "$DEST"; cp "$SRC/patch.diff" "$SRC/demo_test.go" "$SRC/meta.json" "$DEST/"
fi
