// gotrans <repo> <out.v> — translator for the straight-line geometry kernels of
// tidwall/geojson into Gallina.
//
// It reads the Go source of /repo's working tree (go/parser), symbolically
// executes each listed function — assignments, field updates, tuple
// assignments, if/else with early returns, calls to other listed functions
// (inlined) — and writes a Coq file with one definition T_<Recv>_<Name> per
// function plus one lemma stating that it equals the hand-written model
// function on ALL inputs (closed by the semantic tactic tie_tac of
// coq/TieTac.v: case analysis on the comparisons + lia, so a harmless rewrite
// of the Go code still proves, while a changed comparison, operand or branch
// does not).
//
// Arithmetic is exact: float64 -> Z on the grid domain (DESIGN §3.1), a
// division stays a fraction and comparisons of fractions are decided by cross
// multiplication (TieTac.qlt / qle).  Segment.Raycast has a loop (the Nextafter
// nudge) and is NOT translated: calls to it are mapped to the model's
// raycast_in / raycast_on, which stay tied by the correspondence run.
//
// usage: gotrans <repo> <out.v> [function ...]   (default: every listed function)
// Output lines: "TRANSLATED <func>" or "UNSUPPORTED <func>: <why>"; exit 1 if
// any listed function could not be translated.
package main

import (
	"fmt"
	"go/ast"
	"go/parser"
	"go/token"
	"os"
	"path/filepath"
	"strings"
)

// ---- symbolic values --------------------------------------------------

type Num struct{ N, D string } // N / D, D == "1" for grid integers
type Bool struct{ E string }
type Pt struct{ X, Y Num }
type Rc struct{ Min, Max Pt }
type Sg struct{ A, B Pt }
type Ray struct{ In, On Bool }

// a *Line, *Poly or Ring operand: an expression of the model's type (rng / poly); never nil
type Op struct{ T, E string }
type Nil struct{}
type Tup []Val // several results of one call
type Val interface{}

// a result tree: leaf value or if-then-else
type Tree struct {
	Leaf       Val
	Cond       string
	Then, Else *Tree
}

type unsupported struct{ why string }

func fail(format string, a ...interface{}) { panic(unsupported{fmt.Sprintf(format, a...)}) }

func one(n string) Num { return Num{n, "1"} }

func paren(s string) string { return "(" + s + ")" }

func addN(a, b Num, op string) Num {
	if a.D == "1" && b.D == "1" {
		return one(paren(a.N + " " + op + " " + b.N))
	}
	return Num{paren(a.N + " * " + b.D + " " + op + " " + b.N + " * " + a.D), paren(a.D + " * " + b.D)}
}
func mulN(a, b Num) Num {
	n := paren(a.N + " * " + b.N)
	if a.D == "1" && b.D == "1" {
		return one(n)
	}
	if a.D == "1" {
		return Num{n, b.D}
	}
	if b.D == "1" {
		return Num{n, a.D}
	}
	return Num{n, paren(a.D + " * " + b.D)}
}
func divN(a, b Num) Num {
	n, d := a.N, b.N
	if b.D != "1" {
		n = paren(a.N + " * " + b.D)
	}
	if a.D != "1" {
		d = paren(a.D + " * " + b.N)
	}
	return Num{n, d}
}
func negN(a Num) Num { return Num{paren("- " + a.N), a.D} }

func cmpN(op token.Token, a, b Num) Bool {
	if a.D == "1" && b.D == "1" {
		switch op {
		case token.LSS:
			return Bool{paren(a.N + " <? " + b.N)}
		case token.LEQ:
			return Bool{paren(a.N + " <=? " + b.N)}
		case token.GTR:
			return Bool{paren(b.N + " <? " + a.N)}
		case token.GEQ:
			return Bool{paren(b.N + " <=? " + a.N)}
		case token.EQL:
			return Bool{paren(a.N + " =? " + b.N)}
		case token.NEQ:
			return Bool{paren("negb " + paren(a.N+" =? "+b.N))}
		}
	}
	q := func(f string, x, y Num) Bool {
		return Bool{paren(f + " " + x.N + " " + x.D + " " + y.N + " " + y.D)}
	}
	switch op {
	case token.LSS:
		return q("qlt", a, b)
	case token.LEQ:
		return q("qle", a, b)
	case token.GTR:
		return q("qlt", b, a)
	case token.GEQ:
		return q("qle", b, a)
	case token.EQL:
		return q("qeq", a, b)
	case token.NEQ:
		return Bool{paren("negb " + q("qeq", a, b).E)}
	}
	fail("comparison %v", op)
	return Bool{}
}

func eqVal(a, b Val) Bool {
	if _, ok := b.(Nil); ok {
		if _, isOp := a.(Op); isOp {
			return Bool{"false"} // operands of the model are never nil
		}
		fail("comparison of %T with nil", a)
	}
	if _, ok := a.(Nil); ok {
		return eqVal(b, a)
	}
	switch x := a.(type) {
	case Num:
		return cmpN(token.EQL, x, b.(Num))
	case Bool:
		return Bool{paren("Bool.eqb " + x.E + " " + b.(Bool).E)}
	case Pt:
		y := b.(Pt)
		return Bool{paren(cmpN(token.EQL, x.X, y.X).E + " && " + cmpN(token.EQL, x.Y, y.Y).E)}
	case Rc:
		y := b.(Rc)
		return Bool{paren(eqVal(x.Min, y.Min).E + " && " + eqVal(x.Max, y.Max).E)}
	case Sg:
		y := b.(Sg)
		return Bool{paren(eqVal(x.A, y.A).E + " && " + eqVal(x.B, y.B).E)}
	}
	fail("equality on %T", a)
	return Bool{}
}

// ---- the source --------------------------------------------------------

var funcs = map[string]*ast.FuncDecl{}

func recvType(fd *ast.FuncDecl) string {
	if fd.Recv == nil || len(fd.Recv.List) == 0 {
		return ""
	}
	return typeName(fd.Recv.List[0].Type)
}

func typeName(e ast.Expr) string {
	switch t := e.(type) {
	case *ast.Ident:
		return t.Name
	case *ast.SelectorExpr: // geometry.Rect
		return t.Sel.Name
	case *ast.StarExpr:
		return typeName(t.X)
	}
	return "?"
}

func load(repo string, files []string) {
	fset := token.NewFileSet()
	for _, f := range files {
		af, err := parser.ParseFile(fset, filepath.Join(repo, f), nil, 0)
		if err != nil {
			fmt.Printf("UNSUPPORTED %s: %v\n", f, err)
			continue
		}
		for _, d := range af.Decls {
			if fd, ok := d.(*ast.FuncDecl); ok && fd.Body != nil {
				key := fd.Name.Name
				if r := recvType(fd); r != "" {
					key = r + "." + key
				}
				funcs[key] = fd
			}
		}
	}
}

// ---- symbolic execution -------------------------------------------------

type Env map[string]Val

func (e Env) copy() Env {
	n := Env{}
	for k, v := range e {
		n[k] = v
	}
	return n
}

func zero(t string) Val {
	z := one("0")
	switch t {
	case "float64":
		return z
	case "bool":
		return Bool{"false"}
	case "Point":
		return Pt{z, z}
	case "Rect":
		return Rc{Pt{z, z}, Pt{z, z}}
	case "Segment":
		return Sg{Pt{z, z}, Pt{z, z}}
	}
	fail("zero value of %s", t)
	return nil
}

func field(v Val, f string) Val {
	switch x := v.(type) {
	case Pt:
		if f == "X" {
			return x.X
		} else if f == "Y" {
			return x.Y
		}
	case Rc:
		if f == "Min" {
			return x.Min
		} else if f == "Max" {
			return x.Max
		}
	case Sg:
		if f == "A" {
			return x.A
		} else if f == "B" {
			return x.B
		}
	case Ray:
		if f == "In" {
			return x.In
		} else if f == "On" {
			return x.On
		}
	case Op:
		if x.T == "Poly" && f == "Exterior" {
			return Op{"Ring", paren("exterior " + x.E)}
		}
	}
	fail("field %s of %T", f, v)
	return nil
}

func setField(v Val, path []string, nv Val) Val {
	if len(path) == 0 {
		return nv
	}
	f := path[0]
	switch x := v.(type) {
	case Pt:
		if f == "X" {
			x.X = setField(x.X, path[1:], nv).(Num)
		} else if f == "Y" {
			x.Y = setField(x.Y, path[1:], nv).(Num)
		} else {
			fail("field %s", f)
		}
		return x
	case Rc:
		if f == "Min" {
			x.Min = setField(x.Min, path[1:], nv).(Pt)
		} else if f == "Max" {
			x.Max = setField(x.Max, path[1:], nv).(Pt)
		} else {
			fail("field %s", f)
		}
		return x
	case Sg:
		if f == "A" {
			x.A = setField(x.A, path[1:], nv).(Pt)
		} else if f == "B" {
			x.B = setField(x.B, path[1:], nv).(Pt)
		} else {
			fail("field %s", f)
		}
		return x
	}
	fail("assignment into %T", v)
	return nil
}

func lvalue(e ast.Expr) (string, []string) {
	switch x := e.(type) {
	case *ast.Ident:
		return x.Name, nil
	case *ast.SelectorExpr:
		r, p := lvalue(x.X)
		return r, append(p, x.Sel.Name)
	case *ast.ParenExpr:
		return lvalue(x.X)
	}
	fail("assignment target %T", e)
	return "", nil
}

var depth = 0

// named results of the functions being executed (innermost last)
var resultNames [][]string

func bindResults(fd *ast.FuncDecl, env Env) {
	var names []string
	if fd.Type.Results != nil {
		for _, f := range fd.Type.Results.List {
			for _, n := range f.Names {
				env[n.Name] = zero(typeName(f.Type))
				names = append(names, n.Name)
			}
		}
	}
	resultNames = append(resultNames, names)
}

func call(key string, recv Val, args []Val) Val {
	if strings.HasSuffix(key, ".Raycast") {
		s, p := render(recv), render(args[0])
		return Ray{Bool{paren("raycast_in " + s + " " + p)}, Bool{paren("raycast_on " + s + " " + p)}}
	}
	fd, ok := funcs[key]
	if !ok {
		fail("call to %s (not a listed straight-line function)", key)
	}
	depth++
	if depth > 8 {
		fail("call depth")
	}
	defer func() { depth-- }()
	env := Env{}
	if fd.Recv != nil && len(fd.Recv.List[0].Names) > 0 {
		env[fd.Recv.List[0].Names[0].Name] = recv
	}
	i := 0
	for _, f := range fd.Type.Params.List {
		for _, n := range f.Names {
			if i >= len(args) {
				fail("arity of %s", key)
			}
			env[n.Name] = args[i]
			i++
		}
	}
	bindResults(fd, env)
	defer func() { resultNames = resultNames[:len(resultNames)-1] }()
	t := exec(fd.Body.List, env)
	return flatten(t)
}

// a tree as a value: booleans become one expression, structures are merged fieldwise
func flatten(t *Tree) Val {
	if t.Then == nil {
		return t.Leaf
	}
	a, b := flatten(t.Then), flatten(t.Else)
	return ite(t.Cond, a, b)
}

func ite(c string, a, b Val) Val {
	switch x := a.(type) {
	case Bool:
		return Bool{paren("if " + c + " then " + x.E + " else " + b.(Bool).E)}
	case Num:
		y := b.(Num)
		if x.D == "1" && y.D == "1" {
			return one(paren("if " + c + " then " + x.N + " else " + y.N))
		}
		return Num{paren("if " + c + " then " + x.N + " else " + y.N), paren("if " + c + " then " + x.D + " else " + y.D)}
	case Pt:
		y := b.(Pt)
		return Pt{ite(c, x.X, y.X).(Num), ite(c, x.Y, y.Y).(Num)}
	case Rc:
		y := b.(Rc)
		return Rc{ite(c, x.Min, y.Min).(Pt), ite(c, x.Max, y.Max).(Pt)}
	case Sg:
		y := b.(Sg)
		return Sg{ite(c, x.A, y.A).(Pt), ite(c, x.B, y.B).(Pt)}
	case Ray:
		y := b.(Ray)
		return Ray{ite(c, x.In, y.In).(Bool), ite(c, x.On, y.On).(Bool)}
	case Tup:
		y := b.(Tup)
		if len(x) != len(y) {
			fail("results of different arity")
		}
		var t Tup
		for i := range x {
			t = append(t, ite(c, x[i], y[i]))
		}
		return t
	}
	fail("if-then-else on %T", a)
	return nil
}

func eval(e ast.Expr, env Env) Val {
	switch x := e.(type) {
	case *ast.ParenExpr:
		return eval(x.X, env)
	case *ast.Ident:
		if x.Name == "true" || x.Name == "false" {
			return Bool{x.Name}
		}
		if x.Name == "nil" {
			return Nil{}
		}
		if v, ok := env[x.Name]; ok {
			return v
		}
		fail("identifier %s", x.Name)
	case *ast.BasicLit:
		if x.Kind == token.INT {
			return one(x.Value)
		}
		if x.Kind == token.FLOAT {
			s := strings.TrimRight(strings.TrimRight(x.Value, "0"), ".")
			if !strings.ContainsAny(s, ".eE") {
				return one(s)
			}
		}
		fail("literal %s", x.Value)
	case *ast.SelectorExpr:
		return field(eval(x.X, env), x.Sel.Name)
	case *ast.UnaryExpr:
		v := eval(x.X, env)
		switch x.Op {
		case token.NOT:
			return Bool{paren("negb " + v.(Bool).E)}
		case token.SUB:
			return negN(v.(Num))
		case token.ADD:
			return v
		case token.AND:
			return v
		}
		fail("unary %v", x.Op)
	case *ast.BinaryExpr:
		a, b := eval(x.X, env), eval(x.Y, env)
		switch x.Op {
		case token.LAND:
			return Bool{paren(a.(Bool).E + " && " + b.(Bool).E)}
		case token.LOR:
			return Bool{paren(a.(Bool).E + " || " + b.(Bool).E)}
		case token.ADD:
			return addN(a.(Num), b.(Num), "+")
		case token.SUB:
			return addN(a.(Num), b.(Num), "-")
		case token.MUL:
			return mulN(a.(Num), b.(Num))
		case token.QUO:
			return divN(a.(Num), b.(Num))
		case token.EQL:
			return eqVal(a, b)
		case token.NEQ:
			return Bool{paren("negb " + eqVal(a, b).E)}
		case token.LSS, token.LEQ, token.GTR, token.GEQ:
			return cmpN(x.Op, a.(Num), b.(Num))
		}
		fail("binary %v", x.Op)
	case *ast.CompositeLit:
		t := typeName(x.Type)
		if t == "Poly" { // &Poly{Exterior: rect}
			if len(x.Elts) == 1 {
				if kv, ok := x.Elts[0].(*ast.KeyValueExpr); ok && kv.Key.(*ast.Ident).Name == "Exterior" {
					if r, isRect := eval(kv.Value, env).(Rc); isRect {
						return Op{"Poly", paren("rect_poly " + render(r))}
					}
				}
			}
			fail("composite literal of Poly")
		}
		v := zero(t)
		names := map[string][]string{"Point": {"X", "Y"}, "Rect": {"Min", "Max"}, "Segment": {"A", "B"}}[t]
		for i, el := range x.Elts {
			if kv, ok := el.(*ast.KeyValueExpr); ok {
				v = setField(v, []string{kv.Key.(*ast.Ident).Name}, eval(kv.Value, env))
			} else {
				if i >= len(names) {
					fail("composite literal of %s", t)
				}
				v = setField(v, []string{names[i]}, eval(el, env))
			}
		}
		return v
	case *ast.CallExpr:
		var args []Val
		for _, a := range x.Args {
			args = append(args, eval(a, env))
		}
		switch f := x.Fun.(type) {
		case *ast.Ident:
			if v, ok := ringCall(f.Name, args); ok {
				return v
			}
			return call(f.Name, nil, args)
		case *ast.SelectorExpr:
			if pk, ok := f.X.(*ast.Ident); ok && pk.Name == "math" {
				if _, shadow := env["math"]; !shadow {
					return mathCall(f.Sel.Name, args)
				}
			}
			recv := eval(f.X, env)
			if o, isOp := recv.(Op); isOp {
				return opCall(o, f.Sel.Name, args)
			}
			tn := map[string]string{"main.Pt": "Point", "main.Rc": "Rect", "main.Sg": "Segment"}[fmt.Sprintf("%T", recv)]
			if tn == "" {
				fail("method call on %T", recv)
			}
			return call(tn+"."+f.Sel.Name, recv, args)
		}
		fail("call %T", x.Fun)
	}
	fail("expression %T", e)
	return nil
}

func rectOf(e string) Rc {
	v := func(s string) Num { return one(paren(s)) }
	return Rc{Pt{v("px (fst " + e + ")"), v("py (fst " + e + ")")}, Pt{v("px (snd " + e + ")"), v("py (snd " + e + ")")}}
}

func asRing(v Val) string {
	switch x := v.(type) {
	case Rc:
		return paren("RR " + render(x))
	case Op:
		if x.T == "Ring" || x.T == "Line" {
			return x.E
		}
	}
	fail("%T used as a ring", v)
	return ""
}

// the loop-carrying algorithms stay model functions (tied by the correspondence run)
func ringCall(name string, args []Val) (Val, bool) {
	model := map[string]string{"ringIntersectsLine": "ring_intersects_line", "ringContainsLine": "ring_contains_ring",
		"ringIntersectsRing": "ring_intersects_ring", "ringContainsRing": "ring_contains_ring"}[name]
	if model == "" || len(args) != 3 {
		return nil, false
	}
	b, ok := args[2].(Bool)
	if !ok {
		return nil, false
	}
	return Bool{paren(model + " " + asRing(args[0]) + " " + asRing(args[1]) + " " + b.E)}, true
}

func opCall(o Op, name string, args []Val) Val {
	arg := func(i int) string {
		if i >= len(args) {
			fail("%s.%s arity", o.T, name)
		}
		return render(args[i])
	}
	key := o.T + "." + name
	switch key {
	case "Line.Empty", "Ring.Empty":
		return Bool{paren("ring_empty " + o.E)}
	case "Line.Rect", "Ring.Rect":
		return rectOf(paren("ring_rect " + o.E))
	case "Poly.Empty":
		return Bool{paren("poly_empty " + o.E)}
	case "Poly.Rect":
		return rectOf(paren("poly_rect " + o.E))
	case "Line.ContainsPoint":
		return Bool{paren("line_contains_point_r " + o.E + " " + arg(0))}
	case "Line.IntersectsLine":
		return Bool{paren("line_intersects_line " + o.E + " " + arg(0))}
	case "Poly.ContainsPoint":
		return Bool{paren("poly_contains_point " + o.E + " " + arg(0))}
	case "Poly.ContainsPoly":
		return Bool{paren("poly_contains_poly " + o.E + " " + arg(0))}
	case "Poly.IntersectsPoly":
		return Bool{paren("poly_intersects_poly " + o.E + " " + arg(0))}
	case "Poly.ContainsLine":
		return Bool{paren("poly_contains_line " + o.E + " " + arg(0))}
	case "Poly.IntersectsLine":
		return Bool{paren("poly_intersects_line " + o.E + " " + arg(0))}
	}
	if _, ok := funcs[key]; ok {
		return call(key, o, args) // a delegating method: inlined
	}
	fail("method %s on an opaque operand", key)
	return nil
}

// math.Min / Max / Abs on grid values (no NaN, no signed zero there)
func mathCall(name string, args []Val) Val {
	num := func(i int) Num {
		if i >= len(args) {
			fail("math.%s arity", name)
		}
		n, ok := args[i].(Num)
		if !ok || n.D != "1" {
			fail("math.%s on a fraction", name)
		}
		return n
	}
	switch name {
	case "Min":
		a, b := num(0), num(1)
		return one(paren("Z.min " + a.N + " " + b.N))
	case "Max":
		a, b := num(0), num(1)
		return one(paren("Z.max " + a.N + " " + b.N))
	case "Abs":
		a := num(0)
		return one(paren("Z.abs " + a.N))
	}
	fail("math.%s", name)
	return nil
}

// switch statements become if chains
func switchToIf(x *ast.SwitchStmt) ast.Stmt {
	if x.Init != nil {
		fail("switch with init")
	}
	var def *ast.CaseClause
	var clauses []*ast.CaseClause
	for _, c := range x.Body.List {
		cc := c.(*ast.CaseClause)
		for _, st := range cc.Body {
			if b, ok := st.(*ast.BranchStmt); ok && (b.Tok == token.FALLTHROUGH || b.Tok == token.BREAK) {
				fail("switch with %v", b.Tok)
			}
		}
		if cc.List == nil {
			def = cc
		} else {
			clauses = append(clauses, cc)
		}
	}
	var tail ast.Stmt
	if def != nil {
		tail = &ast.BlockStmt{List: def.Body}
	}
	for i := len(clauses) - 1; i >= 0; i-- {
		cc := clauses[i]
		var cond ast.Expr
		for _, e := range cc.List {
			var c ast.Expr = e
			if x.Tag != nil {
				c = &ast.BinaryExpr{X: x.Tag, Op: token.EQL, Y: e}
			}
			if cond == nil {
				cond = c
			} else {
				cond = &ast.BinaryExpr{X: cond, Op: token.LOR, Y: c}
			}
		}
		tail = &ast.IfStmt{Cond: cond, Body: &ast.BlockStmt{List: cc.Body}, Else: tail}
	}
	if tail == nil {
		return &ast.BlockStmt{}
	}
	return tail
}

func blockStmts(s ast.Stmt) []ast.Stmt {
	switch b := s.(type) {
	case nil:
		return nil
	case *ast.BlockStmt:
		return b.List
	default:
		return []ast.Stmt{s}
	}
}

func exec(stmts []ast.Stmt, env Env) *Tree {
	if len(stmts) == 0 {
		fail("function falls off its end")
	}
	s, rest := stmts[0], stmts[1:]
	switch x := s.(type) {
	case *fallStmt:
		return &Tree{Leaf: fallMarker{fmt.Sprintf("%v", env)}}
	case *ast.ReturnStmt:
		if len(x.Results) == 0 {
			names := resultNames[len(resultNames)-1]
			if len(names) == 0 {
				fail("bare return")
			}
			if len(names) == 1 {
				return &Tree{Leaf: env[names[0]]}
			}
			var t Tup
			for _, n := range names {
				t = append(t, env[n])
			}
			return &Tree{Leaf: t}
		}
		if len(x.Results) == 1 {
			return &Tree{Leaf: eval(x.Results[0], env)}
		}
		var t Tup
		for _, r := range x.Results {
			t = append(t, eval(r, env))
		}
		return &Tree{Leaf: t}
	case *ast.BlockStmt:
		return exec(append(append([]ast.Stmt{}, x.List...), rest...), env)
	case *ast.SwitchStmt:
		return exec(append([]ast.Stmt{switchToIf(x)}, rest...), env)
	case *ast.IfStmt:
		if x.Init != nil {
			fail("if with init")
		}
		if !skipGuard[x] {
			if t := guard(x, rest, env); t != nil {
				return t
			}
		}
		c := eval(x.Cond, env).(Bool).E
		t1 := exec(append(append([]ast.Stmt{}, x.Body.List...), rest...), env.copy())
		t2 := exec(append(append([]ast.Stmt{}, blockStmts(x.Else)...), rest...), env.copy())
		return &Tree{Cond: c, Then: t1, Else: t2}
	case *ast.AssignStmt:
		if x.Tok != token.ASSIGN && x.Tok != token.DEFINE {
			fail("assignment operator %v", x.Tok)
		}
		var vals []Val
		if len(x.Rhs) == 1 && len(x.Lhs) > 1 {
			t, ok := eval(x.Rhs[0], env).(Tup)
			if !ok || len(t) != len(x.Lhs) {
				fail("assignment arity")
			}
			vals = t
		} else {
			if len(x.Lhs) != len(x.Rhs) {
				fail("assignment arity")
			}
			for _, r := range x.Rhs {
				vals = append(vals, eval(r, env))
			}
		}
		for i, l := range x.Lhs {
			root, path := lvalue(l)
			if root == "_" {
				continue
			}
			if len(path) == 0 {
				env[root] = vals[i]
			} else {
				cur, ok := env[root]
				if !ok {
					fail("assignment to %s", root)
				}
				env[root] = setField(cur, path, vals[i])
			}
		}
		return exec(rest, env)
	case *ast.DeclStmt:
		gd, ok := x.Decl.(*ast.GenDecl)
		if !ok || gd.Tok != token.VAR {
			fail("declaration")
		}
		for _, sp := range gd.Specs {
			vs := sp.(*ast.ValueSpec)
			for i, n := range vs.Names {
				if len(vs.Values) > i {
					env[n.Name] = eval(vs.Values[i], env)
				} else {
					env[n.Name] = zero(typeName(vs.Type))
				}
			}
		}
		return exec(rest, env)
	}
	fail("statement %T", s)
	return nil
}

// An if statement all of whose paths either return one and the same value or fall through
// without having assigned anything is compiled to  if G then value else <rest>,  G the
// boolean "some path returns": the continuation is not duplicated.
type fallMarker struct{ env string }

type fallStmt struct{ ast.EmptyStmt }

var skipGuard = map[*ast.IfStmt]bool{}

func guard(x *ast.IfStmt, rest []ast.Stmt, env Env) (res *Tree) {
	if len(rest) == 0 {
		return nil
	}
	defer func() {
		if r := recover(); r != nil {
			res = nil
		}
	}()
	before := fmt.Sprintf("%v", env)
	skipGuard[x] = true
	t := execFall([]ast.Stmt{x}, env.copy())
	delete(skipGuard, x)
	ret := ""
	var toBool func(t *Tree) string
	ok := true
	toBool = func(t *Tree) string {
		if t.Then != nil {
			return paren("if " + t.Cond + " then " + toBool(t.Then) + " else " + toBool(t.Else))
		}
		if f, isFall := t.Leaf.(fallMarker); isFall {
			if f.env != before {
				ok = false
			}
			return "false"
		}
		r := render(t.Leaf)
		if ret == "" {
			ret = r
		} else if ret != r {
			ok = false
		}
		return "true"
	}
	g := toBool(t)
	if !ok || ret == "" {
		return nil
	}
	var leaf Val
	found := false
	var find func(t *Tree)
	find = func(t *Tree) {
		if found {
			return
		}
		if t.Then != nil {
			find(t.Then)
			find(t.Else)
			return
		}
		if _, isFall := t.Leaf.(fallMarker); !isFall {
			leaf, found = t.Leaf, true
		}
	}
	find(t)
	return &Tree{Cond: g, Then: &Tree{Leaf: leaf}, Else: exec(rest, env)}
}

// exec, but falling off the end yields a marker instead of an error
func execFall(stmts []ast.Stmt, env Env) *Tree {
	return exec(append(append([]ast.Stmt{}, stmts...), &fallStmt{}), env)
}

// ---- Gallina ------------------------------------------------------------

func render(v Val) string {
	switch x := v.(type) {
	case Num:
		if x.D != "1" {
			fail("a fraction escapes into a result")
		}
		return x.N
	case Bool:
		return x.E
	case Pt:
		return "(" + render(x.X) + ", " + render(x.Y) + ")"
	case Rc:
		return "(" + render(x.Min) + ", " + render(x.Max) + ")"
	case Sg:
		return "(" + render(x.A) + ", " + render(x.B) + ")"
	case Op:
		return x.E
	}
	fail("result of type %T", v)
	return ""
}

func renderTree(t *Tree, ind string) string {
	if t.Then == nil {
		return render(t.Leaf)
	}
	return "if " + t.Cond + "\n" + ind + "then " + renderTree(t.Then, ind+"  ") + "\n" + ind + "else " + renderTree(t.Else, ind+"  ")
}

func symbolic(t, name string) (Val, string) {
	v := func(s string) Num { return one(paren(s)) }
	switch t {
	case "float64":
		return one(name), "Z"
	case "Point":
		return Pt{v("px " + name), v("py " + name)}, "pt"
	case "Rect":
		return Rc{Pt{v("px (fst " + name + ")"), v("py (fst " + name + ")")}, Pt{v("px (snd " + name + ")"), v("py (snd " + name + ")")}}, "rect"
	case "Segment":
		return Sg{Pt{v("px (fst " + name + ")"), v("py (fst " + name + ")")}, Pt{v("px (snd " + name + ")"), v("py (snd " + name + ")")}}, "seg"
	case "Line":
		return Op{"Line", name}, "rng"
	case "Poly":
		return Op{"Poly", name}, "poly"
	}
	fail("parameter type %s", t)
	return nil, ""
}

// the listed functions and the model expression each must equal ($0 = receiver or first parameter)
var targets = []struct{ key, model string }{
	{"Rect.ContainsPoint", "rect_contains_point $0 $1"},
	{"Rect.IntersectsPoint", "rect_contains_point $0 $1"},
	{"Rect.ContainsRect", "rect_contains_rect $0 $1"},
	{"Rect.IntersectsRect", "rect_intersects_rect $0 $1"},
	{"Rect.Area", "rect_area $0"},
	{"Segment.Rect", "seg_rect $0"},
	{"Segment.CollinearPoint", "collinear_point $0 $1"},
	{"Segment.ContainsPoint", "seg_contains_point $0 $1"},
	{"Segment.ContainsSegment", "seg_contains_segment $0 $1"},
	{"Segment.IntersectsSegment", "intersects_segment $0 $1"},
	{"Point.ContainsPoint", "pt_eqb $0 $1"},
	{"Point.IntersectsPoint", "pt_eqb $0 $1"},
	{"Point.IntersectsRect", "point_intersects_rect $0 $1"},
	{"Point.ContainsRect", "point_contains_rect $0 $1"},
	{"unionRects", "union_rects $0 $1"},
	// the delegating layer between the four geometry kinds
	{"Rect.ContainsLine", "rect_contains_line $0 $1"},
	{"Rect.IntersectsLine", "rect_intersects_line $0 $1"},
	{"Rect.ContainsPoly", "rect_contains_poly $0 $1"},
	{"Rect.IntersectsPoly", "rect_intersects_poly $0 $1"},
	{"Point.ContainsLine", "point_contains_line $0 $1"},
	{"Point.IntersectsLine", "point_intersects_line $0 $1"},
	{"Point.ContainsPoly", "point_contains_poly $0 $1"},
	{"Point.IntersectsPoly", "point_intersects_poly $0 $1"},
	{"Line.IntersectsPoint", "line_contains_point_r $0 $1"},
	{"Line.IntersectsRect", "line_intersects_rect $0 $1"},
	{"Line.IntersectsPoly", "line_intersects_poly $0 $1"},
	{"Poly.IntersectsPoint", "poly_contains_point $0 $1"},
	{"Poly.ContainsRect", "poly_contains_rect $0 $1"},
	{"Poly.IntersectsRect", "poly_intersects_rect $0 $1"},
}

func translate(key, model string) (def, lemma string) {
	fd, ok := funcs[key]
	if !ok {
		fail("function not found in the source")
	}
	env := Env{}
	var names, binders []string
	add := func(n, t string) {
		v, ct := symbolic(t, n)
		env[n] = v
		names = append(names, n)
		binders = append(binders, "("+n+" : "+ct+")")
	}
	if fd.Recv != nil {
		n := "recv"
		if len(fd.Recv.List[0].Names) > 0 {
			n = fd.Recv.List[0].Names[0].Name
		}
		add("v_"+n, typeName(fd.Recv.List[0].Type))
		env[n] = env["v_"+n]
	}
	for _, f := range fd.Type.Params.List {
		for _, n := range f.Names {
			add("v_"+n.Name, typeName(f.Type))
			env[n.Name] = env["v_"+n.Name]
		}
	}
	bindResults(fd, env)
	defer func() { resultNames = resultNames[:len(resultNames)-1] }()
	t := exec(fd.Body.List, env)
	cname := "T_" + strings.ReplaceAll(key, ".", "_")
	def = "Definition " + cname + " " + strings.Join(binders, " ") + " :=\n  " + renderTree(t, "  ") + "."
	m := model
	for i := len(names) - 1; i >= 0; i-- {
		m = strings.ReplaceAll(m, fmt.Sprintf("$%d", i), names[i])
	}
	lemma = "Lemma tie_" + cname[2:] + " : forall " + strings.Join(binders, " ") + ",\n  " + cname + " " + strings.Join(names, " ") + " = " + m + ".\nProof. tie_tac " + cname + ". Qed."
	return
}

func main() {
	if len(os.Args) < 3 {
		fmt.Println("usage: gotrans <repo> <out.v> [function ...]")
		os.Exit(2)
	}
	if len(os.Args) > 3 {
		want := map[string]bool{}
		for _, k := range os.Args[3:] {
			want[k] = true
		}
		var sel []struct{ key, model string }
		for _, tg := range targets {
			if want[tg.key] {
				sel = append(sel, tg)
				delete(want, tg.key)
			}
		}
		for k := range want {
			fmt.Printf("UNSUPPORTED %s: not a listed function\n", k)
			os.Exit(2)
		}
		targets = sel
	}
	load(os.Args[1], []string{"geometry/point.go", "geometry/rect.go", "geometry/segment.go", "geometry/line.go", "geometry/poly.go", "object.go"})
	var out []string
	out = append(out, "(* generated by tools/gotrans from the Go source of the working tree; do not edit *)",
		"From Coq Require Import ZArith Bool Lia.", "From GJ Require Import Base Kernel Ring Obj TieTac.", "Open Scope Z_scope.", "")
	bad := 0
	for _, tg := range targets {
		func() {
			defer func() {
				if r := recover(); r != nil {
					if u, ok := r.(unsupported); ok {
						fmt.Printf("UNSUPPORTED %s: %s\n", tg.key, u.why)
					} else {
						fmt.Printf("UNSUPPORTED %s: %v\n", tg.key, r)
					}
					bad++
				}
			}()
			d, l := translate(tg.key, tg.model)
			out = append(out, d, l, "")
			fmt.Printf("TRANSLATED %s\n", tg.key)
		}()
	}
	if err := os.WriteFile(os.Args[2], []byte(strings.Join(out, "\n")+"\n"), 0o644); err != nil {
		fmt.Println(err)
		os.Exit(2)
	}
	if bad > 0 {
		os.Exit(1)
	}
}
