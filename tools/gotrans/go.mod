module verif/gotrans

go 1.22
