#!/bin/bash
# run_harmless.sh [name...] — apply each confirmed behaviour-preserving change (harmless/<name>) to /repo, run the
# quick checks of its property, of the properties listed in its also_check and of C16 (effect table), undo the change.
# Prints one line per change: QUIET (all checks exit 0) or ALARM <check>: <violation line>.
cd /verif
EVB=$(mktemp -d /tmp/evidence-bak-XXXXXX); cp evidence/*.json $EVB/ 2>/dev/null
trap 'cp $EVB/*.json /verif/evidence/ 2>/dev/null; rm -rf $EVB' EXIT
names=${@:-$(ls harmless)}
for n in $names; do
  d=harmless/$n
  pid=$(python3 -c "import json;print(json.load(open('$d/meta.json')).get('property','${n:0:3}'))" 2>/dev/null || echo ${n:0:3})
  extra=$(python3 -c "import json;print(' '.join(json.load(open('$d/meta.json')).get('also_check',[])))" 2>/dev/null)
  git -C /repo apply /verif/$d/patch.diff || { echo "$n: patch does not apply"; continue; }
  verdict=QUIET
  for p in $pid $extra C16; do
    out=$(timeout 1800 ./check $p quick 2>&1); rc=$?
    if [ $rc -ne 0 ]; then verdict="ALARM $p: $(echo "$out" | grep '^VIOLATION' | head -1 | cut -c1-160)"; break; fi
  done
  git -C /repo checkout -- .
  echo "$n: $verdict"
done
