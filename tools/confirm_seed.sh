#!/bin/bash
# confirm_seed.sh <src-dir with patch.diff demo_test.go meta.json> <dest seeded/<name>>
# DEMO_FLAGS (env, optional): extra go test flags for the demo runs, e.g. -race.
# Confirms in a scratch worktree of /repo HEAD: patch applies; full suite passes with it;
# demo fails with it and passes without it. Keeps the seed only when all hold.
set -u
SRC=$1; DEST=$2
export GOFLAGS=-mod=mod GOPROXY=off GOSUMDB=off GOTOOLCHAIN=local
WT=$(mktemp -d /tmp/seedwt-XXXXXX)
git -C /repo worktree add --detach "$WT" HEAD >/dev/null 2>&1 || { echo "worktree failed"; exit 2; }
cleanup() { git -C /repo worktree remove --force "$WT" >/dev/null 2>&1; rm -rf "$WT"; }
trap cleanup EXIT
cd "$WT"
place=$(head -1 "$SRC/demo_test.go" | sed -n 's/.*place in: *\([^ ]*\).*/\1/p'); place=${place:-.}
[ "$place" = "/" ] && place=.
demo="$WT/$place/zz_seed_demo_test.go"
res="patch_applies=no"
if git apply --check "$SRC/patch.diff" 2>/dev/null; then
  res="patch_applies=yes"
  cp "$SRC/demo_test.go" "$demo"
  if go test ${DEMO_FLAGS:-} -count=1 -timeout 300s ./$place/ >/tmp/seed_pre.$$ 2>&1; then pre=pass; else pre=fail; fi
  rm -f "$demo"
  git apply "$SRC/patch.diff"
  if go build ./... >/dev/null 2>&1 && go test -count=1 -timeout 600s ./... >/tmp/seed_suite.$$ 2>&1; then suite=pass; else suite=fail; fi
  cp "$SRC/demo_test.go" "$demo"
  if timeout 600 go test ${DEMO_FLAGS:-} -count=1 -timeout 300s ./$place/ >/tmp/seed_post.$$ 2>&1; then post=pass; else post=fail; fi
  res="$res demo_without_patch=$pre suite_with_patch=$suite demo_with_patch=$post"
  rm -f /tmp/seed_pre.$$ /tmp/seed_suite.$$ /tmp/seed_post.$$
fi
echo "$(basename $DEST): $res"
if [ "$res" = "patch_applies=yes demo_without_patch=pass suite_with_patch=pass demo_with_patch=fail" ]; then
  mkdir -p "$DEST"
  cp "$SRC/patch.diff" "$SRC/demo_test.go" "$DEST/"
  python3 - "$SRC/meta.json" "$DEST/meta.json" "$res" <<'PY'
import json,sys
try: m=json.load(open(sys.argv[1]))
except Exception: m={}
m["confirmed_by_builder"]={"against":"scratch worktree of /repo HEAD","result":sys.argv[3],
  "ran":["git apply patch.diff","go test -count=1 ./... (suite, with patch) -> pass","demo without patch -> pass","demo with patch -> fail"]}
json.dump(m,open(sys.argv[2],"w"),indent=1)
PY
fi
