#!/bin/bash
# dbg.sh <stream> [tier] — build harness from /repo, run a stream, run the driver, print mismatch lines
export GOFLAGS=-mod=mod GOPROXY=off GOSUMDB=off GOTOOLCHAIN=local
D=/tmp/dbg-$$; rm -rf $D; mkdir -p $D; cp -r /verif/harness $D/h; cp /repo/go.sum $D/h/
(cd $D/h && go build -tags verif -o $D/h.bin .) || exit 1
timeout 600 $D/h.bin -stream $1 -tier ${2:-quick} -seed ${SEED:-1} -out $D/cases.txt -stats $D/st.json || echo "harness exit $?"
/verif/.build/ml/gjdriver < $D/cases.txt > $D/drv.txt
tail -1 $D/drv.txt
cp $D/drv.txt /tmp/dbg-last.txt; cp $D/st.json /tmp/dbg-stats.json
rm -rf $D
