#!/bin/bash
# coqchk.sh — re-check the compiled integer development (everything except the Sphere* files, which sit
# on Reals / Coquelicot / Interval and do not finish under coqchk within hours) with Coq's independent
# checker and print the context summary (axioms, type-in-type, unsafe fixpoints, assumed positivity).
# Works on a copy of the .vo files so that a concurrent check cannot change them underneath.  ~2.5 min.
set -u
cd /verif && ./setup.sh >/dev/null 2>&1 || { echo "framework build failed"; exit 2; }
T=$(mktemp -d /tmp/coqchk-XXXXXX); trap 'rm -rf $T' EXIT
cp /verif/coq/*.vo $T/
rm -f $T/Extract.vo
mods=$(cd $T && ls *.vo | sed 's/\.vo$//' | grep -v '^Sphere' | sed 's/^/GJ./' | tr '\n' ' ')
timeout 3600 coqchk -silent -o -Q $T GJ $mods
