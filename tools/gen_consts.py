#!/usr/bin/env python3
"""gen_consts.py <repo> <out.v> — translator for the numeric constants the Coq model copies from the Go source:
reads them out of /repo's working tree and writes a Coq file whose goals state that the model's definitions have
exactly those values (closed by reflexivity, kernel-checked).  A constant that can no longer be found, or whose goal
does not close, breaks the tie between model and code.  Prints one line per constant."""
import re, sys, os
repo, out = sys.argv[1], sys.argv[2]
def src(p): return open(os.path.join(repo, p)).read()
found, missing = {}, []
def grab(name, path, pat, conv=int):
    m = re.search(pat, src(path), re.S)
    if not m: missing.append("%s (%s)" % (name, path)); return
    found[name] = conv(m.group(1))
def fl(x): return int(float(x))
grab("qMaxItems", "geometry/qtree.go", r"const\s+qMaxItems\s*=\s*(\d+)")
grab("qMaxDepth", "geometry/qtree.go", r"const\s+qMaxDepth\s*=\s*(\d+)")
grab("rMaxEntries", "geometry/rtree.go", r"const\s+rMaxEntries\s*=\s*(\d+)")
grab("complexRingMinPoints", "geometry/ring.go", r"const\s+complexRingMinPoints\s*=\s*(\d+)")
grab("earthRadius", "geo/geo.go", r"earthRadius\s*=\s*([0-9.eE+]+)", fl)
grab("defaultIndexMinPoints", "geometry/series.go", r"DefaultIndexOptions\s*=\s*&IndexOptions\{.*?MinPoints:\s*(\d+)")
grab("defaultIndexKindQuadTree", "geometry/series.go", r"DefaultIndexOptions\s*=\s*&IndexOptions\{.*?Kind:\s*(QuadTree)", lambda s: 2)
grab("defaultIndexChildren", "object.go", r"DefaultParseOptions\s*=\s*&ParseOptions\{.*?IndexChildren:\s*(\d+)")
grab("defaultIndexGeometry", "object.go", r"DefaultParseOptions\s*=\s*&ParseOptions\{.*?IndexGeometry:\s*(\d+)")
# the order None, RTree, QuadTree of the IndexKind enumeration (model: 0, 1, 2)
m = re.search(r"const\s*\(\s*None\s+IndexKind\s*=\s*iota\s*RTree\s*QuadTree\s*\)", src("geometry/series.go"))
if m: found["indexKindOrder"] = 1
else: missing.append("IndexKind enumeration order (geometry/series.go)")
for k, v in sorted(found.items()): print("CONST %s = %s" % (k, v))
for k in missing: print("MISSING %s" % k)
with open(out, "w") as f:
    f.write("From Coq Require Import Reals ZArith.\nFrom GJ Require Import Index Ring Sphere Harness.\n")
    g = found.get
    f.write("Goal (qMaxItems, qMaxDepth, rMaxEntries, complexRingMinPoints, default_index_min_points) = (%s, %s, %s, %s, %s)%%nat.\nProof. reflexivity. Qed.\n"
            % (g("qMaxItems", 0), g("qMaxDepth", 0), g("rMaxEntries", 0), g("complexRingMinPoints", 0), g("defaultIndexMinPoints", 0)))
    f.write("Goal Rearth = %s%%R.\nProof. reflexivity. Qed.\n" % g("earthRadius", 0))
    f.write("Goal (default_index_kind = %s)%%Z.\nProof. reflexivity. Qed.\n" % g("defaultIndexKindQuadTree", 0))
sys.exit(1 if missing else 0)
