#!/usr/bin/env python3
"""Classify SPEC mismatch lines of tag 50 (pairs): prints class histogram."""
import sys, collections
def parse_shape(a, i):
    k = a[i]
    if k == 0: return ('point', a[i+1:i+3]), i+3
    if k == 1: return ('rect', a[i+1:i+5]), i+5
    if k == 2:
        n = a[i+1]; return ('line', a[i+2:i+2+2*n]), i+2+2*n
    nr = a[i+1]; j = i+2; rings=[]
    for _ in range(nr):
        n = a[j]; rings.append(a[j+1:j+1+2*n]); j += 1+2*n
    return ('poly', rings), j
def classify(line):
    # SPEC <n> <tag> args | impl || spec=...
    body, spec = line.split('||')
    lhs, impl = body.split('|')
    t = lhs.split()
    tag = int(t[2]); args = list(map(int, t[3:]))
    impl = list(map(int, impl.split())); spec = list(map(int, spec.replace('spec=','').split()))
    if tag != 50: return 'tag%d' % tag
    A, i = parse_shape(args, 2); B, _ = parse_shape(args, i)
    out = []
    names = ['intersects(A,B)', 'intersects(B,A)', 'contains(A,B)', 'contains(B,A)']
    for k in range(4):
        if k < len(impl) and k < len(spec) and spec[k] != -9 and impl[k] != spec[k]:
            recv, arg = (A, B) if k in (0, 2) else (B, A)
            holes = 'holes' if recv[0] == 'poly' and len(recv[1]) > 1 else 'noholes'
            aholes = 'argholes' if arg[0] == 'poly' and len(arg[1]) > 1 else ''
            out.append('%s:%s>%s:%s%s:impl=%d' % (names[k].split('(')[0], recv[0], arg[0], holes, aholes, impl[k]))
    return ';'.join(out) or 'none'
if __name__ == '__main__':
    c = collections.Counter(); ex = {}
    for l in sys.stdin:
        if l.startswith('SPEC '):
            k = classify(l); c[k] += 1
            if k not in ex or len(l) < len(ex[k]): ex[k] = l.strip()
    for k, v in c.most_common(): print(v, k); print('   ', ex[k][:400])
