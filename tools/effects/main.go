// Command effects is the C16 translator: it loads /repo (and the dependencies it
// calls), builds SSA, takes every function reachable from the query and
// serialisation API of the three packages, and classifies every store-like
// instruction by the provenance of the memory it writes:
//
//	local         memory allocated by the same call (Alloc, new, make, composite literal,
//	              append result of such), directly or through a pointer parameter / captured
//	              variable that is local at every call site
//	caller_owned  the destination buffer of the AppendJSON family
//	shared        memory reachable from a receiver / argument object, or loaded from it
//	global        a package-level variable
//	unknown       anything the analysis cannot prove local (treated as shared)
//
// It prints a Coq file (the effect table) on stdout.  Conservative by design:
// what is not proved local is reported as shared/unknown.
package main

import (
	"fmt"
	"go/token"
	"go/types"
	"os"
	"sort"
	"strings"

	"golang.org/x/tools/go/callgraph"
	"golang.org/x/tools/go/callgraph/cha"
	"golang.org/x/tools/go/packages"
	"golang.org/x/tools/go/ssa"
	"golang.org/x/tools/go/ssa/ssautil"
)

type prov int

const (
	pLocal prov = iota
	pCallerOwned
	pParam // resolved through call sites
	pGlobal
	pShared
	pUnknown
)

func (p prov) String() string {
	return [...]string{"local", "caller_owned", "param", "global", "shared", "unknown"}[p]
}

func join(a, b prov) prov {
	if a > b {
		return a
	}
	return b
}

type pv struct {
	p      prov
	params map[int]bool // parameter / free-variable indices it may derive from (free vars are 1000+i)
}

func (a pv) join(b pv) pv {
	r := pv{p: join(a.p, b.p), params: map[int]bool{}}
	for k := range a.params {
		r.params[k] = true
	}
	for k := range b.params {
		r.params[k] = true
	}
	return r
}

func local() pv          { return pv{p: pLocal, params: map[int]bool{}} }
func param(i int) pv     { return pv{p: pParam, params: map[int]bool{i: true}} }
func konst(p prov) pv    { return pv{p: p, params: map[int]bool{}} }

type analysis struct {
	prog    *ssa.Program
	cg      *callgraph.Graph
	reach   map[*ssa.Function]bool
	entry   map[*ssa.Function]bool
	content map[string]pv // what has been stored into a local allocation, by (allocation, field path)
	allocID map[ssa.Value]int
	retMemo map[*ssa.Function]pv
	retBusy map[*ssa.Function]bool
	memo    map[ssa.Value]pv
	busy    map[ssa.Value]bool
	// resolved provenance of each function's parameters / free variables
	paramProv map[*ssa.Function]map[int]prov
}

func pointerLike(t types.Type) bool {
	switch u := t.Underlying().(type) {
	case *types.Pointer, *types.Slice, *types.Map, *types.Chan, *types.Interface, *types.Signature:
		return true
	case *types.Struct:
		for i := 0; i < u.NumFields(); i++ {
			if pointerLike(u.Field(i).Type()) {
				return true
			}
		}
	case *types.Array:
		return pointerLike(u.Elem())
	case *types.Basic:
		return u.Kind() == types.UnsafePointer || u.Kind() == types.String && false
	}
	return false
}

// provenance of the memory a pointer-like value refers to
func (a *analysis) of(v ssa.Value) pv {
	if r, ok := a.memo[v]; ok {
		return r
	}
	if a.busy[v] {
		return local() // cycle through phi: contributes nothing new
	}
	a.busy[v] = true
	r := a.compute(v)
	delete(a.busy, v)
	a.memo[v] = r
	return r
}

func (a *analysis) compute(v ssa.Value) pv {
	switch x := v.(type) {
	case *ssa.Alloc, *ssa.MakeSlice, *ssa.MakeMap, *ssa.MakeChan, *ssa.MakeInterface, *ssa.MakeClosure:
		if mi, ok := v.(*ssa.MakeInterface); ok {
			return a.of(mi.X)
		}
		return local()
	case *ssa.Const:
		return local()
	case *ssa.Global:
		return konst(pGlobal)
	case *ssa.Function:
		return local()
	case *ssa.Parameter:
		for i, p := range x.Parent().Params {
			if p == x {
				return param(i)
			}
		}
		return konst(pUnknown)
	case *ssa.FreeVar:
		for i, p := range x.Parent().FreeVars {
			if p == x {
				return param(1000 + i)
			}
		}
		return konst(pUnknown)
	case *ssa.FieldAddr:
		return a.of(x.X)
	case *ssa.IndexAddr:
		return a.of(x.X)
	case *ssa.Field:
		return a.of(x.X)
	case *ssa.Index:
		return a.of(x.X)
	case *ssa.Slice:
		return a.of(x.X)
	case *ssa.ChangeType:
		return a.of(x.X)
	case *ssa.Convert:
		if pointerLike(x.Type()) && pointerLike(x.X.Type()) {
			return a.of(x.X)
		}
		return local() // e.g. string <-> []byte conversions copy
	case *ssa.ChangeInterface:
		return a.of(x.X)
	case *ssa.SliceToArrayPointer:
		return a.of(x.X)
	case *ssa.TypeAssert:
		return a.of(x.X)
	case *ssa.Extract:
		return a.of(x.Tuple)
	case *ssa.Phi:
		r := local()
		for _, e := range x.Edges {
			r = r.join(a.of(e))
		}
		return r
	case *ssa.UnOp:
		if x.Op == token.MUL { // load: what the loaded pointer refers to
			if !pointerLike(x.Type()) {
				return local()
			}
			// the value most recently stored to this very address earlier in the same block, if any
			if blk := x.Block(); blk != nil {
				var last *ssa.Store
				for _, in := range blk.Instrs {
					if in == ssa.Instruction(x) {
						break
					}
					if st, ok := in.(*ssa.Store); ok && (st.Addr == x.X ||
						(a.rootOf(x.X) != nil && a.rootOf(st.Addr) == a.rootOf(x.X) && fieldPath(st.Addr) == fieldPath(x.X) && !strings.Contains(fieldPath(x.X), "[]"))) {
						last = st
					}
					if _, isCall := in.(*ssa.Call); isCall && last != nil {
						// a call in between may have written through an escaped pointer: keep the store only
						// when the address is a non-escaping local (Alloc not marked Heap); an object freshly
						// returned by a callee counts as escaping here
						if al, ok := a.rootOf(x.X).(*ssa.Alloc); !ok || al.Heap {
							last = nil
						}
					}
				}
				if last != nil {
					return a.of(last.Val)
				}
			}
			src := a.of(x.X)
			if src.p == pLocal && len(src.params) == 0 {
				// loaded out of a local allocation: whatever was stored there
				if al := rootAlloc(x.X); al != nil {
					return a.contentOf(al, fieldPath(x.X))
				}
				return konst(pUnknown)
			}
			return src // loaded from shared / parameter memory: reachable from it
		}
		return local()
	case *ssa.BinOp:
		return local()
	case *ssa.Lookup:
		return a.of(x.X)
	case *ssa.Next, *ssa.Range:
		return konst(pUnknown)
	case *ssa.Call:
		return a.callResult(x)
	}
	return konst(pUnknown)
}

func fieldPath(v ssa.Value) string {
	path := ""
	for {
		switch x := v.(type) {
		case *ssa.FieldAddr:
			path = fmt.Sprintf(".%d", x.Field) + path
			v = x.X
		case *ssa.IndexAddr:
			path = ".[]" + path
			v = x.X
		case *ssa.Slice:
			v = x.X
		default:
			return path
		}
	}
}

func (a *analysis) key(al ssa.Value, path string) string {
	id, ok := a.allocID[al]
	if !ok {
		id = len(a.allocID) + 1
		a.allocID[al] = id
	}
	return fmt.Sprintf("%d%s", id, path)
}

// everything stored at this path, at a prefix of it (whole-struct stores) or below it
func (a *analysis) contentOf(al ssa.Value, path string) pv {
	r := local()
	id, ok := a.allocID[al]
	if !ok {
		return r
	}
	base := fmt.Sprintf("%d", id)
	for k, c := range a.content {
		if !strings.HasPrefix(k, base) || (len(k) > len(base) && k[len(base)] != '.') {
			continue
		}
		kp := k[len(base):]
		if strings.HasPrefix(path, kp) || strings.HasPrefix(kp, path) {
			r = r.join(c)
		}
	}
	return r
}

// rootOf is rootAlloc extended to objects freshly allocated by a callee: a call whose return summary is
// purely local memory (e.g. a constructor returning new(T)) is a root for the same-block store/load matching
func (a *analysis) rootOf(v ssa.Value) ssa.Value {
	for {
		switch x := v.(type) {
		case *ssa.Alloc, *ssa.MakeSlice, *ssa.MakeMap:
			return v
		case *ssa.Call:
			if r := a.of(x); r.p == pLocal && len(r.params) == 0 {
				return v
			}
			return nil
		case *ssa.FieldAddr:
			v = x.X
		case *ssa.IndexAddr:
			v = x.X
		case *ssa.Slice:
			v = x.X
		default:
			return nil
		}
	}
}

func rootAlloc(v ssa.Value) ssa.Value {
	for {
		switch x := v.(type) {
		case *ssa.Alloc, *ssa.MakeSlice, *ssa.MakeMap:
			return v
		case *ssa.FieldAddr:
			v = x.X
		case *ssa.IndexAddr:
			v = x.X
		case *ssa.Slice:
			v = x.X
		default:
			return nil
		}
	}
}

func (a *analysis) callResult(c *ssa.Call) pv {
	if !pointerLike(c.Type()) {
		if t, ok := c.Type().(*types.Tuple); !ok || !tuplePointerLike(t) {
			return local()
		}
	}
	if b, ok := c.Call.Value.(*ssa.Builtin); ok {
		switch b.Name() {
		case "append":
			// the result may alias the first argument's backing array
			r := a.of(c.Call.Args[0])
			return r
		case "new", "make":
			return local()
		}
		return local()
	}
	// callees known and analysed: substitute the actual arguments into each callee's return summary
	var callees []*ssa.Function
	known := true
	if f := c.Parent(); f != nil && a.cg != nil {
		if n := a.cg.Nodes[f]; n != nil {
			for _, e := range n.Out {
				if e.Site == ssa.CallInstruction(c) {
					if a.reach[e.Callee.Func] && e.Callee.Func.Blocks != nil {
						callees = append(callees, e.Callee.Func)
					} else {
						known = false
					}
				}
			}
		}
	}
	if known && len(callees) > 0 {
		r := local()
		for _, cf := range callees {
			sum := a.retSummary(cf)
			base := sum.p
			if base == pParam {
				base = pLocal
			}
			r = r.join(konst(base))
			for i := range sum.params {
				switch {
				case i >= 1000: // captured variables of a closure value
					if mc, ok := c.Call.Value.(*ssa.MakeClosure); ok && i-1000 < len(mc.Bindings) {
						r = r.join(a.of(mc.Bindings[i-1000]))
					} else {
						r = r.join(a.of(c.Call.Value))
					}
				case c.Call.IsInvoke():
					if i == 0 {
						r = r.join(a.of(c.Call.Value))
					} else if i-1 < len(c.Call.Args) {
						r = r.join(a.of(c.Call.Args[i-1]))
					}
				default:
					if i < len(c.Call.Args) {
						r = r.join(a.of(c.Call.Args[i]))
					}
				}
			}
		}
		return r
	}
	// otherwise (standard library, unknown callee): it may return what it was given
	r := local()
	if c.Call.IsInvoke() {
		r = r.join(a.of(c.Call.Value))
	} else if _, isFn := c.Call.Value.(*ssa.Function); !isFn {
		r = r.join(a.of(c.Call.Value))
	}
	for _, arg := range c.Call.Args {
		if pointerLike(arg.Type()) {
			r = r.join(a.of(arg))
		}
	}
	return r
}

// what a function's pointer-like results may refer to, in terms of its own parameters
func (a *analysis) retSummary(f *ssa.Function) pv {
	if r, ok := a.retMemo[f]; ok {
		return r
	}
	if a.retBusy[f] {
		return local()
	}
	a.retBusy[f] = true
	r := local()
	for _, b := range f.Blocks {
		for _, in := range b.Instrs {
			if ret, ok := in.(*ssa.Return); ok {
				for _, v := range ret.Results {
					if pointerLike(v.Type()) {
						r = r.join(a.of(v))
					}
				}
			}
		}
	}
	delete(a.retBusy, f)
	a.retMemo[f] = r
	return r
}

func tuplePointerLike(t *types.Tuple) bool {
	for i := 0; i < t.Len(); i++ {
		if pointerLike(t.At(i).Type()) {
			return true
		}
	}
	return false
}

type effect struct {
	fn, pos, kind string
	target        pv
	final         prov
	f             *ssa.Function
}

func main() {
	dir := "/repo"
	if len(os.Args) > 1 {
		dir = os.Args[1]
	}
	cfg := &packages.Config{Mode: packages.LoadAllSyntax, Dir: dir, Env: append(os.Environ(), "GOFLAGS=-mod=mod", "GOPROXY=off")}
	pkgs, err := packages.Load(cfg, "./...")
	if err != nil || packages.PrintErrors(pkgs) > 0 {
		fmt.Fprintln(os.Stderr, "load failed", err)
		os.Exit(2)
	}
	prog, spkgs := ssautil.AllPackages(pkgs, ssa.InstantiateGenerics)
	prog.Build()
	a := &analysis{prog: prog, reach: map[*ssa.Function]bool{}, entry: map[*ssa.Function]bool{},
		content: map[string]pv{}, allocID: map[ssa.Value]int{}, retMemo: map[*ssa.Function]pv{}, retBusy: map[*ssa.Function]bool{},
		memo: map[ssa.Value]pv{}, busy: map[ssa.Value]bool{}, paramProv: map[*ssa.Function]map[int]prov{}}
	a.cg = cha.CallGraph(prog)

	// entry points: exported functions and methods of the three packages, except constructors and parsers
	isOurs := func(p *ssa.Package) bool {
		return p != nil && strings.HasPrefix(p.Pkg.Path(), "github.com/tidwall/geojson")
	}
	excluded := func(name string) bool {
		return strings.HasPrefix(name, "New") || strings.HasPrefix(name, "Parse") || strings.HasPrefix(name, "parse") ||
			strings.HasPrefix(name, "Verif") || strings.HasPrefix(name, "verif")
	}
	var entries []*ssa.Function
	var ifaces []*types.Interface
	for _, sp := range spkgs {
		if !isOurs(sp) {
			continue
		}
		for _, m := range sp.Members {
			if t, ok := m.(*ssa.Type); ok && t.Object().Exported() {
				if it, ok := t.Type().Underlying().(*types.Interface); ok {
					ifaces = append(ifaces, it)
				}
			}
		}
	}
	for _, sp := range spkgs {
		if !isOurs(sp) {
			continue
		}
		for _, m := range sp.Members {
			switch x := m.(type) {
			case *ssa.Function:
				if x.Object() != nil && x.Object().Exported() && !excluded(x.Name()) {
					entries = append(entries, x)
				}
			case *ssa.Type:
				for _, t := range []types.Type{x.Type(), types.NewPointer(x.Type())} {
					ms := prog.MethodSets.MethodSet(t)
					for i := 0; i < ms.Len(); i++ {
						name := ms.At(i).Obj().Name()
						if !ms.At(i).Obj().Exported() || excluded(name) {
							continue
						}
						// methods of an unexported type are reachable from outside only through an exported interface
						if !x.Object().Exported() {
							via := false
							for _, it := range ifaces {
								if types.Implements(t, it) {
									for k := 0; k < it.NumMethods(); k++ {
										if it.Method(k).Name() == name {
											via = true
										}
									}
								}
							}
							if !via {
								continue
							}
						}
						if f := prog.MethodValue(ms.At(i)); f != nil {
							entries = append(entries, f)
						}
					}
				}
			}
		}
	}
	var walk func(f *ssa.Function)
	walk = func(f *ssa.Function) {
		if f == nil || a.reach[f] || f.Blocks == nil {
			return
		}
		if f.Pkg != nil && !isOurs(f.Pkg) {
			p := f.Pkg.Pkg.Path()
			if !strings.HasPrefix(p, "github.com/tidwall/") {
				return // the Go standard library is outside the model
			}
		}
		a.reach[f] = true
		if n := a.cg.Nodes[f]; n != nil {
			for _, e := range n.Out {
				walk(e.Callee.Func)
			}
		}
		for _, anon := range f.AnonFuncs {
			walk(anon)
		}
	}
	for _, e := range entries {
		a.entry[e] = true
		walk(e)
	}

	// pass 1: what is stored into local allocations (flow-insensitive), iterated to a fixpoint
	for iter := 0; iter < 4; iter++ {
		a.memo = map[ssa.Value]pv{}
		a.retMemo = map[*ssa.Function]pv{}
		for f := range a.reach {
			for _, b := range f.Blocks {
				for _, in := range b.Instrs {
					if st, ok := in.(*ssa.Store); ok && pointerLike(st.Val.Type()) {
						if al := rootAlloc(st.Addr); al != nil {
							c := a.of(st.Val)
							k := a.key(al, fieldPath(st.Addr))
							if old, ok := a.content[k]; ok {
								c = c.join(old)
							}
							a.content[k] = c
						}
					}
				}
			}
		}
	}
	a.memo = map[ssa.Value]pv{}
	a.retMemo = map[*ssa.Function]pv{}

	// pass 2: collect effects
	var effs []*effect
	add := func(f *ssa.Function, in ssa.Instruction, kind string, target pv) {
		effs = append(effs, &effect{fn: f.String(), pos: prog.Fset.Position(in.Pos()).String(), kind: kind, target: target, f: f})
	}
	for f := range a.reach {
		for _, b := range f.Blocks {
			for _, in := range b.Instrs {
				switch x := in.(type) {
				case *ssa.Store:
					add(f, in, "store", a.of(x.Addr))
				case *ssa.MapUpdate:
					add(f, in, "mapupdate", a.of(x.Map))
				case *ssa.Send:
					add(f, in, "send", konst(pShared))
				case *ssa.Go:
					add(f, in, "go", konst(pShared))
				case *ssa.Call:
					if bi, ok := x.Call.Value.(*ssa.Builtin); ok {
						switch bi.Name() {
						case "append", "copy":
							add(f, in, bi.Name(), a.of(x.Call.Args[0]))
						case "delete", "clear":
							add(f, in, bi.Name(), a.of(x.Call.Args[0]))
						}
					} else if cf, ok := x.Call.Value.(*ssa.Function); ok && cf.Pkg != nil {
						p := cf.Pkg.Pkg.Path()
						if p == "sync" || p == "sync/atomic" {
							add(f, in, "sync:"+cf.Name(), konst(pShared))
						}
					}
				}
			}
		}
	}

	// pass 3: resolve parameters through call sites (fixpoint)
	resolveParam := func(f *ssa.Function, i int) prov {
		if m := a.paramProv[f]; m != nil {
			if p, ok := m[i]; ok {
				return p
			}
		}
		return pLocal
	}
	setParam := func(f *ssa.Function, i int, p prov) bool {
		if a.paramProv[f] == nil {
			a.paramProv[f] = map[int]prov{}
		}
		if old, ok := a.paramProv[f][i]; !ok || p > old {
			a.paramProv[f][i] = p
			return true
		}
		return false
	}
	finalOf := func(f *ssa.Function, v pv) prov {
		r := v.p
		if r == pParam {
			r = pLocal
		}
		for i := range v.params {
			r = join(r, resolveParam(f, i))
		}
		return r
	}
	// entry points: every parameter is a shared object, except the destination buffer of AppendJSON
	for f := range a.entry {
		for i, p := range f.Params {
			if !pointerLike(p.Type()) {
				continue
			}
			cls := pShared
			if strings.HasPrefix(f.Name(), "AppendJSON") && p.Name() == "dst" {
				cls = pCallerOwned
			}
			setParam(f, i, cls)
		}
	}
	for changed := true; changed; {
		changed = false
		for f := range a.reach {
			for _, b := range f.Blocks {
				for _, in := range b.Instrs {
					// closures: free variables are bound at MakeClosure
					if mc, ok := in.(*ssa.MakeClosure); ok {
						cf := mc.Fn.(*ssa.Function)
						for i, bnd := range mc.Bindings {
							if setParam(cf, 1000+i, finalOf(f, a.of(bnd))) {
								changed = true
							}
						}
					}
					site, ok := in.(ssa.CallInstruction)
					if !ok {
						continue
					}
					cc := site.Common()
					var callees []*ssa.Function
					if n := a.cg.Nodes[f]; n != nil {
						for _, e := range n.Out {
							if e.Site == site && a.reach[e.Callee.Func] {
								callees = append(callees, e.Callee.Func)
							}
						}
					}
					for _, cf := range callees {
						args := cc.Args
						off := 0
						if cc.IsInvoke() {
							// receiver is parameter 0 of the method
							if setParam(cf, 0, finalOf(f, a.of(cc.Value))) {
								changed = true
							}
							off = 1
						}
						for i, arg := range args {
							if i+off >= len(cf.Params) || !pointerLike(arg.Type()) {
								continue
							}
							if setParam(cf, i+off, finalOf(f, a.of(arg))) {
								changed = true
							}
						}
					}
				}
			}
		}
	}
	for _, e := range effs {
		e.final = finalOf(e.f, e.target)
	}
	sort.Slice(effs, func(i, j int) bool {
		if effs[i].fn != effs[j].fn {
			return effs[i].fn < effs[j].fn
		}
		return effs[i].pos < effs[j].pos
	})
	// Coq output
	fmt.Println("(* Effects.v — GENERATED by /verif/tools/effects from the SSA of /repo's working tree: every store-like")
	fmt.Println("   instruction of every function reachable from the query / serialisation API, with the provenance class of")
	fmt.Println("   the memory it writes.  0 local | 1 caller_owned | 3 global | 4 shared | 5 unknown *)")
	fmt.Println("From Coq Require Import List ZArith String.\nImport ListNotations.\nOpen Scope string_scope.\nOpen Scope Z_scope.")
	fmt.Printf("Definition functions_analysed : Z := %d.\nDefinition entry_points : Z := %d.\n", len(a.reach), len(a.entry))
	fmt.Println("Definition effect_table : list (string * string * string * Z) := [")
	for i, e := range effs {
		sep := ";"
		if i == len(effs)-1 {
			sep = ""
		}
		pos := e.pos
		if j := strings.Index(pos, "/repo/"); j >= 0 {
			pos = pos[j+6:]
		} else if j := strings.Index(pos, "github.com/"); j >= 0 {
			pos = pos[j:]
		}
		fmt.Printf("  (%q, %q, %q, %d)%s\n", e.fn, pos, e.kind, int(e.final), sep)
	}
	fmt.Println("].")
}
