#!/usr/bin/env python3
"""mm.py [MODEL|SPEC] — classify mismatch lines of /tmp/dbg-last.txt by first differing output position"""
import sys, collections
kind = sys.argv[1] if len(sys.argv) > 1 else "MODEL"
c = collections.Counter(); ex = {}
for l in open('/tmp/dbg-last.txt'):
    if not l.startswith(kind + " "): continue
    body, other = l.split('||'); lhs, impl = body.split('|')
    impl = impl.split(); oth = other.split('=')[1].split()
    d = next((i for i, (a, b) in enumerate(zip(impl, oth)) if a != b and b != '-9'), 'len')
    key = (d, impl[d] if d != 'len' else len(impl), oth[d] if d != 'len' else len(oth))
    if isinstance(d, int) and d > 6: key = ('>6', '', '')
    c[key] += 1
    if key not in ex or len(l) < len(ex[key]): ex[key] = l
def txt(toks):
    out = ''
    for t in toks:
        v = int(t)
        out += chr(v) if 32 <= v < 127 else '<%d>' % v
    return out
for k, n in c.most_common():
    l = ex[k]; body, other = l.split('||'); lhs, impl = body.split('|')
    print(k, n); print('   args:', ' '.join(lhs.split()[2:6]), txt(lhs.split()[6:])[:400]); print('   impl:', txt(impl.split())[:300]); print('   othr:', txt(other.split('=')[1].split())[:300])
