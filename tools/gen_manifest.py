#!/usr/bin/env python3
"""Regenerates MANIFEST.json from lib/manifest_table.py (claimed checks) and
properties.jsonl (everything not claimed goes to not_applicable with its reason)."""
import json, os, sys
ROOT = os.path.dirname(os.path.dirname(os.path.abspath(__file__)))
sys.path.insert(0, os.path.join(ROOT, "lib"))
from manifest_table import CLAIMS, NOT_CLAIMED, HOOK_COMMITS
ids = [json.loads(l)["id"] for l in open(os.path.join(ROOT, "properties.jsonl")) if l.strip()]
checks = []
for pid in ids:
    if pid not in CLAIMS: continue
    c = CLAIMS[pid]
    checks.append({
        "property_id": pid,
        "quick_cmd": "./check %s quick" % pid,
        "thorough_cmd": "./check %s thorough" % pid,
        "evidence_file": "/verif/evidence/%s.json" % pid,
        "replay_cmd_template": "./check %s --replay {path}" % pid,
        "engine": "coq-model+correspondence",
        "level_claimed": {"category": "proof", "text": c["text"], "design_ref": "DESIGN.md §6 " + pid},
        "level_note": c["note"],
        "technique": c.get("technique", "Coq proof of model = spec + differential correspondence model vs implementation"),
    })
na = [{"property_id": p, "reason": NOT_CLAIMED.get(p, "check not built yet (work in progress; see DESIGN.md §8 build order)")}
      for p in ids if p not in CLAIMS]
m = {
    "version": 1, "setup_cmd": "./setup.sh",
    "hooks": {"guard": "verif", "enable": "go build -tags verif",
              "baseline_off_cmd": "cd /repo && GOFLAGS=-mod=mod go test -vet=off -count=1 ./...",
              "add_only": True, "source_commits": HOOK_COMMITS},
    "checks": checks, "not_applicable": na,
    "engines": [{"name": "coq-model+correspondence", "path": "/verif/check",
                 "serves_properties": [c["property_id"] for c in checks],
                 "kind_free_text": "Coq 8.16 theorems about hand-written Gallina models; extracted-OCaml and vm_compute correspondence against the Go implementation built from /repo with -tags verif"}],
}
json.dump(m, open(os.path.join(ROOT, "MANIFEST.json"), "w"), indent=1)
print("MANIFEST.json: %d checks, %d not_applicable" % (len(checks), len(na)))
