#!/bin/bash
# run_seeds.sh [seed-name...] — apply each seeded change to /repo, run the quick check of
# its property, undo the change. Prints one line per seed: DETECTED / MISSED.
cd /verif
# the checks rewrite evidence/*.json: keep the clean-tree evidence and put it back afterwards
EVB=$(mktemp -d /tmp/evidence-bak-XXXXXX); cp evidence/*.json $EVB/ 2>/dev/null
trap 'cp $EVB/*.json /verif/evidence/ 2>/dev/null; rm -rf $EVB' EXIT
names=${@:-$(ls seeded)}
for n in $names; do
  d=seeded/$n
  pid=$(python3 -c "import json;print(json.load(open('$d/meta.json')).get('property','${n:0:3}'))" 2>/dev/null || echo ${n:0:3})
  extra=$(python3 -c "import json;print(' '.join(json.load(open('$d/meta.json')).get('also_check',[])))" 2>/dev/null)
  if grep -q '"retired"' $d/meta.json; then echo "$n: RETIRED"; continue; fi
  if ! grep -q "\"property_id\": \"$pid\"" MANIFEST.json; then echo "$n: SKIP (no check for $pid yet)"; continue; fi
  git -C /repo apply /verif/$d/patch.diff || { echo "$n: patch does not apply"; continue; }
  verdict=MISSED
  for p in $pid $extra; do
    out=$(timeout 1800 ./check $p quick 2>&1); rc=$?
    if [ $rc -ne 0 ] && echo "$out" | grep -q "^VIOLATION property=$p"; then verdict="DETECTED by $p: $(echo "$out" | grep '^VIOLATION' | head -1 | cut -c1-160)"; break; fi
  done
  git -C /repo checkout -- . 
  echo "$n: $verdict"
done
