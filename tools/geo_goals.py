#!/usr/bin/env python3
"""geo_goals.py <cases.txt> <outdir> <k> — certified tie between the real-valued model coq/Sphere.v and the
implementation's float64 outputs: for k of the generated cases, writes goals stating that the model's formulas,
evaluated at the case's exact (dyadic rational) inputs, lie within a stated tolerance of the implementation's
exact (dyadic rational) outputs; each goal is closed by the `interval` tactic (Coq kernel-checked enclosures).
Prints one line:  GOALS <written> PROVED <n> FAILED <n>  and the failing goal names."""
import sys, os, struct, subprocess, random
from fractions import Fraction

def bf(b): return struct.unpack('<d', struct.pack('<q', int(b)))[0]
def R(f):
    fr = Fraction(f)
    if fr.denominator == 1: return "(%d)" % fr.numerator
    return "(%d / %d)" % (fr.numerator, fr.denominator)
import math
def finite(*xs): return all(not (math.isnan(x) or math.isinf(x)) for x in xs)

HDR = """From Coq Require Import Reals.
From Interval Require Import Tactic.
From GJ Require Import Sphere.
Open Scope R_scope.
"""

def goals_for(line, idx):
    t = line.split('|')[0].split()
    tag, a = int(t[0]), t[1:]
    out = []
    if tag == 80:
        latA, lonA, latB, lonB, d, th, x, H, D, Hd, la, lo = [bf(v) for v in a[:12]]
        if not finite(latA, lonA, latB, lonB, d, th, H, D, Hd, la, lo): return out
        out.append(("hav_%d" % idx, "Rabs (hav %s %s %s %s - %s) <= 1 / 100000000000000" % (R(latA), R(lonA), R(latB), R(lonB), R(H)), "unfold hav, rad"))
        out.append(("d2h_%d" % idx, "Rabs (dist_to_hav %s - %s) <= 1 / 100000000000000" % (R(d), R(Hd)), "unfold dist_to_hav, Rearth"))
        # DistanceTo: the returned metres are a distance in [0, PI R] whose haversine is the haversine of the pair
        out.append(("dist_%d" % idx, "Rabs (dist_to_hav %s - hav %s %s %s %s) <= 1 / 10000000000000 /\\ 0 <= %s <= piR + 1 / 1000000" % (R(D), R(latA), R(lonA), R(latB), R(lonB), R(D)), "unfold dist_to_hav, hav, rad, piR, Rearth; split; [|split]"))
        # DestinationPoint: the latitude satisfies the spherical law it is defined by
        out.append(("dest_%d" % idx, "Rabs (sin (rad %s) - (sin (rad %s) * cos (%s / Rearth) + cos (rad %s) * sin (%s / Rearth) * cos (rad %s))) <= 1 / 1000000000000" % (R(la), R(latA), R(d), R(latA), R(d), R(th)), "unfold rad, Rearth"))
    elif tag == 81:
        lat, lon, m, a1, b1, c1, d1 = [bf(v) for v in a[:7]]
        if not finite(lat, lon, m, a1, b1, c1, d1): return out
        r_deg = m / 6371e3 * 180 / math.pi
        guard = math.cos(m / 6371e3) > 0.999999999999999
        if guard or lat + r_deg >= 90 or lat - r_deg <= -90: return out
        out.append(("rlat_%d" % idx, "Rabs ((rad %s - %s / Rearth) * (180 / PI) - %s) <= 1 / 1000000000 /\\ Rabs ((rad %s + %s / Rearth) * (180 / PI) - %s) <= 1 / 1000000000" % (R(lat), R(m), R(a1), R(lat), R(m), R(c1)), "unfold rad, Rearth; split"))
        if b1 > -180 and d1 < 180 and abs(lat) < 89 and r_deg < 80:
            # cos(lonD) = (cos r - sin latT sin lat) / (cos latT cos lat) with sin latT = sin lat / cos r
            lonD = "(rad (%s - %s))" % (R(d1), R(lon))
            rr = "(%s / Rearth)" % R(m)
            sl = "(sin (rad %s))" % R(lat)
            cl = "(cos (rad %s))" % R(lat)
            slt = "(%s / cos %s)" % (sl, rr)
            out.append(("rlon_%d" % idx, "Rabs (cos %s - (cos %s - %s * %s) / (sqrt (1 - %s * %s) * %s)) <= 1 / 100000000" % (lonD, rr, slt, sl, slt, slt, cl), "unfold rad, Rearth"))
            # the same law in its sine form, sin lonD * cos lat = sin r, to one part in a million of sin r: unlike the
            # cosine form it constrains the width at small radii too (the cosine of a small angle is 1 to 1e-8 whatever
            # the angle is: that goal could not see the 1% loss repaired by 7efb257)
            out.append(("rlonsin_%d" % idx, "Rabs (sin %s * %s - sin %s) <= sin %s / 1000000 + 1 / 1000000000000000" % (lonD, cl, rr, rr), "unfold rad, Rearth"))
    elif tag == 82 and len(a) >= 11:
        clat, clon, m = bf(a[0]), bf(a[1]), bf(a[2])
        plat, plon = bf(a[4]), bf(a[5])
        b = int(a[10])
        if not finite(clat, clon, m, plat, plon) or b not in (0, 1) or not (0 <= m <= math.pi * 6371e3): return out
        # outside the tolerance band max(1 mm, 1e-8 r) the decision must be the model's, exactly
        p1, l1, p2, l2 = [math.radians(v) for v in (plat, plon, clat, clon)]
        h = math.sin((p2 - p1) / 2) ** 2 + math.cos(p1) * math.cos(p2) * math.sin((l2 - l1) / 2) ** 2
        dd = 6371e3 * 2 * math.asin(math.sqrt(min(1.0, h)))
        if abs(dd - m) <= 1.5 * max(1e-3, 1e-8 * m): return out
        if b == 1:
            out.append(("cin_%d" % idx, "hav %s %s %s %s <= dist_to_hav %s" % (R(plat), R(plon), R(clat), R(clon), R(m)), "unfold hav, dist_to_hav, rad, Rearth"))
        else:
            out.append(("cout_%d" % idx, "dist_to_hav %s <= hav %s %s %s %s" % (R(m), R(plat), R(plon), R(clat), R(clon)), "unfold hav, dist_to_hav, rad, Rearth"))
    return out

def main():
    cases, outdir, k = sys.argv[1], sys.argv[2], int(sys.argv[3])
    coqdir = os.path.join(os.path.dirname(os.path.dirname(os.path.abspath(__file__))), "coq")
    lines = [l for l in open(cases) if l.strip() and l.split()[0] in ("80", "81", "82")]
    rnd = random.Random(777)
    pick = lines[:k // 4] + [lines[rnd.randrange(len(lines))] for _ in range(k - k // 4)] if lines else []
    goals = []
    for i, l in enumerate(pick):
        goals += goals_for(l, i)
    shards = 16
    procs = []
    for s in range(shards):
        part = goals[s::shards]
        if not part: continue
        fn = os.path.join(outdir, "geo_goals_%d.v" % s)
        with open(fn, "w") as f:
            f.write(HDR)
            for name, stmt, pre in part:
                # a goal that interval cannot close is reported by name, the file still compiles
                f.write("Goal %s.\nProof. %s; interval with (i_prec 90).\nQed.\n" % (stmt, pre))
                f.write('Definition proved_%s := tt.\n' % name)
        procs.append((fn, part))
    # compile: a failing goal aborts the file at that point; to attribute failures, each goal is retried alone
    proved, failed = 0, []
    running = [(subprocess.Popen(["timeout", "600", "coqc", "-Q", coqdir, "GJ", fn], stdout=subprocess.PIPE, stderr=subprocess.STDOUT, text=True), fn, part) for fn, part in procs]
    for p, fn, part in running:
        out, _ = p.communicate()
        if p.returncode == 0:
            proved += len(part)
        else:
            for name, stmt, pre in part:
                one = os.path.join(outdir, "one_%s.v" % name)
                open(one, "w").write(HDR + "Goal %s.\nProof. %s; interval with (i_prec 120).\nQed.\n" % (stmt, pre))
                r = subprocess.run(["timeout", "300", "coqc", "-Q", coqdir, "GJ", one], stdout=subprocess.PIPE, stderr=subprocess.STDOUT, text=True)
                if r.returncode == 0: proved += 1
                else: failed.append((name, stmt, r.stdout[-300:]))
    print("GOALS %d PROVED %d FAILED %d" % (len(goals), proved, len(failed)))
    for name, stmt, msg in failed[:10]:
        print("FAILED %s: %s\n   %s" % (name, stmt[:600], msg.replace("\n", " ")[:300]))

if __name__ == "__main__":
    main()
