#!/bin/bash
# setup.sh — build the framework from files on disk only (offline):
#   full .vo build of coq/ (never -vos), hygiene grep, extraction, OCaml driver.
# Idempotent; called by MANIFEST.setup_cmd and (under a lock) by every check.
set -e
cd "$(dirname "$0")"
ROOT=$(pwd)
mkdir -p .build/ml
cd coq
# hygiene: no axioms, no admits, no checker switches anywhere in the development
if grep -rnE 'Admitted|\badmit\b|^\s*Axiom|^\s*Parameter|^\s*Conjecture|Unset Guard|bypass_check|type-in-type|Admit Obligations' --include='*.v' . ; then
  echo "hygiene check failed"; exit 1
fi
if [ ! -f Makefile ] || [ _CoqProject -nt Makefile ]; then
  coq_makefile -f _CoqProject -o Makefile > /dev/null
fi
timeout 7200 make -j16 > ../.build/coq-make.log 2>&1 || { tail -40 ../.build/coq-make.log; exit 1; }
cd ../.build/ml
if [ ! -f gjdriver ] || [ "$ROOT/coq/Harness.vo" -nt gjdriver ] || [ "$ROOT/ocaml/driver.ml" -nt gjdriver ] || [ "$ROOT/coq/Extract.v" -nt gjdriver ]; then
  cp "$ROOT/coq/Extract.v" Extract.v
  timeout 600 coqc -Q "$ROOT/coq" GJ Extract.v > extract.log 2>&1 || { cat extract.log; exit 1; }
  cp "$ROOT/ocaml/driver.ml" driver.ml
  ocamlfind ocamlopt -O3 -package zarith -linkpkg gjmodel.mli gjmodel.ml driver.ml -o gjdriver.tmp 2> ocaml.log || { cat ocaml.log; exit 1; }
  mv gjdriver.tmp gjdriver
fi
echo "framework ok"
