package main

// Object layer (properties C09, C10, C11): integer encoding of object trees,
// construction through the public constructors, and the implementation side of
// tags 60 (pair predicates + algebraic laws), 61 (attributes), 62 (collection
// composition, child search, child index on/off).

import (
	"math/rand"

	"github.com/tidwall/geojson"
	"github.com/tidwall/geojson/geometry"
)

// otree: kind 0 Point, 1 SimplePoint, 2 Rect, 3 LineString, 4 Polygon, 5 Feature, 6 collection
type otree struct {
	kind  int64
	pt    ipt
	rect  [4]int64
	line  []ipt
	rings [][]ipt
	ck    int64 // collection kind 0..4
	kids  []*otree
}

func (o *otree) enc() []int64 {
	switch o.kind {
	case 0, 1:
		return []int64{o.kind, o.pt.x, o.pt.y}
	case 2:
		return []int64{2, o.rect[0], o.rect[1], o.rect[2], o.rect[3]}
	case 3:
		return append([]int64{3, int64(len(o.line))}, encPts(o.line)...)
	case 4:
		return append([]int64{4}, encRings(o.rings)...)
	case 5:
		return append([]int64{5}, o.kids[0].enc()...)
	}
	out := []int64{6, o.ck, int64(len(o.kids))}
	for _, k := range o.kids {
		out = append(out, k.enc()...)
	}
	return out
}

func decObj(a []int64) (*otree, []int64) {
	switch a[0] {
	case 0, 1:
		return &otree{kind: a[0], pt: ipt{a[1], a[2]}}, a[3:]
	case 2:
		return &otree{kind: 2, rect: [4]int64{a[1], a[2], a[3], a[4]}}, a[5:]
	case 3:
		n := int(a[1])
		return &otree{kind: 3, line: decPts(a[2 : 2+2*n])}, a[2+2*n:]
	case 4:
		rings, rest := decRings(a[1:])
		return &otree{kind: 4, rings: rings}, rest
	case 5:
		b, rest := decObj(a[1:])
		return &otree{kind: 5, kids: []*otree{b}}, rest
	}
	o := &otree{kind: 6, ck: a[1]}
	n := int(a[2])
	rest := a[3:]
	for i := 0; i < n; i++ {
		var k *otree
		k, rest = decObj(rest)
		o.kids = append(o.kids, k)
	}
	return o, rest
}

// build through the public constructors
func (o *otree) build(s int64, opts *geometry.IndexOptions) geojson.Object {
	switch o.kind {
	case 0:
		return geojson.NewPoint(mkPt(o.pt.x, o.pt.y, s))
	case 1:
		return geojson.NewSimplePoint(mkPt(o.pt.x, o.pt.y, s))
	case 2:
		return geojson.NewRect(geometry.Rect{Min: mkPt(o.rect[0], o.rect[1], s), Max: mkPt(o.rect[2], o.rect[3], s)})
	case 3:
		return geojson.NewLineString(geometry.NewLine(toPoints(o.line, s), opts))
	case 4:
		return geojson.NewPolygon(mkPoly(o.rings, s, opts))
	case 5:
		return geojson.NewFeature(o.kids[0].build(s, opts), "")
	}
	switch o.ck {
	case 0:
		var ps []geometry.Point
		for _, k := range o.kids {
			ps = append(ps, mkPt(k.pt.x, k.pt.y, s))
		}
		return geojson.NewMultiPoint(ps)
	case 1:
		var ls []*geometry.Line
		for _, k := range o.kids {
			ls = append(ls, geometry.NewLine(toPoints(k.line, s), opts))
		}
		return geojson.NewMultiLineString(ls)
	case 2:
		var ps []*geometry.Poly
		for _, k := range o.kids {
			ps = append(ps, mkPoly(k.rings, s, opts))
		}
		return geojson.NewMultiPolygon(ps)
	}
	var objs []geojson.Object
	for _, k := range o.kids {
		objs = append(objs, k.build(s, opts))
	}
	if o.ck == 3 {
		return geojson.NewGeometryCollection(objs)
	}
	return geojson.NewFeatureCollection(objs)
}

// set the child-index threshold on every collection of the tree
func setChildIndex(o geojson.Object, th int) {
	switch g := o.(type) {
	case *geojson.Feature:
		setChildIndex(g.Base(), th)
	case geojson.Collection:
		for _, c := range g.Children() {
			setChildIndex(c, th)
		}
		geojson.VerifSetChildIndex(o, th)
	}
}

var childThresholds = []int{64, 0, 1, 2}

// cfg: bits 0-1 geometry index config, bits 2-3 child index threshold selector
func buildCfg(o *otree, s, cfg int64) geojson.Object {
	obj := o.build(s, pairCfgs[cfg&3])
	if th := childThresholds[(cfg>>2)&3]; th != 64 {
		setChildIndex(obj, th)
	}
	return obj
}

func rectInts(r geometry.Rect, s int64) []int64 {
	return []int64{unfl(r.Min.X, s), unfl(r.Min.Y, s), unfl(r.Max.X, s), unfl(r.Max.Y, s)}
}

func equivalentRepr(o *otree) *otree {
	switch o.kind {
	case 0:
		return &otree{kind: 1, pt: o.pt}
	case 1:
		return &otree{kind: 0, pt: o.pt}
	case 2:
		r := o.rect
		return &otree{kind: 4, rings: [][]ipt{{{r[0], r[1]}, {r[2], r[1]}, {r[2], r[3]}, {r[0], r[3]}, {r[0], r[1]}}}}
	}
	return nil
}

// tag 60: args = s cfg encA encB
func implObjPair(a []int64) []int64 {
	s, cfg := a[0], a[1]
	ta, rest := decObj(a[2:])
	tb, _ := decObj(rest)
	A, B := buildCfg(ta, s, cfg), buildCfg(tb, s, cfg)
	o0, o1, o2 := A.Contains(B), A.Within(B), A.Intersects(B)
	o3, o4, o5 := B.Contains(A), B.Within(A), B.Intersects(A)
	out := bools(o0, o1, o2, o3, o4, o5, true)
	impl := func(x, y bool) bool { return !x || y }
	out = append(out, b2i(o1 == o3 && o4 == o0), b2i(o2 == o5))
	out = append(out, b2i(impl(o0 && !B.Empty(), o2) && impl(o3 && !A.Empty(), o5)))
	out = append(out, b2i(impl(o0 && !B.Empty(), A.Rect().ContainsRect(B.Rect())) && impl(o3 && !A.Empty(), B.Rect().ContainsRect(A.Rect()))))
	out = append(out, b2i(impl(o2, A.Rect().IntersectsRect(B.Rect())) && impl(o5, B.Rect().IntersectsRect(A.Rect()))))
	out = append(out, b2i(A.Empty() || (A.Contains(A) && A.Intersects(A))))
	// a Feature answers as its geometry (receiver and argument)
	FA := geojson.NewFeature(A, "")
	out = append(out, b2i(FA.Contains(B) == o0 && FA.Within(B) == o1 && FA.Intersects(B) == o2 &&
		B.Contains(FA) == o3 && B.Within(FA) == o4 && B.Intersects(FA) == o5))
	// alternative representations answer alike
	eq := true
	if te := equivalentRepr(ta); te != nil {
		E := buildCfg(te, s, cfg)
		eq = E.Contains(B) == o0 && E.Within(B) == o1 && E.Intersects(B) == o2 &&
			B.Contains(E) == o3 && B.Within(E) == o4 && B.Intersects(E) == o5
	}
	out = append(out, b2i(eq))
	return out
}

// tag 61: args = s cfg enc -> empty valid rect(4) center2(2) npoints
func implObjAttrs(a []int64) []int64 {
	s, cfg := a[0], a[1]
	t, _ := decObj(a[2:])
	O := buildCfg(t, s, cfg)
	out := bools(O.Empty(), O.Valid())
	out = append(out, rectInts(O.Rect(), s)...)
	c := O.Center()
	out = append(out, unfl(2*c.X, s), unfl(2*c.Y, s), int64(O.NumPoints()))
	return out
}

func isColl(o geojson.Object) bool { _, ok := o.(geojson.Collection); return ok }

func partsOf(o geojson.Object) []geojson.Object {
	var ps []geojson.Object
	o.ForEach(func(g geojson.Object) bool {
		if !g.Empty() {
			ps = append(ps, g)
		}
		return true
	})
	return ps
}

func doCollSearch(c geojson.Collection, q geometry.Rect, stopk int64) []int64 {
	kids := c.Children()
	var rep []int64
	c.Search(q, func(child geojson.Object) bool {
		idx := int64(-1)
		for i, k := range kids {
			if k == child {
				idx = int64(i)
				break
			}
		}
		rep = append(rep, idx)
		return stopk < 0 || int64(len(rep)) < stopk
	})
	return rep
}

// tag 62: args = s cfg encColl encProbe qminx qminy qmaxx qmaxy stopk
// output: answers(5) laws(6) search: n, sorted..., then indexed-equals-unindexed flag
func implColl(a []int64) []int64 {
	s, cfg := a[0], a[1]
	tc, rest := decObj(a[2:])
	tx, rest := decObj(rest)
	q := geometry.Rect{Min: mkPt(rest[0], rest[1], s), Max: mkPt(rest[2], rest[3], s)}
	stopk := rest[4]
	run := func(th int) []int64 {
		C := tc.build(s, pairCfgs[cfg&3])
		X := tx.build(s, pairCfgs[cfg&3])
		setChildIndex(C, th)
		setChildIndex(X, th)
		coll := C.(geojson.Collection)
		kids := coll.Children()
		ci, cc, cw, xi, xc := C.Intersects(X), C.Contains(X), C.Within(X), X.Intersects(C), X.Contains(C)
		out := bools(ci, cc, cw, xi, xc)
		parts := partsOf(X)
		// composition from the children's own answers
		anyI, allC := false, len(parts) > 0
		for _, p := range parts {
			some := false
			for _, k := range kids {
				if k.Empty() {
					continue
				}
				if k.Intersects(p) {
					anyI = true
				}
				if k.Contains(p) {
					some = true
				}
			}
			if !some {
				allC = false
			}
		}
		allW := !C.Empty()
		for _, k := range kids {
			if !k.Within(X) {
				allW = false
			}
		}
		allE, n := true, 0
		var ur geometry.Rect
		first := true
		for _, k := range kids {
			n += k.NumPoints()
			if k.Empty() {
				continue
			}
			allE = false
			r := k.Rect()
			if first {
				ur, first = r, false
			} else {
				if r.Min.X < ur.Min.X {
					ur.Min.X = r.Min.X
				}
				if r.Min.Y < ur.Min.Y {
					ur.Min.Y = r.Min.Y
				}
				if r.Max.X > ur.Max.X {
					ur.Max.X = r.Max.X
				}
				if r.Max.Y > ur.Max.Y {
					ur.Max.Y = r.Max.Y
				}
			}
		}
		lawW := int64(1)
		if !isColl(X) {
			lawW = b2i(cw == allW)
		}
		out = append(out, b2i(ci == anyI), b2i(cc == (allC && !C.Empty())), lawW, b2i(C.Empty() == allE),
			b2i(C.Rect() == ur), b2i(C.NumPoints() == n))
		// children keep document order and kind
		order := int64(1)
		if len(kids) != len(tc.kids) {
			order = 0
		} else {
			for i, k := range kids {
				if k.NumPoints() != tc.kids[i].build(s, noIndex).NumPoints() || k.Rect() != tc.kids[i].build(s, noIndex).Rect() {
					order = 0
				}
			}
		}
		out = append(out, order)
		rep := doCollSearch(coll, q, stopk)
		out = append(out, int64(len(rep)))
		if stopk < 0 {
			sorted := append([]int64{}, rep...)
			sortInts(sorted)
			out = append(out, sorted...)
		}
		return out
	}
	base := run(0)
	same := int64(1)
	for _, th := range []int{1, 2, 64} {
		o := run(th)
		if len(o) != len(base) {
			same = 0
			continue
		}
		for i := range o {
			if o[i] != base[i] {
				same = 0
			}
		}
	}
	_ = cfg
	return append(base, same)
}

func sortInts(a []int64) {
	for i := 1; i < len(a); i++ {
		for j := i; j > 0 && a[j] < a[j-1]; j-- {
			a[j], a[j-1] = a[j-1], a[j]
		}
	}
}

// ---------- generators ----------

func leafFromShape(sh shp, rng *rand.Rand) *otree {
	switch sh.kind {
	case 0:
		return &otree{kind: int64(rng.Intn(2)), pt: sh.pt}
	case 1:
		return &otree{kind: 2, rect: sh.rect}
	case 2:
		return &otree{kind: 3, line: sh.line}
	}
	return &otree{kind: 4, rings: sh.rings}
}

func shapeOfLeaf(o *otree) (shp, bool) {
	switch o.kind {
	case 0, 1:
		return shp{kind: 0, pt: o.pt}, true
	case 2:
		return shp{kind: 1, rect: o.rect}, true
	case 3:
		return shp{kind: 2, line: o.line}, true
	case 4:
		return shp{kind: 3, rings: o.rings}, true
	case 5:
		return shapeOfLeaf(o.kids[0])
	}
	return shp{}, false
}

// boundary contact between a polygon and another shape (where the C03 findings live)
func shapeSegs(sh shp) [][2]ipt {
	var out [][2]ipt
	ring := func(r []ipt) {
		n := len(r)
		if n > 1 && r[0] == r[n-1] {
			n--
		}
		for i := 0; i < n; i++ {
			out = append(out, [2]ipt{r[i], r[(i+1)%n]})
		}
	}
	switch sh.kind {
	case 0:
		out = append(out, [2]ipt{sh.pt, sh.pt})
	case 1:
		r := sh.rect
		ring([]ipt{{r[0], r[1]}, {r[2], r[1]}, {r[2], r[3]}, {r[0], r[3]}})
	case 2:
		for i := 0; i+1 < len(sh.line); i++ {
			out = append(out, [2]ipt{sh.line[i], sh.line[i+1]})
		}
	default:
		for _, r := range sh.rings {
			ring(r)
		}
	}
	return out
}

func boundaryContact(a, b shp) bool {
	for _, s := range shapeSegs(a) {
		for _, t := range shapeSegs(b) {
			if segsMeet(s[0], s[1], t[0], t[1]) {
				return true
			}
		}
	}
	return false
}

// does any polygon leaf of a touch the boundary of any leaf of b (or vice versa)?
func treeLeaves(o *otree) []shp {
	if o.kind == 6 {
		var out []shp
		for _, k := range o.kids {
			out = append(out, treeLeaves(k)...)
		}
		return out
	}
	if o.kind == 5 {
		return treeLeaves(o.kids[0])
	}
	sh, _ := shapeOfLeaf(o)
	return []shp{sh}
}

func polyContact(a, b *otree) bool {
	for _, x := range treeLeaves(a) {
		for _, y := range treeLeaves(b) {
			if (x.kind == 3 || y.kind == 3) && x.kind != 0 && y.kind != 0 && boundaryContact(x, y) {
				return true
			}
		}
	}
	return false
}

// a random object tree near polygon A's rings; depth-limited
func genObj(rng *rand.Rand, A [][]ipt, depth int) *otree {
	r := rng.Intn(10)
	if depth <= 0 && r >= 6 {
		r = rng.Intn(6)
	}
	switch {
	case r < 5:
		return leafFromShape(genRelated(rng, A, int64(rng.Intn(4))), rng)
	case r == 5:
		return &otree{kind: 5, kids: []*otree{genObj(rng, A, depth-1)}}
	}
	ck := int64(rng.Intn(5))
	n := rng.Intn(5)
	if rng.Intn(12) == 0 {
		n = 60 + rng.Intn(10) // around the default child-index threshold
	}
	o := &otree{kind: 6, ck: ck}
	for i := 0; i < n; i++ {
		var k *otree
		switch ck {
		case 0:
			k = &otree{kind: 0, pt: genRelated(rng, A, 0).pt}
		case 1:
			k = &otree{kind: 3, line: genRelated(rng, A, 2).line}
			if rng.Intn(8) == 0 {
				k.line = k.line[:1] // an empty child
			}
		case 2:
			k = &otree{kind: 4, rings: genRelated(rng, A, 3).rings}
		case 3:
			k = genObj(rng, A, depth-1)
			for k.kind == 5 {
				k = k.kids[0]
			}
		default:
			k = &otree{kind: 5, kids: []*otree{genObj(rng, A, depth-1)}}
		}
		o.kids = append(o.kids, k)
	}
	return o
}

func objInDom(o *otree) bool {
	for _, sh := range treeLeaves(o) {
		if !shapeInDom(sh) {
			return false
		}
	}
	return true
}

func kindLabel(o *otree) string {
	if o.kind == 6 {
		return [...]string{"MultiPoint", "MultiLineString", "MultiPolygon", "GeometryCollection", "FeatureCollection"}[o.ck]
	}
	return [...]string{"Point", "SimplePoint", "Rect", "LineString", "Polygon", "Feature"}[o.kind]
}

// object pairs LineString x flat Rect (and Feature-wrapped): both ends of the rectangle on the line,
// the line bending, straight in two pieces, or leaving after half the way
func flatRectOnLineObjs(rng *rand.Rand) (*otree, *otree) {
	x0, y0 := rng.Int63n(20)-10, rng.Int63n(20)-10
	d := 2 + 2*rng.Int63n(6)
	var ln []ipt
	var r [4]int64
	if rng.Intn(2) == 0 {
		r = [4]int64{x0, y0, x0 + d, y0}
		ln = [][]ipt{{{x0, y0}, {x0 + d/2, y0 + 3}, {x0 + d, y0}}, {{x0 - 1, y0}, {x0 + d/2, y0}, {x0 + d + 1, y0}}, {{x0, y0}, {x0 + d/2, y0}, {x0 + d, y0 + 2}}}[rng.Intn(3)]
	} else {
		r = [4]int64{x0, y0, x0, y0 + d}
		ln = [][]ipt{{{x0, y0}, {x0 - 3, y0 + d/2}, {x0, y0 + d}}, {{x0, y0 - 1}, {x0, y0 + d/2}, {x0, y0 + d + 1}}, {{x0, y0}, {x0, y0 + d/2}, {x0 + 2, y0 + d}}}[rng.Intn(3)]
	}
	a, b := &otree{kind: 3, line: ln}, &otree{kind: 2, rect: r}
	if rng.Intn(3) == 0 {
		b = &otree{kind: 5, kids: []*otree{b}}
	}
	if rng.Intn(2) == 0 {
		a, b = b, a
	}
	return a, b
}

func streamC09(w *W, rng *rand.Rand, tier string) {
	n := 2500
	if tier == "thorough" {
		n = 40000
	}
	for it := 0; it < n/10; it++ {
		a, b := flatRectOnLineObjs(rng)
		if !objInDom(a) || !objInDom(b) {
			continue
		}
		args := append([]int64{0, int64(rng.Intn(16)) | 16}, a.enc()...)
		args = append(args, b.enc()...)
		w.Do(60, args, true)
		w.count("family:flat-rect-on-line")
	}
	for it := 0; it < n; it++ {
		sc := int64(rng.Intn(3))
		lim := int64(4) << uint(rng.Intn(10))
		A := genPoly(rng, lim, it%4 == 0)
		for rep := 0; rep < 4; rep++ {
			a, b := genObj(rng, A, 2), genObj(rng, A, 2)
			if rep == 0 { // a polygon object built on A itself
				a = &otree{kind: 4, rings: A}
			}
			if !objInDom(a) || !objInDom(b) {
				continue
			}
			cfg := int64(rng.Intn(16))
			flags := cfg
			if !polyContact(a, b) {
				flags |= 16 // the leaf-level oracle applies (no polygon boundary contact)
			}
			args := append([]int64{sc, flags}, a.enc()...)
			args = append(args, b.enc()...)
			out := w.Do(60, args, true)
			w.count("pair:" + kindLabel(a) + "x" + kindLabel(b))
			if len(out) > 5 {
				if out[0] == 1 || out[3] == 1 {
					w.count("contains:true")
				}
				if out[2] == 1 {
					w.count("intersects:true")
				} else {
					w.count("intersects:false")
				}
			}
			if flags&16 != 0 {
				w.count("oracle-applies")
			}
		}
	}
	// the twelfth kind: Circle's own dispatch (circle.go), as algebraic-law flags
	streamCircleLaws(w, rng, n)
}

func init() {
	impls[60] = implObjPair
	impls[61] = implObjAttrs
	impls[62] = implColl
	streams["C09"] = streamC09
}
