package main

import (
	"math/rand"
	"sort"

	"github.com/tidwall/geojson/geometry"
)

type ipt struct{ x, y int64 }

func toPoints(ps []ipt, s int64) []geometry.Point {
	out := make([]geometry.Point, len(ps))
	for i, p := range ps {
		out[i] = mkPt(p.x, p.y, s)
	}
	return out
}

func encPts(ps []ipt) []int64 {
	out := make([]int64, 0, 2*len(ps))
	for _, p := range ps {
		out = append(out, p.x, p.y)
	}
	return out
}

func decPts(a []int64) []ipt {
	out := make([]ipt, 0, len(a)/2)
	for i := 0; i+1 < len(a); i += 2 {
		out = append(out, ipt{a[i], a[i+1]})
	}
	return out
}

var noIndex = &geometry.IndexOptions{Kind: geometry.None}

// tag 10: series attributes. args = s, closed, coords...
func implSeries(a []int64) []int64 {
	s, cl := a[0], a[1] == 1
	ps := toPoints(decPts(a[2:]), s)
	var sr geometry.Series
	if cl {
		sr = geometry.NewPoly(ps, nil, noIndex).Exterior
	} else {
		sr = geometry.NewLine(ps, noIndex)
	}
	r := sr.Rect()
	out := []int64{b2i(sr.Convex()), b2i(sr.Clockwise()), b2i(sr.Empty()), int64(sr.NumPoints()), int64(sr.NumSegments()),
		unfl(r.Min.X, s), unfl(r.Min.Y, s), unfl(r.Max.X, s), unfl(r.Max.Y, s)}
	for i := 0; i < sr.NumSegments(); i++ {
		sg := sr.SegmentAt(i)
		out = append(out, unfl(sg.A.X, s), unfl(sg.A.Y, s), unfl(sg.B.X, s), unfl(sg.B.Y, s))
	}
	return out
}

func c18Do(w *W, ps []ipt, cl bool, s int64) {
	args := append([]int64{s, b2i(cl)}, encPts(ps)...)
	out := w.Do(10, args, len(ps) >= 3)
	if cl && len(ps) >= 3 {
		if out[0] == 1 {
			w.count("ring:convex")
		} else {
			w.count("ring:concave")
		}
		if out[1] == 1 {
			w.count("ring:clockwise")
		} else {
			w.count("ring:not-clockwise")
		}
		if ps[0] == ps[len(ps)-1] {
			w.count("ring:closing-vertex-repeated")
		} else {
			w.count("ring:closing-vertex-implicit")
		}
	}
}

// convex hull (Andrew), strictly convex, counter-clockwise
func hull(ps []ipt) []ipt {
	sort.Slice(ps, func(i, j int) bool { return ps[i].x < ps[j].x || (ps[i].x == ps[j].x && ps[i].y < ps[j].y) })
	cr := func(o, a, b ipt) int64 { return (a.x-o.x)*(b.y-o.y) - (a.y-o.y)*(b.x-o.x) }
	var h []ipt
	for _, p := range ps {
		for len(h) >= 2 && cr(h[len(h)-2], h[len(h)-1], p) <= 0 {
			h = h[:len(h)-1]
		}
		h = append(h, p)
	}
	t := len(h) + 1
	for i := len(ps) - 2; i >= 0; i-- {
		p := ps[i]
		for len(h) >= t && cr(h[len(h)-2], h[len(h)-1], p) <= 0 {
			h = h[:len(h)-1]
		}
		h = append(h, p)
	}
	if len(h) > 1 {
		h = h[:len(h)-1]
	}
	return h
}

func rotate(ps []ipt, k int) []ipt {
	n := len(ps)
	out := make([]ipt, n)
	for i := range ps {
		out[i] = ps[(i+k)%n]
	}
	return out
}

func reverse(ps []ipt) []ipt {
	n := len(ps)
	out := make([]ipt, n)
	for i := range ps {
		out[i] = ps[n-1-i]
	}
	return out
}

func closeRing(ps []ipt) []ipt { return append(append([]ipt{}, ps...), ps[0]) }

// all re-encodings of a ring given by its distinct cyclic vertices
func c18Variants(w *W, vs []ipt, s int64, rng *rand.Rand, all bool) {
	n := len(vs)
	for k := 0; k < n; k++ {
		if !all && k > 0 && rng.Intn(n) > 3 {
			continue
		}
		r := rotate(vs, k)
		c18Do(w, r, true, s)
		c18Do(w, closeRing(r), true, s)
		rr := reverse(r)
		c18Do(w, rr, true, s)
		c18Do(w, closeRing(rr), true, s)
	}
}

func streamC18(w *W, rng *rand.Rand, tier string) {
	// exhaustive: all vertex sequences of length 0..maxLen on {0..3}^2, closed and open
	maxLen := 4
	if tier == "thorough" {
		maxLen = 5
	}
	var rec func(ps []ipt)
	rec = func(ps []ipt) {
		c18Do(w, ps, true, 0)
		c18Do(w, ps, false, 0)
		if len(ps) == maxLen {
			return
		}
		for x := int64(0); x < 4; x++ {
			for y := int64(0); y < 4; y++ {
				rec(append(ps, ipt{x, y}))
			}
		}
	}
	rec(nil)
	// structured random rings: convex hulls and one-reflex perturbations, all rotations,
	// both directions, with and without closing vertex, collinear midpoints, duplicates
	n := 300
	if tier == "thorough" {
		n = 3000
	}
	for it := 0; it < n; it++ {
		s := int64(rng.Intn(4))
		k := 3 + rng.Intn(12)
		lim := int64(1) << uint(3+rng.Intn(20))
		raw := make([]ipt, k)
		for i := range raw {
			raw[i] = ipt{rng.Int63n(2*lim+1) - lim, rng.Int63n(2*lim+1) - lim}
		}
		h := hull(append([]ipt{}, raw...))
		if len(h) >= 3 {
			c18Variants(w, h, s, rng, true)
			// dent one vertex towards the centroid: a single reflex (or collinear) vertex
			var cx, cy int64
			for _, p := range h {
				cx += p.x
				cy += p.y
			}
			cx /= int64(len(h))
			cy /= int64(len(h))
			d := append([]ipt{}, h...)
			j := rng.Intn(len(d))
			d[j] = ipt{(d[j].x + 3*cx) / 4, (d[j].y + 3*cy) / 4}
			c18Variants(w, d, s, rng, true)
			// collinear midpoint and a duplicated vertex
			m := append([]ipt{}, h...)
			j = rng.Intn(len(m))
			a, b := m[j], m[(j+1)%len(m)]
			if (a.x+b.x)%2 == 0 && (a.y+b.y)%2 == 0 {
				mid := ipt{(a.x + b.x) / 2, (a.y + b.y) / 2}
				m = append(m[:j+1], append([]ipt{mid}, m[j+1:]...)...)
				c18Variants(w, m, s, rng, false)
			}
			dup := append([]ipt{}, h...)
			j = rng.Intn(len(dup))
			dup = append(dup[:j+1], append([]ipt{dup[j]}, dup[j+1:]...)...)
			c18Variants(w, dup, s, rng, false)
		}
		// raw random vertex sequence (mostly self-intersecting)
		c18Variants(w, raw, s, rng, false)
		c18Do(w, raw, false, s)
	}
	// long series inside the exactness bound n*2^(2b+2) < 2^53
	nl := 20
	if tier == "thorough" {
		nl = 200
	}
	for it := 0; it < nl; it++ {
		k := 100 + rng.Intn(1900)
		lim := int64(1) << 19
		ps := make([]ipt, k)
		for i := range ps {
			ps[i] = ipt{rng.Int63n(2*lim+1) - lim, rng.Int63n(2*lim+1) - lim}
		}
		c18Do(w, ps, true, 0)
		c18Do(w, closeRing(ps), true, 0)
		c18Do(w, ps, false, 1)
	}
}

func init() {
	impls[10] = implSeries
	streams["C18"] = streamC18
}
