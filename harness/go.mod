module verif/harness

go 1.15

require github.com/tidwall/geojson v0.0.0

replace github.com/tidwall/geojson => /repo
