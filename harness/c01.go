package main

import (
	"math/rand"

	"github.com/tidwall/geojson"
	"github.com/tidwall/geojson/geometry"
)

func idxOpts(kind, minPts int64) *geometry.IndexOptions {
	return &geometry.IndexOptions{Kind: geometry.IndexKind(kind), MinPoints: int(minPts)}
}

// rings section: nrings, then per ring: n, coords...
func decRings(a []int64) ([][]ipt, []int64) {
	nr := int(a[0])
	a = a[1:]
	rings := make([][]ipt, 0, nr)
	for i := 0; i < nr; i++ {
		n := int(a[0])
		rings = append(rings, decPts(a[1:1+2*n]))
		a = a[1+2*n:]
	}
	return rings, a
}

func encRings(rings [][]ipt) []int64 {
	out := []int64{int64(len(rings))}
	for _, r := range rings {
		out = append(out, int64(len(r)))
		out = append(out, encPts(r)...)
	}
	return out
}

func mkPoly(rings [][]ipt, s int64, opts *geometry.IndexOptions) *geometry.Poly {
	var ext []geometry.Point
	var holes [][]geometry.Point
	if len(rings) > 0 {
		ext = toPoints(rings[0], s)
		for _, h := range rings[1:] {
			holes = append(holes, toPoints(h, s))
		}
	}
	return geometry.NewPoly(ext, holes, opts)
}

func bools(bs ...bool) []int64 {
	out := make([]int64, len(bs))
	for i, b := range bs {
		out[i] = b2i(b)
	}
	return out
}

// tag 20: args = s kind minpts nrings rings... x y
func implPolyPip(a []int64) []int64 {
	s := a[0]
	rings, rest := decRings(a[3:])
	poly := mkPoly(rings, s, idxOpts(a[1], a[2]))
	p := mkPt(rest[0], rest[1], s)
	P := geojson.NewPolygon(poly)
	pt := geojson.NewPoint(p)
	sp := geojson.NewSimplePoint(p)
	F := geojson.NewFeature(P, "")
	return bools(poly.ContainsPoint(p), poly.IntersectsPoint(p), p.IntersectsPoly(poly),
		P.Contains(pt), P.Intersects(pt), pt.Within(P), pt.Intersects(P),
		P.Contains(sp), P.Intersects(sp), sp.Within(P), sp.Intersects(P),
		F.Contains(pt), F.Intersects(pt), pt.Within(F), pt.Intersects(F), F.Contains(sp), sp.Within(F))
}

// tag 21: args = s n coords x y ; ringContainsPoint via hook, no index
func implRingPip(a []int64) []int64 {
	s := a[0]
	n := int(a[1])
	ring := geometry.VerifNewRing(toPoints(decPts(a[2:2+2*n]), s), noIndex)
	p := mkPt(a[2+2*n], a[3+2*n], s)
	h1, i1 := geometry.VerifRingContainsPoint(ring, p, true)
	h0, i0 := geometry.VerifRingContainsPoint(ring, p, false)
	return []int64{b2i(h1), int64(i1), b2i(h0), int64(i0)}
}

// tag 22: args = s minx miny maxx maxy x y
func implRectPip(a []int64) []int64 {
	s := a[0]
	r := geometry.Rect{Min: mkPt(a[1], a[2], s), Max: mkPt(a[3], a[4], s)}
	p := mkPt(a[5], a[6], s)
	R := geojson.NewRect(r)
	pt := geojson.NewPoint(p)
	sp := geojson.NewSimplePoint(p)
	return bools(r.ContainsPoint(p), r.IntersectsPoint(p), p.IntersectsRect(r),
		R.Contains(pt), R.Intersects(pt), pt.Within(R), pt.Intersects(R), R.Contains(sp), sp.Intersects(R))
}

// tag 23: args = s kind minpts n coords x y
func implLinePip(a []int64) []int64 {
	s := a[0]
	n := int(a[3])
	line := geometry.NewLine(toPoints(decPts(a[4:4+2*n]), s), idxOpts(a[1], a[2]))
	p := mkPt(a[4+2*n], a[5+2*n], s)
	L := geojson.NewLineString(line)
	pt := geojson.NewPoint(p)
	sp := geojson.NewSimplePoint(p)
	return bools(line.ContainsPoint(p), line.IntersectsPoint(p), p.IntersectsLine(line),
		L.Contains(pt), L.Intersects(pt), pt.Within(L), pt.Intersects(L), L.Contains(sp), sp.Within(L))
}

var idxConfigs = [][2]int64{{0, 0}, {1, 1}, {2, 1}, {1, 64}, {2, 64}}

func c01Poly(w *W, rings [][]ipt, x, y, s int64, cfgs [][2]int64) {
	re := encRings(rings)
	for _, c := range cfgs {
		args := append([]int64{s, c[0], c[1]}, re...)
		args = append(args, x, y)
		out := w.Do(20, args, true)
		if out[0] == 1 {
			w.count("poly:in")
		} else {
			w.count("poly:out")
		}
		switch c[0] {
		case 1:
			w.count("index:rtree")
		case 2:
			w.count("index:quadtree")
		default:
			w.count("index:none")
		}
	}
	for _, r := range rings {
		args := append([]int64{s, int64(len(r))}, encPts(r)...)
		args = append(args, x, y)
		out := w.Do(21, args, true)
		if out[1] >= 0 {
			w.count("ring:point-on-boundary")
		}
	}
}

// probe points biased to vertices, edge points, vertex levels
func c01Probe(rng *rand.Rand, ring []ipt, lim int64) (int64, int64) {
	n := len(ring)
	if n == 0 {
		return rng.Int63n(2*lim+1) - lim, rng.Int63n(2*lim+1) - lim
	}
	v := ring[rng.Intn(n)]
	switch rng.Intn(6) {
	case 0:
		return v.x, v.y
	case 1: // midpoint of an edge (when on the grid)
		i := rng.Intn(n)
		a, b := ring[i], ring[(i+1)%n]
		if (a.x+b.x)%2 == 0 && (a.y+b.y)%2 == 0 {
			return (a.x + b.x) / 2, (a.y + b.y) / 2
		}
		return a.x, b.y
	case 2: // level with a vertex
		return rng.Int63n(2*lim+1) - lim, v.y
	case 3: // same x as a vertex
		return v.x, rng.Int63n(2*lim+1) - lim
	case 4: // next to a vertex
		return v.x + int64(rng.Intn(3)-1), v.y + int64(rng.Intn(3)-1)
	}
	return rng.Int63n(2*lim+1) - lim, rng.Int63n(2*lim+1) - lim
}

// a simple star-shaped ring around (cx,cy) (valid polygon), k vertices
func starRing(rng *rand.Rand, cx, cy, rmin, rmax int64, k int) []ipt {
	// directions sorted by angle using a fixed table of lattice directions
	type dir struct{ x, y int64 }
	var dirs []dir
	for _, q := range [][2]int64{{1, 0}, {1, 1}, {0, 1}, {-1, 1}, {-1, 0}, {-1, -1}, {0, -1}, {1, -1}} {
		_ = q
	}
	// walk angles by mediant subdivision of the 8 principal directions
	base := []dir{{4, 0}, {4, 1}, {4, 2}, {4, 3}, {4, 4}, {3, 4}, {2, 4}, {1, 4}, {0, 4}, {-1, 4}, {-2, 4}, {-3, 4}, {-4, 4}, {-4, 3}, {-4, 2}, {-4, 1},
		{-4, 0}, {-4, -1}, {-4, -2}, {-4, -3}, {-4, -4}, {-3, -4}, {-2, -4}, {-1, -4}, {0, -4}, {1, -4}, {2, -4}, {3, -4}, {4, -4}, {4, -3}, {4, -2}, {4, -1}}
	step := len(base) / k
	if step < 1 {
		step = 1
	}
	for i := 0; i < len(base); i += step {
		dirs = append(dirs, base[i])
	}
	out := make([]ipt, 0, len(dirs))
	for _, d := range dirs {
		r := rmin + rng.Int63n(rmax-rmin+1)
		out = append(out, ipt{cx + d.x*r, cy + d.y*r})
	}
	return out
}

func streamC01(w *W, rng *rand.Rand, tier string) {
	// exhaustive: vertex sequences of length 3 (all) and 4 (sampled quick / all thorough)
	// on {0..3}^2 against all 49 lattice and half-lattice points (grid exponent 1)
	none := [][2]int64{{0, 0}}
	var rec func(ps []ipt, maxLen int, keep func() bool)
	rec = func(ps []ipt, maxLen int, keep func() bool) {
		if len(ps) == maxLen {
			if !keep() {
				return
			}
			for x := int64(0); x <= 6; x++ {
				for y := int64(0); y <= 6; y++ {
					c01Poly(w, [][]ipt{ps}, x, y, 1, none)
				}
			}
			return
		}
		for x := int64(0); x < 4; x++ {
			for y := int64(0); y < 4; y++ {
				rec(append(ps, ipt{2 * x, 2 * y}), maxLen, keep)
			}
		}
	}
	rec(nil, 3, func() bool { return true })
	if tier == "thorough" {
		rec(nil, 4, func() bool { return true })
		rec(nil, 5, func() bool { return rng.Intn(64) == 0 })
	} else {
		rec(nil, 4, func() bool { return rng.Intn(16) == 0 })
	}
	// arbitrary (possibly invalid) polygons: a hole that crosses or leaves the exterior,
	// every lattice and half-lattice point
	npairs := 1500
	if tier == "thorough" {
		npairs = 30000
	}
	smallRing := func() []ipt {
		k := 3 + rng.Intn(2)
		r := make([]ipt, k)
		for i := range r {
			r[i] = ipt{2 * rng.Int63n(4), 2 * rng.Int63n(4)}
		}
		return r
	}
	for it := 0; it < npairs; it++ {
		rings := [][]ipt{smallRing(), smallRing()}
		if rng.Intn(4) == 0 {
			rings = append(rings, smallRing())
		}
		for x := int64(0); x <= 6; x++ {
			for y := int64(0); y <= 6; y++ {
				c01Poly(w, rings, x, y, 1, none)
			}
		}
	}
	// random rings (any vertex sequence), polygons with holes, all index configurations
	n := 400
	if tier == "thorough" {
		n = 4000
	}
	for it := 0; it < n; it++ {
		s := int64(rng.Intn(3))
		lim := int64(1) << uint(2+rng.Intn(19))
		var rings [][]ipt
		switch rng.Intn(4) {
		case 0: // raw random sequence, often self-intersecting; sometimes closed explicitly
			k := 3 + rng.Intn(10)
			r := make([]ipt, k)
			for i := range r {
				r[i] = ipt{rng.Int63n(2*lim+1) - lim, rng.Int63n(2*lim+1) - lim}
			}
			if rng.Intn(2) == 0 {
				r = closeRing(r)
			}
			rings = [][]ipt{r}
		case 1: // star polygon with star holes
			R := lim/8 + 8
			ext := closeRing(starRing(rng, 0, 0, R/2+1, R, 8+rng.Intn(24)))
			rings = [][]ipt{ext}
			nh := rng.Intn(4)
			for h := 0; h < nh; h++ {
				hr := R/16 + 1
				cx := (rng.Int63n(5) - 2) * hr
				cy := (rng.Int63n(5) - 2) * hr
				rings = append(rings, closeRing(starRing(rng, cx, cy, hr/2+1, hr, 4+rng.Intn(8))))
			}
		case 2: // long ring: exercises index builds with many segments
			k := 64 + rng.Intn(400)
			if tier == "thorough" && rng.Intn(10) == 0 {
				k = 2000 + rng.Intn(3000)
			}
			r := make([]ipt, k)
			for i := range r {
				r[i] = ipt{rng.Int63n(2*lim+1) - lim, rng.Int63n(2*lim+1) - lim}
			}
			rings = [][]ipt{closeRing(r)}
		default: // small-lattice ring with repeated vertices and collinear runs
			k := 3 + rng.Intn(8)
			r := make([]ipt, k)
			for i := range r {
				r[i] = ipt{rng.Int63n(5) - 2, rng.Int63n(5) - 2}
			}
			rings = [][]ipt{r}
			lim = 3
		}
		np := 12
		if len(rings[0]) > 100 {
			np = 40
		}
		for j := 0; j < np; j++ {
			x, y := c01Probe(rng, rings[rng.Intn(len(rings))], lim)
			if !inDom(x, y) {
				continue
			}
			c01Poly(w, rings, x, y, s, idxConfigs)
		}
	}
	// rectangles and lines
	m := 20000
	if tier == "thorough" {
		m = 200000
	}
	for it := 0; it < m; it++ {
		s := int64(rng.Intn(3))
		lim := int64(1) << uint(1+rng.Intn(20))
		c := func() int64 { return rng.Int63n(2*lim+1) - lim }
		x0, x1, y0, y1 := c(), c(), c(), c()
		mnx, mxx, mny, mxy := min64(x0, x1), max64(x0, x1), min64(y0, y1), max64(y0, y1)
		var x, y int64
		switch rng.Intn(4) {
		case 0:
			x, y = mnx, c()
		case 1:
			x, y = c(), mxy
		case 2:
			x, y = mxx, mny
		default:
			x, y = c(), c()
		}
		out := w.Do(22, []int64{s, mnx, mny, mxx, mxy, x, y}, true)
		if out[0] == 1 {
			w.count("rect:in")
		} else {
			w.count("rect:out")
		}
		if it%4 == 0 {
			k := 1 + rng.Intn(8)
			if it%400 == 0 {
				k = 64 + rng.Intn(200)
			}
			ps := make([]ipt, k)
			for i := range ps {
				ps[i] = ipt{c(), c()}
			}
			px, py := c01Probe(rng, ps, lim)
			if !inDom(px, py) {
				continue
			}
			for _, cf := range idxConfigs {
				args := append([]int64{s, cf[0], cf[1], int64(k)}, encPts(ps)...)
				args = append(args, px, py)
				o := w.Do(23, args, true)
				if o[0] == 1 {
					w.count("line:on")
				} else {
					w.count("line:off")
				}
			}
		}
	}
}

func init() {
	impls[20] = implPolyPip
	impls[21] = implRingPip
	impls[22] = implRectPip
	impls[23] = implLinePip
	streams["C01"] = streamC01
}
