package main

// Additional pair families (C02/C03/C12): polygons with several holes whose
// bounding boxes nest (a C-shaped hole wrapping another), B with holes of its
// own; large rings that actually get a multi-level segment index, probed on the
// index's split lines; long zig-zag lines whose segments all stay in one
// quadtree node.

import "math/rand"

func rectRing(x0, y0, x1, y1 int64) []ipt {
	return []ipt{{x0, y0}, {x1, y0}, {x1, y1}, {x0, y1}}
}

func scaleRing(r []ipt, m, dx, dy int64) []ipt {
	o := make([]ipt, len(r))
	for i, p := range r {
		o[i] = ipt{p.x*m + dx, p.y*m + dy}
	}
	return o
}

// hole templates inside the exterior [0,48]x[0,32]
var holeTemplates = [][]ipt{
	{{4, 4}, {20, 4}, {20, 8}, {8, 8}, {8, 20}, {20, 20}, {20, 24}, {4, 24}}, // C shape, bbox (4,4)-(20,24)
	rectRing(12, 12, 16, 16),                                               // inside the C's cavity
	rectRing(30, 8, 40, 20),
	{{26, 24}, {44, 24}, {44, 30}, {42, 30}, {42, 26}, {28, 26}, {28, 30}, {26, 30}}, // U shape, bbox (26,24)-(44,30)
	rectRing(32, 27, 38, 29),                                                       // inside the U's cavity
	{{24, 2}, {28, 2}, {26, 6}},
}

func genMultiHole(rng *rand.Rand) (A [][]ipt, m, dx, dy int64) {
	m = int64(1) << uint(rng.Intn(3))
	dx, dy = (rng.Int63n(41)-20)*2, (rng.Int63n(41)-20)*2
	ext := rectRing(0, 0, 48, 32)
	if rng.Intn(3) == 0 {
		ext = []ipt{{0, 0}, {48, 0}, {48, 32}, {22, 32}, {22, 28}, {0, 28}}
	}
	A = [][]ipt{closeRing(scaleRing(ext, m, dx, dy))}
	perm := rng.Perm(len(holeTemplates))
	nh := 2 + rng.Intn(3)
	for _, i := range perm[:nh] {
		h := scaleRing(holeTemplates[i], m, dx, dy)
		if rng.Intn(2) == 0 {
			h = reverse(h)
		}
		A = append(A, closeRing(rotate(h, rng.Intn(len(h)))))
	}
	return
}

// B for a multi-hole polygon A: shapes inside a hole, covering a hole, with a
// hole of their own that covers (or misses) a hole of A
func genForMultiHole(rng *rand.Rand, A [][]ipt, kind int64) shp {
	hi := 1 + rng.Intn(len(A)-1)
	mnx, mxx, mny, mxy := bboxOf(A[hi])
	emnx, emxx, emny, emxy := bboxOf(A[0])
	in := func(lo, hi int64) int64 { return lo + rng.Int63n(hi-lo+1) }
	switch kind {
	case 0:
		return shp{kind: 0, pt: ipt{in(mnx, mxx), in(mny, mxy)}}
	case 1:
		if rng.Intn(2) == 0 { // inside the hole's box
			x0, x1, y0, y1 := in(mnx, mxx), in(mnx, mxx), in(mny, mxy), in(mny, mxy)
			return shp{kind: 1, rect: [4]int64{min64(x0, x1), min64(y0, y1), max64(x0, x1), max64(y0, y1)}}
		}
		x0, x1, y0, y1 := in(emnx, emxx), in(emnx, emxx), in(emny, emxy), in(emny, emxy)
		return shp{kind: 1, rect: [4]int64{min64(x0, x1), min64(y0, y1), max64(x0, x1), max64(y0, y1)}}
	case 2:
		k := 2 + rng.Intn(3)
		ln := make([]ipt, k)
		for i := range ln {
			if rng.Intn(3) == 0 {
				ln[i] = ipt{in(emnx, emxx), in(emny, emxy)}
			} else {
				ln[i] = ipt{in(mnx, mxx), in(mny, mxy)}
			}
		}
		return shp{kind: 2, line: ln}
	}
	for try := 0; try < 40; try++ {
		var ext []ipt
		switch rng.Intn(3) {
		case 0: // inside the hole's box
			x0, x1, y0, y1 := in(mnx, mxx), in(mnx, mxx), in(mny, mxy), in(mny, mxy)
			ext = rectRing(min64(x0, x1), min64(y0, y1), max64(x0, x1), max64(y0, y1))
		default:
			x0, x1, y0, y1 := in(emnx, emxx), in(emnx, emxx), in(emny, emxy), in(emny, emxy)
			ext = rectRing(min64(x0, x1), min64(y0, y1), max64(x0, x1), max64(y0, y1))
		}
		P := [][]ipt{closeRing(ext)}
		// holes of B: the box of a hole of A, grown by 0..2, or the hole itself
		nh := rng.Intn(3)
		for h := 0; h < nh; h++ {
			hj := 1 + rng.Intn(len(A)-1)
			a, b, c, d := bboxOf(A[hj])
			g := rng.Int63n(3)
			var hr []ipt
			if rng.Intn(3) == 0 {
				hr = append([]ipt{}, A[hj][:len(A[hj])-1]...)
			} else {
				hr = rectRing(a-g, c-g, b+g, d+g)
			}
			P = append(P, closeRing(hr))
		}
		if validPoly(P) {
			return shp{kind: 3, rings: P}
		}
	}
	return shp{kind: 3, rings: [][]ipt{closeRing(rectRing(mnx, mny, mxx, mxy))}}
}

// a square [0,S]^2 with k points per side (4k segments), optionally rotated start
func bigSquare(S int64, k int, x0, y0 int64, rot int) []ipt {
	var r []ipt
	st := S / int64(k)
	for i := 0; i < k; i++ {
		r = append(r, ipt{x0 + int64(i)*st, y0})
	}
	for i := 0; i < k; i++ {
		r = append(r, ipt{x0 + S, y0 + int64(i)*st})
	}
	for i := 0; i < k; i++ {
		r = append(r, ipt{x0 + S - int64(i)*st, y0 + S})
	}
	for i := 0; i < k; i++ {
		r = append(r, ipt{x0, y0 + S - int64(i)*st})
	}
	return rotate(r, rot%len(r))
}

// large rings with a real (multi-node) index, probed on split lines
func streamBigIndexed(w *W, rng *rand.Rand, n int) {
	for it := 0; it < n; it++ {
		k := []int{16, 17, 20, 32}[rng.Intn(4)]
		S := int64(k) * (1 << uint(rng.Intn(3)))
		if k == 17 {
			S = 17 * 16
		}
		x0, y0 := (rng.Int63n(9)-4)*S/4, (rng.Int63n(9)-4)*S/4
		ext := bigSquare(S, k, x0, y0, rng.Intn(4*k))
		if rng.Intn(2) == 0 {
			ext = reverse(ext)
		}
		A := [][]ipt{closeRing(ext)}
		if rng.Intn(2) == 0 && k%4 == 0 { // a 4k'-point hole in the middle
			hs := S / 2
			h := bigSquare(hs, k, x0+S/4, y0+S/4, rng.Intn(4*k))
			A = append(A, closeRing(h))
		}
		// coordinates on the dyadic split lines of the bounding box
		lv := func() int64 { d := int64(2) << uint(rng.Intn(3)); return S * rng.Int63n(d+1) / d }
		pt := func() ipt {
			if rng.Intn(3) == 0 {
				return ipt{x0 + rng.Int63n(S+1), y0 + lv()}
			}
			return ipt{x0 + lv(), y0 + lv()}
		}
		for kind := int64(0); kind < 4; kind++ {
			var B shp
			switch kind {
			case 0:
				B = shp{kind: 0, pt: pt()}
			case 1:
				p, q := pt(), pt()
				B = shp{kind: 1, rect: [4]int64{min64(p.x, q.x), min64(p.y, q.y), max64(p.x, q.x), max64(p.y, q.y)}}
			case 2:
				B = shp{kind: 2, line: []ipt{pt(), pt(), pt()}[:2+rng.Intn(2)]}
			default:
				p, q := pt(), pt()
				if p.x == q.x || p.y == q.y {
					q = ipt{p.x + S/8 + 1, p.y + S/8 + 1}
				}
				B = shp{kind: 3, rings: [][]ipt{closeRing(rectRing(min64(p.x, q.x), min64(p.y, q.y), max64(p.x, q.x), max64(p.y, q.y)))}}
				if rng.Intn(3) == 0 { // a large ring as B too (ring x ring with both indexed)
					B = shp{kind: 3, rings: [][]ipt{closeRing(bigSquare(S/2, k, x0+lv()/2, y0+lv()/2, 0))}}
				}
			}
			pairDo(w, rng, shp{kind: 3, rings: A}, B, 0, true)
			w.count("family:big-indexed-ring")
		}
	}
	// zig-zag lines: all segments straddle the mid-line of the bounding box
	for _, np := range []int{64, 255, 256, 257, 258, 300} {
		for rep := 0; rep < 2; rep++ {
			ln := make([]ipt, np)
			for i := range ln {
				y := int64(2)
				if i%2 == 1 {
					y = -2
				}
				ln[i] = ipt{int64(2 * i), y}
			}
			if rep == 1 { // the last segment does not straddle
				ln[np-1] = ipt{int64(2*np - 2), ln[np-2].y}
				ln[np-1].x += 0
				if ln[np-1] == ln[np-2] {
					ln[np-1].x++
				}
			}
			x := int64(2 * rng.Intn(np-1))
			probes := []shp{
				{kind: 2, line: []ipt{{x + 1, -3}, {x + 1, 3}}},
				{kind: 2, line: []ipt{{x + 1, 3}, {x + 5, 3}}},
				{kind: 0, pt: ipt{x + 1, 0}},
				{kind: 1, rect: [4]int64{x, -1, x + 1, 1}},
				{kind: 3, rings: [][]ipt{closeRing(rectRing(x, -1, x+2, 1))}},
			}
			for _, B := range probes {
				pairDo(w, rng, shp{kind: 2, line: ln}, B, 0, true)
				w.count("family:zigzag-line")
			}
		}
	}
}

// shapes of 15..24 points inside a rectangular hole: strictly inside, resting on the rim with one
// vertex (their box still inside the closed hole), or crossing it — ringContainsRing's bounding-box
// shortcut (16 points and more) on one side of the threshold and on the other
func streamLongInHole(w *W, rng *rand.Rand, n int) {
	for it := 0; it < n; it++ {
		hx0, hy0 := 10+rng.Int63n(10), 10+rng.Int63n(10)
		hw, hh := 40+rng.Int63n(20), 20+rng.Int63n(20)
		hx1, hy1 := hx0+hw, hy0+hh
		ext := []ipt{{0, 0}, {hx1 + 20, 0}, {hx1 + 20, hy1 + 20}, {0, hy1 + 20}, {0, 0}}
		hole := []ipt{{hx0, hy0}, {hx1, hy0}, {hx1, hy1}, {hx0, hy1}, {hx0, hy0}}
		if rng.Intn(3) == 0 { // a hexagonal (convex, not rectangular) hole
			hole = []ipt{{hx0, hy0}, {hx1, hy0}, {hx1 + 5, (hy0 + hy1) / 2}, {hx1, hy1}, {hx0, hy1}, {hx0 - 5, (hy0 + hy1) / 2}, {hx0, hy0}}
		}
		A := shp{kind: 3, rings: [][]ipt{ext, hole}}
		for _, np := range []int{15, 16, 17, 24} {
			mode := rng.Intn(4) // 0 strictly inside, 1 one vertex on the bottom rim, 2 one vertex on the left rim, 3 one vertex outside
			zig := make([]ipt, np)
			for i := range zig {
				x := hx0 + 2 + int64(i)*(hw-4)/int64(np-1)
				y := hy0 + 3 + int64(i%2)*(hh-6)
				zig[i] = ipt{x, y}
			}
			k := 1 + rng.Intn(np-2)
			switch mode {
			case 1:
				zig[k].y = hy0
			case 2:
				zig[0].x = hx0
			case 3:
				zig[k].y = hy0 - 2
			}
			pairDo(w, rng, A, shp{kind: 2, line: zig}, 0, it%4 == 0)
			// the same vertices as a polygon: close the zig-zag through a point below its start
			ring := append(append([]ipt{}, zig...), zig[0])
			if validPoly([][]ipt{ring}) {
				pairDo(w, rng, A, shp{kind: 3, rings: [][]ipt{ring}}, 0, false)
			}
			w.count("family:long-in-hole")
		}
	}
}

// a flat rectangle whose two ends lie on a line that bends between them, on a straight stretch, or
// with one end off the line
func streamFlatRectOnLine(w *W, rng *rand.Rand, n int) {
	for it := 0; it < n; it++ {
		x0, y0 := rng.Int63n(20)-10, rng.Int63n(20)-10
		d := 2 + 2*rng.Int63n(6)
		var ln []ipt
		var r [4]int64
		if rng.Intn(2) == 0 { // horizontal flat rectangle
			r = [4]int64{x0, y0, x0 + d, y0}
			switch rng.Intn(3) {
			case 0: // bent: leaves the rectangle's line between its ends
				ln = []ipt{{x0, y0}, {x0 + d/2, y0 + 3}, {x0 + d, y0}}
			case 1: // straight, in two pieces
				ln = []ipt{{x0 - 1, y0}, {x0 + d/2, y0}, {x0 + d + 1, y0}}
			default: // bent away after covering only a part
				ln = []ipt{{x0, y0}, {x0 + d/2, y0}, {x0 + d, y0 + 2}}
			}
		} else {
			r = [4]int64{x0, y0, x0, y0 + d}
			switch rng.Intn(3) {
			case 0:
				ln = []ipt{{x0, y0}, {x0 - 3, y0 + d/2}, {x0, y0 + d}}
			case 1:
				ln = []ipt{{x0, y0 - 1}, {x0, y0 + d/2}, {x0, y0 + d + 1}}
			default:
				ln = []ipt{{x0, y0}, {x0, y0 + d/2}, {x0 + 2, y0 + d}}
			}
		}
		pairDo(w, rng, shp{kind: 2, line: ln}, shp{kind: 1, rect: r}, 0, false)
		pairDo(w, rng, shp{kind: 1, rect: r}, shp{kind: 2, line: ln}, 0, false)
		w.count("family:flat-rect-on-line")
	}
}

func streamMultiHole(w *W, rng *rand.Rand, n int) {
	for it := 0; it < n; it++ {
		A, _, _, _ := genMultiHole(rng)
		if !validPoly(A) {
			w.count("family:multi-hole-invalid-skipped")
			continue
		}
		for kind := int64(0); kind < 4; kind++ {
			reps := 1
			if kind == 3 {
				reps = 3
			}
			for r := 0; r < reps; r++ {
				B := genForMultiHole(rng, A, kind)
				pairDo(w, rng, shp{kind: 3, rings: A}, B, 0, it%8 == 0)
				w.count("family:multi-hole")
			}
		}
	}
}
