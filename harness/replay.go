package main

import (
	"fmt"
	"strings"
)

func doReplay(line string) {
	tag, args, ok := parseCase(line)
	if !ok {
		fmt.Println("cannot parse case:", line)
		return
	}
	if tag == 70 || tag == 73 || tag == 74 {
		doc, _ := decDoc(args[3:])
		fmt.Printf("TEXT %q\n", renderText(doc, args[2]))
	}
	outs := impls[tag](args)
	parts := make([]string, len(outs))
	for i, o := range outs {
		parts[i] = fmt.Sprint(o)
	}
	fmt.Printf("%s | %s\n", strings.TrimSpace(line), strings.Join(parts, " "))
}
