package main

// Generators of GeoJSON documents (as trees with raw lexemes), structured
// mutations of them, and non-JSON texts; streams for C06 / C07 / C08 / C17.

import (
	"encoding/json"
	"math/rand"
	"strconv"
	"strings"
)

func jstr(s string) *jnode { return &jnode{kind: 's', raw: s, dec: s} }
func jarr(items ...*jnode) *jnode {
	return &jnode{kind: 'a', arr: items}
}
func jobj() *jnode { return &jnode{kind: 'o'} }
func (o *jnode) set(k string, v *jnode) *jnode {
	o.keys = append(o.keys, keyNode(k))
	o.vals = append(o.vals, v)
	return o
}

func keyNode(k string) *jnode { return &jnode{kind: 's', raw: k, dec: k} }

// escaped spelling of a key: some characters as \uXXXX
func escapeKey(k string, rng *rand.Rand) *jnode {
	var sb strings.Builder
	for i := 0; i < len(k); i++ {
		if rng.Intn(3) == 0 {
			sb.WriteString("\\u00" + strconv.FormatInt(int64(k[i])+256, 16)[1:])
		} else {
			sb.WriteByte(k[i])
		}
	}
	return &jnode{kind: 's', raw: sb.String(), dec: k}
}

// a lexeme whose float64 value is exactly k * 2^-s
func numLex(k, s int64, rng *rand.Rand) *jnode {
	f := fl(k, s)
	plain := strconv.FormatFloat(f, 'f', -1, 64)
	raw := plain
	switch rng.Intn(8) {
	case 0: // trailing zeros
		if strings.Contains(plain, ".") {
			raw = plain + "0"
		} else {
			raw = plain + ".0"
		}
	case 1: // exponent forms
		neg := strings.HasPrefix(plain, "-")
		d := strings.TrimPrefix(plain, "-")
		ip, fp := d, ""
		if i := strings.IndexByte(d, '.'); i >= 0 {
			ip, fp = d[:i], d[i+1:]
		}
		digits := strings.TrimLeft(ip+fp, "0")
		if digits == "" {
			raw = "0e5"
		} else {
			raw = digits + "e-" + strconv.Itoa(len(fp))
			if len(fp) == 0 {
				raw = digits + "E+0"
			}
		}
		if neg {
			raw = "-" + raw
		}
	case 2:
		raw = plain + "e0"
	}
	return &jnode{kind: '0', raw: raw, num: f}
}

type jgen struct {
	rng    *rand.Rand
	s      int64
	exotic bool // numbers outside the model's domain (impl-only stream)
}

func (g *jgen) coord(lim int64) int64 {
	one := int64(1) << uint(g.s)
	switch g.rng.Intn(12) {
	case 0:
		return lim * one
	case 1:
		return -lim*one - 1 - g.rng.Int63n(40)*one // out of range
	case 2:
		return lim*one + 1 + g.rng.Int63n(400)*one
	}
	return g.rng.Int63n(2*lim*one+1) - lim*one
}

var exoticNums = []string{"-0", "-0.0", "-0e0", "0.1", "-0.3", "1e-7", "123456789.123456789", "1.7976931348623157e308", "5e-324",
	"0.30000000000000004", "100.00000000000001", "-179.99999999999997", "1E2", "2.5e+1", "89.99999999", "-0.000"}

func (g *jgen) exoticNum() *jnode {
	raw := exoticNums[g.rng.Intn(len(exoticNums))]
	f, _ := strconv.ParseFloat(raw, 64)
	return &jnode{kind: '0', raw: raw, num: f}
}

func (g *jgen) position(dims int, x, y int64) *jnode {
	p := jarr(numLex(x, g.s, g.rng), numLex(y, g.s, g.rng))
	if g.exotic {
		for i := range p.arr {
			if g.rng.Intn(2) == 0 {
				p.arr[i] = g.exoticNum()
			}
		}
	}
	for i := 2; i < dims; i++ {
		p.arr = append(p.arr, numLex(g.rng.Int63n(2000)-1000, g.s, g.rng))
	}
	return p
}

func (g *jgen) dims() int {
	switch g.rng.Intn(6) {
	case 0:
		return 3
	case 1:
		return 4
	}
	return 2
}

func (g *jgen) small() bool { return g.rng.Intn(3) != 0 }

func (g *jgen) xy() (int64, int64) {
	if g.small() {
		return g.rng.Int63n(81) - 40, g.rng.Int63n(81) - 40
	}
	return g.coord(180), g.coord(90)
}

func (g *jgen) pointCoords() *jnode {
	x, y := g.xy()
	return g.position(g.dims(), x, y)
}

func (g *jgen) lineCoords(mixed bool) *jnode {
	n := 2 + g.rng.Intn(5)
	d := g.dims()
	a := jarr()
	for i := 0; i < n; i++ {
		x, y := g.xy()
		di := d
		if mixed && g.rng.Intn(2) == 0 {
			di = 2 + g.rng.Intn(3)
		}
		a.arr = append(a.arr, g.position(di, x, y))
	}
	return a
}

func (g *jgen) ringPts() []ipt {
	switch g.rng.Intn(4) {
	case 0: // perfect rectangle, counter clockwise from the minimum corner
		x, y := g.rng.Int63n(40)-20, g.rng.Int63n(40)-20
		w, h := 1+g.rng.Int63n(20), 1+g.rng.Int63n(20)
		r := []ipt{{x, y}, {x + w, y}, {x + w, y + h}, {x, y + h}, {x, y}}
		switch g.rng.Intn(6) {
		case 0, 3: // almost a rectangle: one vertex displaced along one axis (a trapezoid, a dart, ...)
			i := g.rng.Intn(4)
			alongX := g.rng.Intn(2) == 0
			if g.rng.Intn(3) == 0 { // the last corner, sideways: every other clause of the "perfect rectangle" test still holds
				i, alongX = 3, true
			}
			d := g.rng.Int63n(2*w+1) - w
			if d == 0 {
				d = 1
			}
			if alongX {
				r[i].x += d
			} else {
				r[i].y += d
			}
			r[4] = r[0]
		case 1: // the same rectangle started at another corner
			k := 1 + g.rng.Intn(3)
			q := append(append([]ipt{}, r[k:4]...), r[:k]...)
			r = append(q, q[0])
		case 2: // clockwise
			r = []ipt{r[0], r[3], r[2], r[1], r[0]}
		}
		return r
	case 1:
		return closeRing(genRing(g.rng, 16))
	}
	n := 3 + g.rng.Intn(5)
	r := make([]ipt, n)
	for i := range r {
		x, y := g.xy()
		r[i] = ipt{x, y}
	}
	return closeRing(r)
}

func (g *jgen) polyCoords(mixed bool) *jnode {
	nr := 1
	if g.rng.Intn(3) == 0 {
		nr = 2 + g.rng.Intn(2)
	}
	d := g.dims()
	a := jarr()
	bad := -1
	if g.rng.Intn(6) == 0 {
		bad = g.rng.Intn(nr) // one ring (the exterior or a hole) gets an out-of-range vertex
	}
	for r := 0; r < nr; r++ {
		ring := jarr()
		pts := g.ringPts()
		if r == bad {
			one := int64(1) << uint(g.s)
			pts[1] = ipt{pts[1].x, (91 + g.rng.Int63n(5)) * one}
		}
		for _, p := range pts {
			di := d
			if mixed && g.rng.Intn(3) == 0 {
				di = 2 + g.rng.Intn(3)
			}
			ring.arr = append(ring.arr, g.position(di, p.x, p.y))
		}
		// the closing position must repeat the first one's x,y (z may differ)
		a.arr = append(a.arr, ring)
	}
	return a
}

func (g *jgen) anyValue(depth int) *jnode {
	switch r := g.rng.Intn(9); {
	case r == 0:
		return &jnode{kind: 'n', raw: "null"}
	case r == 1:
		return &jnode{kind: 't', raw: "true"}
	case r == 2:
		return &jnode{kind: 'f', raw: "false"}
	case r == 3:
		return numLex(g.rng.Int63n(4000)-2000, g.s, g.rng)
	case r == 4:
		return jstr([]string{"", "a b", "x\\n", "\\u00e9", "Circle", "km", "q\\\"q", "{not json}"}[g.rng.Intn(8)])
	case r <= 6 && depth > 0:
		a := jarr()
		for i := g.rng.Intn(4); i > 0; i-- {
			a.arr = append(a.arr, g.anyValue(depth-1))
		}
		return a
	case depth > 0:
		o := jobj()
		for i := g.rng.Intn(4); i > 0; i-- {
			o.set([]string{"a", "b", "type", "name", "coordinates", "k k"}[g.rng.Intn(6)], g.anyValue(depth-1))
		}
		return o
	}
	return jstr("leaf")
}

// foreign members: id, bbox, properties, others
func (g *jgen) foreign(o *jnode, feature bool) {
	if g.rng.Intn(2) == 0 {
		return
	}
	for i := g.rng.Intn(4); i >= 0; i-- {
		switch g.rng.Intn(6) {
		case 0:
			o.set("id", g.anyValue(0))
		case 1:
			o.set("bbox", jarr(numLex(-1, 0, g.rng), numLex(-2, 0, g.rng), numLex(3, 0, g.rng), numLex(4, 0, g.rng)))
		case 2:
			o.set("properties", g.anyValue(2))
		case 3:
			k := escapeKey([]string{"id", "properties", "title", "bbox"}[g.rng.Intn(4)], g.rng)
			o.keys = append(o.keys, k)
			o.vals = append(o.vals, g.anyValue(1))
		case 4:
			if g.rng.Intn(3) == 0 { // keys with escaped control characters / DEL
				k := [][2]string{{"a\\u0001b", "a\x01b"}, {"\\u0000", "\x00"}, {"k\\u007f", "k\x7f"}, {"t\\tb", "t\tb"}, {"\\u000b", "\x0b"}}[g.rng.Intn(5)]
				o.keys = append(o.keys, &jnode{kind: 's', raw: k[0], dec: k[1]})
				o.vals = append(o.vals, g.anyValue(1))
			} else {
				o.set("crs", g.anyValue(2))
			}
		default:
			o.set([]string{"name", "crs", "x", "feature", "Type"}[g.rng.Intn(5)], g.anyValue(2))
		}
	}
}

func (g *jgen) geometry(depth int, mixed bool) *jnode {
	o := jobj()
	switch r := g.rng.Intn(8); {
	case r == 0:
		o.set("type", jstr("Point")).set("coordinates", g.pointCoords())
		if g.rng.Intn(8) == 0 { // null ordinates (points only)
			c := o.vals[1]
			c.arr[g.rng.Intn(len(c.arr))] = &jnode{kind: 'n', raw: "null"}
		}
	case r == 1:
		o.set("type", jstr("LineString")).set("coordinates", g.lineCoords(mixed))
	case r == 2:
		o.set("type", jstr("Polygon")).set("coordinates", g.polyCoords(mixed))
	case r == 3:
		a := jarr()
		for i := g.rng.Intn(4); i > 0; i-- {
			a.arr = append(a.arr, g.pointCoords())
		}
		o.set("type", jstr("MultiPoint")).set("coordinates", a)
	case r == 4:
		a := jarr()
		for i := g.rng.Intn(3); i > 0; i-- {
			a.arr = append(a.arr, g.lineCoords(mixed))
		}
		o.set("type", jstr("MultiLineString")).set("coordinates", a)
	case r == 5:
		a := jarr()
		for i := g.rng.Intn(3); i > 0; i-- {
			a.arr = append(a.arr, g.polyCoords(mixed))
		}
		o.set("type", jstr("MultiPolygon")).set("coordinates", a)
	case depth > 0:
		a := jarr()
		for i := g.rng.Intn(4); i > 0; i-- {
			a.arr = append(a.arr, g.geometry(depth-1, mixed))
		}
		o.set("type", jstr("GeometryCollection")).set("geometries", a)
	default:
		o.set("type", jstr("Point")).set("coordinates", g.pointCoords())
	}
	g.foreign(o, false)
	return o
}

func (g *jgen) feature(depth int, mixed bool) *jnode {
	o := jobj().set("type", jstr("Feature")).set("geometry", g.geometry(depth, mixed))
	g.foreign(o, true)
	return o
}

func (g *jgen) circle() *jnode {
	x, y := g.xy()
	geom := jobj().set("type", jstr("Point")).set("coordinates", g.position(2+g.rng.Intn(2), x, y))
	props := jobj().set("type", jstr("Circle"))
	switch g.rng.Intn(5) {
	case 0:
	case 1:
		props.set("radius", numLex(g.rng.Int63n(5000)-10, g.s, g.rng))
	default:
		props.set("radius", numLex(1+g.rng.Int63n(100000), g.s, g.rng))
	}
	switch g.rng.Intn(6) {
	case 0:
		props.set("radius_units", jstr("km"))
	case 1:
		props.set("radius_units", jstr("m"))
	case 2:
		props.set("radius_units", jstr("mi"))
	case 3:
		props.set("radius_units", &jnode{kind: 'n', raw: "null"})
	}
	if g.rng.Intn(3) == 0 {
		props.set("name", g.anyValue(1))
	}
	o := jobj().set("type", jstr("Feature")).set("geometry", geom).set("properties", props)
	if g.rng.Intn(3) == 0 {
		o.set("id", jstr("c1"))
	}
	return o
}

// a thin zig-zag band polygon / line with np positions: every segment straddles the mid-line
func (g *jgen) zigzag(np int, poly bool) *jnode {
	saw := func(i int) int64 {
		if i%2 == 0 {
			return 2
		}
		return -2
	}
	a := jarr()
	if poly {
		half := (np - 1) / 2
		var pts []ipt
		for i := 0; i <= half; i++ {
			pts = append(pts, ipt{int64(i), saw(i)})
		}
		for i := half - 1; i >= 1 && len(pts) < np-1; i-- {
			pts = append(pts, ipt{int64(i), saw(i) + 1})
		}
		pts = append(pts, pts[0])
		for _, p := range pts {
			a.arr = append(a.arr, g.position(2, p.x, p.y))
		}
		return jobj().set("type", jstr("Polygon")).set("coordinates", jarr(a))
	}
	for i := 0; i < np; i++ {
		a.arr = append(a.arr, g.position(2, int64(i), saw(i)))
	}
	return jobj().set("type", jstr("LineString")).set("coordinates", a)
}

// shapes with more than 32 segments (so a quadtree node splits) whose segment boxes start exactly on
// the split lines of the tree at several levels: staircase, subdivided square, saw-tooth, subdivided L
func (g *jgen) bigShape() *jnode {
	ox, oy := g.rng.Int63n(17)-8, g.rng.Int63n(17)-8
	var pts []ipt
	switch g.rng.Intn(4) {
	case 0:
		k := []int64{32, 64, 40}[g.rng.Intn(3)]
		for i := int64(0); i < k; i++ {
			pts = append(pts, ipt{i, i}, ipt{i + 1, i})
		}
		pts = append(pts, ipt{k, k}, ipt{0, k}, ipt{0, 0})
	case 1:
		m := []int64{16, 32, 20}[g.rng.Intn(3)]
		for i := int64(0); i < m; i++ {
			pts = append(pts, ipt{i, 0})
		}
		for i := int64(0); i < m; i++ {
			pts = append(pts, ipt{m, i})
		}
		for i := m; i > 0; i-- {
			pts = append(pts, ipt{i, m})
		}
		for i := m; i > 0; i-- {
			pts = append(pts, ipt{0, i})
		}
		pts = append(pts, ipt{0, 0})
	case 2:
		w, h := []int64{64, 128, 80}[g.rng.Intn(3)], []int64{64, 32, 16}[g.rng.Intn(3)]
		pts = append(pts, ipt{0, 0}, ipt{w, 0}, ipt{w, h})
		for x := w - 1; x > 0; x-- {
			if (w-x)%2 == 1 {
				pts = append(pts, ipt{x, h / 2})
			} else {
				pts = append(pts, ipt{x, h})
			}
		}
		pts = append(pts, ipt{0, h}, ipt{0, 0})
	default:
		m := []int64{16, 8, 32}[g.rng.Intn(3)]
		corners := []ipt{{0, 0}, {2 * m, 0}, {2 * m, m}, {m, m}, {m, 2 * m}, {0, 2 * m}, {0, 0}}
		for i := 0; i+1 < len(corners); i++ {
			a, b := corners[i], corners[i+1]
			dx, dy := int64(sgn(b.x-a.x)), int64(sgn(b.y-a.y))
			for q := a; q != b; q = (ipt{q.x + dx, q.y + dy}) {
				pts = append(pts, q)
			}
		}
		pts = append(pts, ipt{0, 0})
	}
	a := jarr()
	for _, q := range pts {
		a.arr = append(a.arr, g.position(2, q.x+ox, q.y+oy))
	}
	if g.rng.Intn(3) == 0 {
		a.arr = a.arr[:len(a.arr)-1]
		return jobj().set("type", jstr("LineString")).set("coordinates", a)
	}
	return jobj().set("type", jstr("Polygon")).set("coordinates", jarr(a))
}

func (g *jgen) document(mixed bool) *jnode {
	var o *jnode
	if g.rng.Intn(60) == 0 {
		return g.bigShape()
	}
	if g.rng.Intn(150) == 0 {
		return g.zigzag([]int{256, 257, 258, 65}[g.rng.Intn(4)], g.rng.Intn(2) == 0)
	}
	switch r := g.rng.Intn(10); {
	case r < 5:
		o = g.geometry(2, mixed)
	case r < 7:
		o = g.feature(2, mixed)
	case r == 7:
		o = g.circle()
	default:
		a := jarr()
		for i := g.rng.Intn(4); i > 0; i-- {
			if g.rng.Intn(4) == 0 {
				a.arr = append(a.arr, g.circle())
			} else {
				a.arr = append(a.arr, g.feature(1, mixed))
			}
		}
		o = jobj().set("type", jstr("FeatureCollection")).set("features", a)
		g.foreign(o, false)
	}
	g.scramble(o)
	return o
}

// member order, duplicated and escaped reserved keys
func (g *jgen) scramble(o *jnode) {
	if o.kind != 'o' {
		return
	}
	if g.rng.Intn(3) == 0 {
		g.rng.Shuffle(len(o.keys), func(i, j int) {
			o.keys[i], o.keys[j] = o.keys[j], o.keys[i]
			o.vals[i], o.vals[j] = o.vals[j], o.vals[i]
		})
	}
	if g.rng.Intn(6) == 0 && len(o.keys) > 0 { // duplicate a reserved member in front, with another value: the last one counts
		i := g.rng.Intn(len(o.keys))
		switch o.keys[i].dec {
		case "type":
			o.keys = append([]*jnode{keyNode("type")}, o.keys...)
			o.vals = append([]*jnode{jstr([]string{"Point", "Nope", "Polygon"}[g.rng.Intn(3)])}, o.vals...)
		case "coordinates":
			o.keys = append([]*jnode{keyNode("coordinates")}, o.keys...)
			o.vals = append([]*jnode{jarr(numLex(1, 0, g.rng))}, o.vals...)
		}
	}
	if g.rng.Intn(8) == 0 {
		for i := range o.keys {
			switch o.keys[i].dec {
			case "type", "coordinates", "geometry", "features", "geometries":
				if g.rng.Intn(2) == 0 {
					o.keys[i] = escapeKey(o.keys[i].dec, g.rng)
				}
			}
		}
	}
	for i, k := range o.keys {
		switch k.dec {
		case "geometry":
			g.scramble(o.vals[i])
		case "features", "geometries":
			for _, c := range o.vals[i].arr {
				g.scramble(c)
			}
		}
	}
}

// ---- structured mutations (C07's listed defects and wrong kinds at every level) ----

func cloneNode(n *jnode) *jnode {
	c := *n
	c.arr = nil
	c.keys = nil
	c.vals = nil
	for _, x := range n.arr {
		c.arr = append(c.arr, cloneNode(x))
	}
	for i := range n.keys {
		c.keys = append(c.keys, cloneNode(n.keys[i]))
		c.vals = append(c.vals, cloneNode(n.vals[i]))
	}
	return &c
}

// all nodes of the tree with their parents
type slot struct {
	parent *jnode
	idx    int
	isVal  bool
}

func collectSlots(n *jnode, out *[]slot) {
	for i, c := range n.arr {
		*out = append(*out, slot{n, i, false})
		collectSlots(c, out)
	}
	for i, c := range n.vals {
		*out = append(*out, slot{n, i, true})
		collectSlots(c, out)
	}
}

func (g *jgen) mutate(doc *jnode) (*jnode, string) {
	d := cloneNode(doc)
	var slots []slot
	collectSlots(d, &slots)
	if len(slots) == 0 {
		return d, "none"
	}
	sl := slots[g.rng.Intn(len(slots))]
	get := func() *jnode {
		if sl.isVal {
			return sl.parent.vals[sl.idx]
		}
		return sl.parent.arr[sl.idx]
	}
	put := func(n *jnode) {
		if sl.isVal {
			sl.parent.vals[sl.idx] = n
		} else {
			sl.parent.arr[sl.idx] = n
		}
	}
	switch g.rng.Intn(8) {
	case 0: // wrong JSON kind
		put(g.anyValue(1))
		return d, "wrong-kind"
	case 1: // drop a member / an item
		if sl.isVal {
			sl.parent.keys = append(sl.parent.keys[:sl.idx], sl.parent.keys[sl.idx+1:]...)
			sl.parent.vals = append(sl.parent.vals[:sl.idx], sl.parent.vals[sl.idx+1:]...)
			return d, "member-dropped"
		}
		sl.parent.arr = append(sl.parent.arr[:sl.idx], sl.parent.arr[sl.idx+1:]...)
		return d, "item-dropped"
	case 2: // truncate an array
		n := get()
		if n.kind == 'a' && len(n.arr) > 0 {
			n.arr = n.arr[:g.rng.Intn(len(n.arr))]
			return d, "array-truncated"
		}
	case 3: // unclose a ring / move a point
		n := get()
		if n.kind == 'a' && len(n.arr) >= 2 && n.arr[0].kind == '0' {
			n.arr[0] = numLex(12345, g.s, g.rng)
			return d, "ordinate-changed"
		}
	case 4: // non-numeric ordinate
		n := get()
		if n.kind == '0' {
			put([]*jnode{jstr("1"), {kind: 't', raw: "true"}, {kind: 'n', raw: "null"}, jarr(), jobj()}[g.rng.Intn(5)])
			return d, "non-numeric"
		}
	case 5: // unknown / non-string type
		if sl.isVal && sl.parent.keys[sl.idx].dec == "type" {
			put([]*jnode{jstr("Pointy"), jstr("point"), numLex(1, 0, g.rng), {kind: 'n', raw: "null"}, jstr("")}[g.rng.Intn(5)])
			return d, "bad-type"
		}
	case 6: // duplicate an item (an extra position, an extra ordinate)
		if !sl.isVal {
			sl.parent.arr = append(sl.parent.arr, cloneNode(get()))
			return d, "item-duplicated"
		}
	}
	// default: empty a container
	n := get()
	if n.kind == 'a' {
		n.arr = nil
		return d, "array-emptied"
	}
	put(&jnode{kind: 'n', raw: "null"})
	return d, "nulled"
}

func streamJSON(w *W, rng *rand.Rand, tier string, which string) {
	n := 2500
	if tier == "thorough" {
		n = 40000
	}
	skipped := 0
	var fixed []*jnode
	{ // deterministic members of every run: long zig-zags (one quadtree node holding segments 0..255),
		// and a MultiPolygon whose hole, not its exterior, is out of range
		g := &jgen{rng: rng, s: 1}
		for _, np := range []int{257, 256, 258} {
			fixed = append(fixed, g.zigzag(np, false), g.zigzag(np, true))
		}
		for _, lat := range []int64{85, 95} {
			ext := jarr(g.position(2, 0, 0), g.position(2, 100, 0), g.position(2, 100, 80), g.position(2, 0, 80), g.position(2, 0, 0))
			hole := jarr(g.position(2, 10, 10), g.position(2, 20, 10), g.position(2, 20, lat), g.position(2, 10, 10))
			fixed = append(fixed, jobj().set("type", jstr("MultiPolygon")).set("coordinates", jarr(jarr(ext, hole))))
			fixed = append(fixed, jobj().set("type", jstr("Polygon")).set("coordinates", jarr(ext, hole)))
		}
	}
	tag := map[string]int{"C07": 70, "C06": 73, "C08": 74, "C17p": 76}[which]
	for it := 0; it < n; it++ {
		g := &jgen{rng: rng, s: int64(rng.Intn(4))}
		doc := g.document(rng.Intn(5) == 0)
		if it < len(fixed) {
			g.s = 1
			doc = fixed[it]
		}
		docs := []*jnode{doc}
		labels := []string{"grammar"}
		for m := rng.Intn(3); m > 0; m-- {
			md, lab := g.mutate(doc)
			docs = append(docs, md)
			labels = append(labels, "mutant:"+lab)
		}
		for i, d := range docs {
			bits := int64(0)
			if which != "C07" {
				bits = int64(rng.Intn(16))
			}
			bits |= int64(rng.Intn(16)) << 4
			ws := int64(0)
			if rng.Intn(3) != 0 {
				ws = 1 + rng.Int63n(1<<30)
			}
			// the independent path: render, tokenize again, encode for the model
			text := renderText(d, ws)
			tok := tokenize(text)
			if (tok != nil) != json.Valid([]byte(text)) {
				w.count("TOKENIZER-DISAGREES-WITH-encoding/json")
				continue
			}
			if tok == nil {
				w.count("generator-produced-invalid-json")
				continue
			}
			enc, ok := encDoc(tok, g.s)
			if !ok {
				skipped++
				continue
			}
			args := append([]int64{g.s, bits, ws}, enc...)
			out := w.Do(tag, args, true)
			w.count(labels[i])
			if len(out) == 1 {
				w.count("rejected:code" + strconv.FormatInt(out[0], 10))
			} else {
				w.count("accepted")
			}
		}
	}
	w.hist["outside-model-domain-skipped"] = skipped
	if which == "C06" || which == "C08" || which == "C17p" {
		streamExotic(w, rng, n/3)
	}
	// texts that are not one JSON object
	g := &jgen{rng: rng, s: 0}
	for it := 0; it < n/4; it++ {
		text := renderText(g.document(false), 1+rng.Int63n(1<<30))
		var bad string
		switch rng.Intn(9) {
		case 0:
			bad = text + []string{"x", "{}", ",", "]", "null"}[rng.Intn(5)]
		case 1:
			bad = text[:rng.Intn(len(text))]
		case 2:
			bad = []string{"", " ", "\n\t", "null", "[]", "\"Point\"", "12", "[{\"type\":\"Point\",\"coordinates\":[1,2]}]", "\x00{}", "\x01{}", "x{}"}[rng.Intn(11)]
		case 3:
			if rng.Intn(2) == 0 { // whitespace-like bytes that are not JSON whitespace
				j := []string{"\f", "\v", "\u00a0", "\u0085", "\u2028", "\u3000", "\ufeff"}[rng.Intn(7)]
				bad = []string{j + text, text + j, j + text + j}[rng.Intn(3)]
			} else {
				bad = strings.Replace(text, ":", " ", 1)
			}
		case 4:
			bad = strings.Replace(text, "\"", "'", 2)
		case 5:
			bad = strings.Replace(text, ",", ",,", 1)
		case 6:
			bad = strings.Replace(text, "[", "[,", 1)
		case 7:
			bad = strings.Replace(text, "1", "01", 1)
		default:
			i := rng.Intn(len(text))
			bad = text[:i] + string([]byte{byte(rng.Intn(256))}) + text[i:]
		}
		tok := tokenize(bad)
		if (tok != nil) != json.Valid([]byte(bad)) {
			w.count("TOKENIZER-DISAGREES-WITH-encoding/json")
			continue
		}
		if tok != nil && tok.kind == 'o' {
			continue // still one JSON object: not this stream's business
		}
		args := make([]int64, len(bad))
		for i := 0; i < len(bad); i++ {
			args[i] = int64(bad[i])
		}
		w.Do(71, args, true)
		if tok == nil {
			w.count("text:invalid-json")
		} else {
			w.count("text:json-but-not-object")
		}
	}
}

// documents whose numbers lie outside the model's domain: implementation-only flags (tag 75)
func streamExotic(w *W, rng *rand.Rand, n int) {
	for it := 0; it < n; it++ {
		g := &jgen{rng: rng, s: 0, exotic: true}
		doc := g.document(false)
		text := renderText(doc, int64(rng.Intn(2))*(1+rng.Int63n(1<<30)))
		if tokenize(text) == nil {
			continue
		}
		args := []int64{int64(rng.Intn(16)) | int64(rng.Intn(16))<<4}
		for i := 0; i < len(text); i++ {
			args = append(args, int64(text[i]))
		}
		out := w.Do(75, args, true)
		if len(out) == 1 && out[0] == 1 {
			w.count("exotic:ok-or-rejected")
		} else {
			w.count("exotic:FLAG-FAILED")
		}
	}
}

func init() {
	for _, p := range []string{"C06", "C07", "C08", "C17p"} {
		p := p
		streams[p] = func(w *W, rng *rand.Rand, tier string) { streamJSON(w, rng, tier, p) }
	}
}
