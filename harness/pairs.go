package main

// Geometry-level pairs (properties C02, C03, C12): shapes, exact validity
// filters, constructive contact generators, and the implementation side of tag 50.

import (
	"math/rand"

	"github.com/tidwall/geojson/geometry"
)

type shp struct {
	kind  int64 // 0 point, 1 rect, 2 line, 3 poly
	pt    ipt
	rect  [4]int64
	line  []ipt
	rings [][]ipt
}

func (s shp) enc() []int64 {
	switch s.kind {
	case 0:
		return []int64{0, s.pt.x, s.pt.y}
	case 1:
		return []int64{1, s.rect[0], s.rect[1], s.rect[2], s.rect[3]}
	case 2:
		return append([]int64{2, int64(len(s.line))}, encPts(s.line)...)
	}
	return append([]int64{3}, encRings(s.rings)...)
}

func decShape(a []int64) (shp, []int64) {
	switch a[0] {
	case 0:
		return shp{kind: 0, pt: ipt{a[1], a[2]}}, a[3:]
	case 1:
		return shp{kind: 1, rect: [4]int64{a[1], a[2], a[3], a[4]}}, a[5:]
	case 2:
		n := int(a[1])
		return shp{kind: 2, line: decPts(a[2 : 2+2*n])}, a[2+2*n:]
	}
	rings, rest := decRings(a[1:])
	return shp{kind: 3, rings: rings}, rest
}

func (s shp) geom(sc int64, opts *geometry.IndexOptions) geometry.Geometry {
	switch s.kind {
	case 0:
		return mkPt(s.pt.x, s.pt.y, sc)
	case 1:
		return geometry.Rect{Min: mkPt(s.rect[0], s.rect[1], sc), Max: mkPt(s.rect[2], s.rect[3], sc)}
	case 2:
		return geometry.NewLine(toPoints(s.line, sc), opts)
	}
	return mkPoly(s.rings, sc, opts)
}

func gIntersects(a, b geometry.Geometry) bool {
	switch o := b.(type) {
	case geometry.Point:
		return a.IntersectsPoint(o)
	case geometry.Rect:
		return a.IntersectsRect(o)
	case *geometry.Line:
		return a.IntersectsLine(o)
	case *geometry.Poly:
		return a.IntersectsPoly(o)
	}
	panic("kind")
}

func gContains(a, b geometry.Geometry) bool {
	switch o := b.(type) {
	case geometry.Point:
		return a.ContainsPoint(o)
	case geometry.Rect:
		return a.ContainsRect(o)
	case *geometry.Line:
		return a.ContainsLine(o)
	case *geometry.Poly:
		return a.ContainsPoly(o)
	}
	panic("kind")
}

// index options used for pair cases: encoded in the grid-exponent argument's
// neighbour: args = s valid|cfg ...  (valid in bit 0, index config in bits 1..3)
var pairCfgs = []*geometry.IndexOptions{noIndex, idxOpts(1, 1), idxOpts(2, 1), idxOpts(2, 64)}

// tag 50: args = s flags shapeA shapeB ; flags = valid + 2*cfgA + 8*d, B's index configuration is
// (cfgA + d) mod 4: the two operands need not be indexed alike
func implPair(a []int64) []int64 {
	sc := a[0]
	ca := (a[1] >> 1) & 3
	optsA, optsB := pairCfgs[ca], pairCfgs[(ca+(a[1]>>3)&3)&3]
	sa, rest := decShape(a[2:])
	sb, _ := decShape(rest)
	A, B := sa.geom(sc, optsA), sb.geom(sc, optsB)
	return bools(gIntersects(A, B), gIntersects(B, A), gContains(A, B), gContains(B, A))
}

// ---------- exact integer geometry for validity filters ----------

func icross(a, b, c ipt) int64 { return (b.x-a.x)*(c.y-a.y) - (b.y-a.y)*(c.x-a.x) }

func sgn(v int64) int {
	if v > 0 {
		return 1
	}
	if v < 0 {
		return -1
	}
	return 0
}

func onSeg(a, b, p ipt) bool {
	return icross(a, b, p) == 0 && min64(a.x, b.x) <= p.x && p.x <= max64(a.x, b.x) && min64(a.y, b.y) <= p.y && p.y <= max64(a.y, b.y)
}

func segsMeet(a, b, c, d ipt) bool {
	if onSeg(a, b, c) || onSeg(a, b, d) || onSeg(c, d, a) || onSeg(c, d, b) {
		return true
	}
	return sgn(icross(a, b, c))*sgn(icross(a, b, d)) < 0 && sgn(icross(c, d, a))*sgn(icross(c, d, b)) < 0
}

// ringSimple: distinct cyclic vertices vs (no closing vertex), non-zero area,
// non-adjacent edges disjoint, adjacent edges share only their common vertex.
func ringSimple(vs []ipt) bool {
	n := len(vs)
	if n < 3 {
		return false
	}
	var area int64
	for i := 0; i < n; i++ {
		a, b := vs[i], vs[(i+1)%n]
		if a == b {
			return false
		}
		area += a.x*b.y - b.x*a.y
	}
	if area == 0 {
		return false
	}
	for i := 0; i < n; i++ {
		a, b := vs[i], vs[(i+1)%n]
		for j := i + 1; j < n; j++ {
			c, d := vs[j], vs[(j+1)%n]
			adj := j == i+1 || (i == 0 && j == n-1)
			if !adj {
				if segsMeet(a, b, c, d) {
					return false
				}
				continue
			}
			// adjacent: must not overlap beyond the shared vertex
			var shared, p, q ipt
			if j == i+1 {
				shared, p, q = b, a, d
			} else {
				shared, p, q = a, b, c
			}
			if icross(shared, p, q) == 0 && (p.x-shared.x)*(q.x-shared.x)+(p.y-shared.y)*(q.y-shared.y) > 0 {
				return false
			}
		}
	}
	return true
}

// 1 strictly inside, 0 on boundary, -1 outside (vs without closing vertex)
func pointInRing(vs []ipt, p ipt) int {
	n := len(vs)
	in := false
	for i := 0; i < n; i++ {
		a, b := vs[i], vs[(i+1)%n]
		if onSeg(a, b, p) {
			return 0
		}
		if (a.y <= p.y && p.y < b.y && icross(a, b, p) > 0) || (b.y <= p.y && p.y < a.y && icross(a, b, p) < 0) {
			in = !in
		}
	}
	if in {
		return 1
	}
	return -1
}

func ringsEdgesMeet(a, b []ipt) bool {
	for i := range a {
		for j := range b {
			if segsMeet(a[i], a[(i+1)%len(a)], b[j], b[(j+1)%len(b)]) {
				return true
			}
		}
	}
	return false
}

// hole strictly inside ext (no contact)
func holeInside(ext, h []ipt) bool {
	if ringsEdgesMeet(ext, h) {
		return false
	}
	return pointInRing(ext, h[0]) == 1
}

func ringsDisjoint(a, b []ipt) bool {
	if ringsEdgesMeet(a, b) {
		return false
	}
	return pointInRing(a, b[0]) == -1 && pointInRing(b, a[0]) == -1
}

// ---------- generators of simple rings (vertices without the closing vertex) ----------

var starDirs = []ipt{{4, 0}, {4, 1}, {4, 2}, {4, 3}, {4, 4}, {3, 4}, {2, 4}, {1, 4}, {0, 4}, {-1, 4}, {-2, 4}, {-3, 4}, {-4, 4}, {-4, 3}, {-4, 2}, {-4, 1},
	{-4, 0}, {-4, -1}, {-4, -2}, {-4, -3}, {-4, -4}, {-3, -4}, {-2, -4}, {-1, -4}, {0, -4}, {1, -4}, {2, -4}, {3, -4}, {4, -4}, {4, -3}, {4, -2}, {4, -1}}

// star-shaped around (cx,cy): concave in general; radii multiples of 2 so that edge midpoints may be integral
func genStar(rng *rand.Rand, cx, cy, rmin, rmax int64, k int) []ipt {
	step := len(starDirs) / k
	if step < 1 {
		step = 1
	}
	off := rng.Intn(step)
	var out []ipt
	for i := off; i < len(starDirs); i += step {
		r := rmin + rng.Int63n(rmax-rmin+1)
		out = append(out, ipt{cx + starDirs[i].x*r, cy + starDirs[i].y*r})
	}
	return out
}

// small-lattice simple polygon by rejection
func genLattice(rng *rand.Rand, k int, L int64, mul int64) []ipt {
	for try := 0; try < 200; try++ {
		vs := make([]ipt, k)
		for i := range vs {
			vs[i] = ipt{mul * rng.Int63n(L+1), mul * rng.Int63n(L+1)}
		}
		if ringSimple(vs) {
			return vs
		}
	}
	return []ipt{{0, 0}, {mul * L, 0}, {0, mul * L}}
}

// orthogonal comb: concave with many reflex vertices and collinear contacts
func genComb(rng *rand.Rand, teeth int, w, h int64) []ipt {
	vs := []ipt{{0, 0}}
	x := int64(0)
	for t := 0; t < teeth; t++ {
		vs = append(vs, ipt{x, h}, ipt{x + w, h}, ipt{x + w, h / 2})
		x += 2 * w
		vs = append(vs, ipt{x, h / 2})
	}
	vs = append(vs, ipt{x, h}, ipt{x + w, h}, ipt{x + w, 0})
	return vs
}

func genRing(rng *rand.Rand, lim int64) []ipt {
	for {
		var vs []ipt
		switch rng.Intn(5) {
		case 0:
			vs = genLattice(rng, 3+rng.Intn(4), 4, 2)
		case 1:
			vs = genStar(rng, 0, 0, lim/8+1, lim/4+2, 4+rng.Intn(28))
		case 2:
			vs = genComb(rng, 1+rng.Intn(3), 2+2*rng.Int63n(3), 4+4*rng.Int63n(3))
		case 3: // convex hull
			raw := make([]ipt, 3+rng.Intn(10))
			for i := range raw {
				raw[i] = ipt{rng.Int63n(2*lim+1) - lim, rng.Int63n(2*lim+1) - lim}
			}
			vs = hull(raw)
		default:
			vs = genLattice(rng, 3+rng.Intn(3), 3, 2)
		}
		if ringSimple(vs) {
			if rng.Intn(2) == 0 {
				vs = reverse(vs)
			}
			return rotate(vs, rng.Intn(len(vs)))
		}
	}
}

// a valid polygon: simple exterior, 0..2 simple holes strictly inside, pairwise disjoint
func genPoly(rng *rand.Rand, lim int64, wantHoles bool) [][]ipt {
	ext := genRing(rng, lim)
	rings := [][]ipt{ext}
	nh := 0
	if wantHoles {
		nh = 1 + rng.Intn(2)
	}
	mnx, mxx, mny, mxy := bboxOf(ext)
	for h := 0; h < nh; h++ {
		for try := 0; try < 60; try++ {
			var hr []ipt
			cx, cy := mnx+rng.Int63n(mxx-mnx+1), mny+rng.Int63n(mxy-mny+1)
			switch rng.Intn(3) {
			case 0:
				w, hh := 1+rng.Int63n((mxx-mnx)/4+1), 1+rng.Int63n((mxy-mny)/4+1)
				hr = []ipt{{cx, cy}, {cx + w, cy}, {cx + w, cy + hh}, {cx, cy + hh}}
			case 1:
				r := (mxx-mnx)/40 + 1
				hr = genStar(rng, cx, cy, r, 2*r, 4+rng.Intn(6))
			default:
				w := 1 + rng.Int63n((mxx-mnx)/4+1)
				hr = []ipt{{cx, cy}, {cx + w, cy}, {cx, cy + w}}
			}
			if !ringSimple(hr) || !holeInside(ext, hr) {
				continue
			}
			ok := true
			for _, o := range rings[1:] {
				if !ringsDisjoint(o, hr) {
					ok = false
				}
			}
			if ok {
				rings = append(rings, hr)
				break
			}
		}
	}
	out := make([][]ipt, len(rings))
	for i, r := range rings {
		if rng.Intn(4) == 0 && i == 0 {
			out[i] = closeRing(r) // GeoJSON style
		} else {
			out[i] = closeRing(r)
		}
	}
	return out
}

func bboxOf(vs []ipt) (mnx, mxx, mny, mxy int64) {
	mnx, mxx, mny, mxy = vs[0].x, vs[0].x, vs[0].y, vs[0].y
	for _, p := range vs {
		mnx, mxx, mny, mxy = min64(mnx, p.x), max64(mxx, p.x), min64(mny, p.y), max64(mxy, p.y)
	}
	return
}

// ---------- constructive contact configurations: B placed relative to polygon A ----------

// a point of A's boundary structure: vertex, edge midpoint (if integral) or third point
func boundaryPoint(rng *rand.Rand, ring []ipt) ipt {
	n := len(ring) - 1 // closed
	i := rng.Intn(n)
	a, b := ring[i], ring[i+1]
	switch rng.Intn(3) {
	case 0:
		return a
	case 1:
		if (a.x+b.x)%2 == 0 && (a.y+b.y)%2 == 0 {
			return ipt{(a.x + b.x) / 2, (a.y + b.y) / 2}
		}
	default:
		if (b.x-a.x)%4 == 0 && (b.y-a.y)%4 == 0 {
			return ipt{a.x + (b.x-a.x)/4, a.y + (b.y-a.y)/4}
		}
	}
	return a
}

func anyPointNear(rng *rand.Rand, rings [][]ipt) ipt {
	mnx, mxx, mny, mxy := bboxOf(rings[0])
	switch rng.Intn(4) {
	case 0:
		return boundaryPoint(rng, rings[rng.Intn(len(rings))])
	case 1: // level with / same x as a vertex
		v := rings[0][rng.Intn(len(rings[0]))]
		if rng.Intn(2) == 0 {
			return ipt{mnx + rng.Int63n(mxx-mnx+1), v.y}
		}
		return ipt{v.x, mny + rng.Int63n(mxy-mny+1)}
	case 2: // slightly outside the box
		return ipt{mnx - 1 + rng.Int63n(mxx-mnx+3), mny - 1 + rng.Int63n(mxy-mny+3)}
	}
	return ipt{mnx + rng.Int63n(mxx-mnx+1), mny + rng.Int63n(mxy-mny+1)}
}

// B relative to A (a polygon): returns a shape of the requested kind
func genRelated(rng *rand.Rand, A [][]ipt, kind int64) shp {
	switch kind {
	case 0:
		return shp{kind: 0, pt: anyPointNear(rng, A)}
	case 1:
		p, q := anyPointNear(rng, A), anyPointNear(rng, A)
		if rng.Intn(6) == 0 { // the bounding box of a ring of A
			mnx, mxx, mny, mxy := bboxOf(A[rng.Intn(len(A))])
			return shp{kind: 1, rect: [4]int64{mnx, mny, mxx, mxy}}
		}
		return shp{kind: 1, rect: [4]int64{min64(p.x, q.x), min64(p.y, q.y), max64(p.x, q.x), max64(p.y, q.y)}}
	case 2:
		switch rng.Intn(4) {
		case 0: // a stretch of a ring of A (runs along the boundary), maybe extended
			r := A[rng.Intn(len(A))]
			n := len(r) - 1
			i, k := rng.Intn(n), 1+rng.Intn(min(n, 4))
			var ln []ipt
			for j := 0; j <= k; j++ {
				ln = append(ln, r[(i+j)%n])
			}
			if rng.Intn(2) == 0 {
				ln[0] = boundaryPointOn(r, i, rng)
			}
			if rng.Intn(3) == 0 {
				ln = append(ln, anyPointNear(rng, A))
			}
			return shp{kind: 2, line: ln}
		default:
			k := 2 + rng.Intn(3)
			ln := make([]ipt, k)
			for i := range ln {
				ln[i] = anyPointNear(rng, A)
			}
			return shp{kind: 2, line: ln}
		}
	}
	// polygon
	switch rng.Intn(5) {
	case 0: // a hole of A (or the exterior itself) as a polygon
		r := A[rng.Intn(len(A))]
		return shp{kind: 3, rings: [][]ipt{r}}
	case 1: // triangle/quad through boundary points
		for try := 0; try < 50; try++ {
			k := 3 + rng.Intn(2)
			vs := make([]ipt, k)
			for i := range vs {
				vs[i] = anyPointNear(rng, A)
			}
			if ringSimple(vs) {
				return shp{kind: 3, rings: [][]ipt{closeRing(vs)}}
			}
		}
	case 2: // A's exterior with A's holes dropped or kept: equal / covering shapes
		if rng.Intn(2) == 0 {
			return shp{kind: 3, rings: [][]ipt{A[0]}}
		}
		return shp{kind: 3, rings: A}
	case 3: // bounding box of a hole as a polygon (covers the hole)
		r := A[rng.Intn(len(A))]
		mnx, mxx, mny, mxy := bboxOf(r)
		if mnx < mxx && mny < mxy {
			return shp{kind: 3, rings: [][]ipt{{{mnx, mny}, {mxx, mny}, {mxx, mxy}, {mnx, mxy}, {mnx, mny}}}}
		}
	}
	mnx, mxx, mny, mxy := bboxOf(A[0])
	lim := max64(mxx-mnx, mxy-mny) + 2
	for {
		P := genPoly(rng, lim, rng.Intn(3) == 0)
		// translate near A
		dx, dy := mnx+rng.Int63n(mxx-mnx+1), mny+rng.Int63n(mxy-mny+1)
		ok := true
		for i := range P {
			P[i] = append([]ipt{}, P[i]...)
			for j := range P[i] {
				P[i][j] = ipt{P[i][j].x/2 + dx, P[i][j].y/2 + dy}
			}
			if !ringSimple(P[i][:len(P[i])-1]) {
				ok = false
			}
		}
		if ok && validPoly(P) {
			return shp{kind: 3, rings: P}
		}
	}
}

func validPoly(P [][]ipt) bool {
	open := func(r []ipt) []ipt { return r[:len(r)-1] }
	if !ringSimple(open(P[0])) {
		return false
	}
	for i := 1; i < len(P); i++ {
		if !ringSimple(open(P[i])) || !holeInside(open(P[0]), open(P[i])) {
			return false
		}
		for j := 1; j < i; j++ {
			if !ringsDisjoint(open(P[i]), open(P[j])) {
				return false
			}
		}
	}
	return true
}

func boundaryPointOn(r []ipt, i int, rng *rand.Rand) ipt {
	n := len(r) - 1
	a, b := r[(i+n-1)%n], r[i]
	if (a.x+b.x)%2 == 0 && (a.y+b.y)%2 == 0 {
		return ipt{(a.x + b.x) / 2, (a.y + b.y) / 2}
	}
	return b
}

func min(a, b int) int {
	if a < b {
		return a
	}
	return b
}

func shapeInDom(s shp) bool {
	switch s.kind {
	case 0:
		return inDom(s.pt.x, s.pt.y)
	case 1:
		return inDom(s.rect[:]...)
	case 2:
		return inDom(encPts(s.line)...)
	}
	for _, r := range s.rings {
		if !inDom(encPts(r)...) {
			return false
		}
	}
	return true
}

func kindName(k int64) string { return [...]string{"point", "rect", "line", "poly"}[k] }

// emit one valid pair under a choice of index configurations
func pairDo(w *W, rng *rand.Rand, A, B shp, sc int64, allCfgs bool) {
	if !shapeInDom(A) || !shapeInDom(B) {
		return
	}
	if w.pairTag == 52 {
		symDo(w, rng, A, B, sc)
		return
	}
	ncfg := 1
	if allCfgs {
		ncfg = len(pairCfgs)
	}
	for c := 0; c < ncfg; c++ {
		ca := int64(c)
		if !allCfgs {
			ca = int64(rng.Intn(len(pairCfgs)))
		}
		d := int64(0)
		if rng.Intn(2) == 0 {
			d = int64(rng.Intn(len(pairCfgs)))
		}
		args := append([]int64{sc, 1 + 2*ca + 8*d}, A.enc()...)
		args = append(args, B.enc()...)
		out := w.Do(w.pairTag, args, true)
		if c == 0 {
			w.count("pair:" + kindName(A.kind) + "x" + kindName(B.kind))
			if out[0] == 1 {
				w.count("intersects:true")
			} else {
				w.count("intersects:false")
			}
			if out[2] == 1 || out[3] == 1 {
				w.count("contains:true")
			}
			if A.kind == 3 && len(A.rings) > 1 {
				w.count("A:has-holes")
			}
		}
	}
}

func genAnyShape(rng *rand.Rand, lim int64, kind int64) shp {
	c := func() int64 { return rng.Int63n(2*lim+1) - lim }
	switch kind {
	case 0:
		return shp{kind: 0, pt: ipt{c(), c()}}
	case 1:
		a, b, x, y := c(), c(), c(), c()
		return shp{kind: 1, rect: [4]int64{min64(a, x), min64(b, y), max64(a, x), max64(b, y)}}
	case 2:
		k := 2 + rng.Intn(4)
		ln := make([]ipt, k)
		for i := range ln {
			ln[i] = ipt{c(), c()}
		}
		return shp{kind: 2, line: ln}
	}
	return shp{kind: 3, rings: genPoly(rng, lim, rng.Intn(3) == 0)}
}

// the pair stream shared by C02 / C03 / C12 (they differ in which outputs they read)
func streamPairs(w *W, rng *rand.Rand, tier string) {
	n := 6000
	if tier == "thorough" {
		n = 80000
	}
	if w.pairTag == 52 { // every pair is run under ~8 transformations
		n /= 5
	}
	if w.pairTag == 53 { // the containment oracle is the expensive one
		n = n * 3 / 5
		if tier == "thorough" {
			n = 30000
		}
	}
	for it := 0; it < n; it++ {
		sc := int64(rng.Intn(3))
		lim := int64(4) << uint(rng.Intn(12))
		A := shp{kind: 3, rings: genPoly(rng, lim, it%3 == 0)}
		// polygon A against every kind of B, constructed in contact with A
		for k := int64(0); k < 4; k++ {
			B := genRelated(rng, A.rings, k)
			pairDo(w, rng, A, B, sc, it%10 == 0)
		}
		// line A against related shapes (line x line families: along, nested, reversed)
		r := A.rings[0]
		ln := shp{kind: 2, line: r[:2+rng.Intn(len(r)-1)]}
		for k := int64(0); k < 4; k++ {
			B := genRelated(rng, A.rings, k)
			pairDo(w, rng, ln, B, sc, false)
		}
		// sub-line / reversed sub-line / spanning collinear pieces
		sub := genRelated(rng, [][]ipt{r}, 2)
		pairDo(w, rng, ln, sub, sc, false)
		pairDo(w, rng, ln, shp{kind: 2, line: reverse(sub.line)}, sc, false)
		// rect A
		mnx, mxx, mny, mxy := bboxOf(r)
		R := shp{kind: 1, rect: [4]int64{mnx, mny, mxx, mxy}}
		if rng.Intn(2) == 0 {
			p, q := anyPointNear(rng, A.rings), anyPointNear(rng, A.rings)
			R = shp{kind: 1, rect: [4]int64{min64(p.x, q.x), min64(p.y, q.y), max64(p.x, q.x), max64(p.y, q.y)}}
		}
		for k := int64(0); k < 4; k++ {
			pairDo(w, rng, R, genRelated(rng, A.rings, k), sc, false)
		}
		// point A
		P := shp{kind: 0, pt: anyPointNear(rng, A.rings)}
		for k := int64(0); k < 4; k++ {
			pairDo(w, rng, P, genRelated(rng, A.rings, k), sc, false)
		}
		// unrelated random pair
		pairDo(w, rng, genAnyShape(rng, lim, int64(rng.Intn(4))), genAnyShape(rng, lim, int64(rng.Intn(4))), sc, false)
	}
	// polygons with several holes (nested bounding boxes), B with holes; large indexed rings
	nm, nb := 700, 40
	if tier == "thorough" {
		nm, nb = 8000, 400
	}
	if w.pairTag == 52 {
		nm, nb = nm/5, nb/4
	}
	if w.pairTag == 53 {
		nb = nb * 3 / 5
		if tier == "thorough" {
			nb = 150
		}
	}
	streamMultiHole(w, rng, nm)
	streamBigIndexed(w, rng, nb)
	streamLongInHole(w, rng, nm/7)
	streamFlatRectOnLine(w, rng, nm/2)
	// collinear horizontal line families for line x line containment (spanning, nested, stray)
	m := 3000
	if tier == "thorough" {
		m = 30000
	}
	if w.pairTag == 52 {
		m /= 5
	}
	for it := 0; it < m; it++ {
		mk := func() shp {
			k := 2 + rng.Intn(4)
			ln := make([]ipt, k)
			for i := range ln {
				switch rng.Intn(5) {
				case 0:
					ln[i] = ipt{rng.Int63n(7), rng.Int63n(2)}
				default:
					ln[i] = ipt{rng.Int63n(7), 0}
				}
			}
			return shp{kind: 2, line: ln}
		}
		pairDo(w, rng, mk(), mk(), 0, false)
	}
}

// ---------- C12: symmetries and re-encodings (tag 52) ----------

func mapShape(s shp, f func(ipt) ipt) shp {
	o := shp{kind: s.kind}
	switch s.kind {
	case 0:
		o.pt = f(s.pt)
	case 1:
		a, b := f(ipt{s.rect[0], s.rect[1]}), f(ipt{s.rect[2], s.rect[3]})
		o.rect = [4]int64{min64(a.x, b.x), min64(a.y, b.y), max64(a.x, b.x), max64(a.y, b.y)}
	case 2:
		for _, p := range s.line {
			o.line = append(o.line, f(p))
		}
	default:
		for _, r := range s.rings {
			var nr []ipt
			for _, p := range r {
				nr = append(nr, f(p))
			}
			o.rings = append(o.rings, nr)
		}
	}
	return o
}

func isClosedRing(r []ipt) bool { return len(r) >= 2 && r[0] == r[len(r)-1] }

func reencodeRing(t int64, k int, r []ipt) []ipt {
	switch t {
	case 6:
		if len(r) == 0 {
			return r
		}
		if isClosedRing(r) {
			o := r[:len(r)-1]
			return closeRing(rotate(o, k%len(o)))
		}
		return rotate(r, k%len(r))
	case 7:
		return reverse(r)
	case 8:
		if isClosedRing(r) {
			return append([]ipt{}, r[:len(r)-1]...)
		}
		if len(r) == 0 {
			return r
		}
		return closeRing(r)
	}
	return r
}

func transformShape(t, p1, p2 int64, s shp, isA bool) shp {
	switch t {
	case 1, 9:
		return mapShape(s, func(p ipt) ipt { return ipt{p.x + p1, p.y + p2} })
	case 2:
		return mapShape(s, func(p ipt) ipt { return ipt{p.x << uint(p1), p.y << uint(p1)} })
	case 3:
		return mapShape(s, func(p ipt) ipt { return ipt{-p.x, p.y} })
	case 4:
		return mapShape(s, func(p ipt) ipt { return ipt{p.x, -p.y} })
	case 5:
		return mapShape(s, func(p ipt) ipt { return ipt{p.y, p.x} })
	}
	if !isA {
		return s
	}
	o := shp{kind: s.kind, pt: s.pt, rect: s.rect, line: s.line}
	switch s.kind {
	case 2:
		if t == 7 {
			o.line = reverse(s.line)
		}
	case 3:
		for _, r := range s.rings {
			o.rings = append(o.rings, reencodeRing(t, int(p1), r))
		}
	}
	return o
}

func moveGeom(g geometry.Geometry, dx, dy float64) geometry.Geometry {
	switch o := g.(type) {
	case geometry.Point:
		return o.Move(dx, dy)
	case geometry.Rect:
		return o.Move(dx, dy)
	case *geometry.Line:
		return o.Move(dx, dy)
	case *geometry.Poly:
		return o.Move(dx, dy)
	}
	panic("kind")
}

// tag 52: args = s flags t p1 p2 shapeA shapeB
func implSym(a []int64) []int64 {
	sc := a[0]
	opts := pairCfgs[(a[1]>>1)&3]
	t, p1, p2 := a[2], a[3], a[4]
	sa, rest := decShape(a[5:])
	sb, _ := decShape(rest)
	A, B := sa.geom(sc, opts), sb.geom(sc, opts)
	base := bools(gIntersects(A, B), gIntersects(B, A), gContains(A, B), gContains(B, A))
	var A2, B2 geometry.Geometry
	if t == 9 {
		A2, B2 = moveGeom(A, fl(p1, sc), fl(p2, sc)), moveGeom(B, fl(p1, sc), fl(p2, sc))
	} else {
		A2, B2 = transformShape(t, p1, p2, sa, true).geom(sc, opts), transformShape(t, p1, p2, sb, false).geom(sc, opts)
	}
	tr := bools(gIntersects(A2, B2), gIntersects(B2, A2), gContains(A2, B2), gContains(B2, A2))
	out := make([]int64, 0, 12)
	for i := range base {
		out = append(out, b2i(base[i] == tr[i]))
	}
	out = append(out, base...)
	return append(out, tr...)
}

func symDo(w *W, rng *rand.Rand, A, B shp, sc int64) {
	n := int64(1)
	if A.kind == 3 && len(A.rings[0]) > 1 {
		n = int64(len(A.rings[0]) - 1)
	}
	type tr struct{ t, p1, p2 int64 }
	c := func() int64 { return rng.Int63n(2001) - 1000 }
	trs := []tr{{1, c(), c()}, {9, c(), c()}, {2, 1 + rng.Int63n(4), 0}, {3, 0, 0}, {4, 0, 0}, {5, 0, 0}}
	if A.kind == 2 {
		trs = append(trs, tr{7, 0, 0})
	}
	if A.kind == 3 {
		trs = append(trs, tr{7, 0, 0}, tr{8, 0, 0}, tr{6, 1, 0}, tr{6, rng.Int63n(n), 0}, tr{6, n - 1, 0})
	}
	cfg := int64(rng.Intn(len(pairCfgs)))
	for _, x := range trs {
		a2, b2 := transformShape(x.t, x.p1, x.p2, A, true), transformShape(x.t, x.p1, x.p2, B, false)
		if !shapeInDom(a2) || !shapeInDom(b2) {
			continue
		}
		args := append([]int64{sc, 1 + 2*cfg, x.t, x.p1, x.p2}, A.enc()...)
		args = append(args, B.enc()...)
		out := w.Do(52, args, true)
		w.count([]string{"", "sym:translate", "sym:scale", "sym:reflect-x", "sym:reflect-y", "sym:transpose", "sym:rotate-start", "sym:reverse", "sym:closing-vertex", "sym:move"}[x.t])
		if len(out) >= 4 && (out[0] == 0 || out[1] == 0 || out[2] == 0 || out[3] == 0) {
			w.count("sym:ANSWER-CHANGED")
		}
	}
	w.count("pair:" + kindName(A.kind) + "x" + kindName(B.kind))
}

func init() {
	impls[50] = implPair
	impls[53] = implPair
	impls[52] = implSym
	streams["C02"] = func(w *W, rng *rand.Rand, tier string) { w.pairTag = 50; streamPairs(w, rng, tier) }
	streams["C03"] = func(w *W, rng *rand.Rand, tier string) { w.pairTag = 53; streamPairs(w, rng, tier) }
	streams["C12"] = func(w *W, rng *rand.Rand, tier string) { w.pairTag = 52; streamPairs(w, rng, tier) }
}
