package main

// JSON layer (properties C06, C07, C08, C17): an independent JSON tokenizer
// producing the document tree handed to the Coq model, the integer encoding of
// documents and object trees, text rendering with whitespace / lexeme variety,
// and the implementation side of tags 70 (Parse of a JSON document), 71 (Parse
// of a text that is not one JSON object) and 72 (constructor-built objects).

import (
	"encoding/json"
	"math"
	"strconv"
	"strings"

	"github.com/tidwall/geojson"
	"github.com/tidwall/geojson/geometry"
)

type jnode struct {
	kind byte // 'n' null 't' true 'f' false '0' number 's' string 'a' array 'o' object
	raw  string
	dec  string
	num  float64
	arr  []*jnode
	keys []*jnode // strings
	vals []*jnode
}

// ---- tokenizer (strict RFC 8259), keeps raw lexemes ----

type jparser struct {
	s string
	i int
}

func (p *jparser) ws() {
	for p.i < len(p.s) && (p.s[p.i] == ' ' || p.s[p.i] == '\t' || p.s[p.i] == '\n' || p.s[p.i] == '\r') {
		p.i++
	}
}

func (p *jparser) value(depth int) *jnode {
	if depth > 200 || p.i >= len(p.s) {
		return nil
	}
	switch c := p.s[p.i]; {
	case c == 'n':
		if strings.HasPrefix(p.s[p.i:], "null") {
			p.i += 4
			return &jnode{kind: 'n', raw: "null"}
		}
	case c == 't':
		if strings.HasPrefix(p.s[p.i:], "true") {
			p.i += 4
			return &jnode{kind: 't', raw: "true"}
		}
	case c == 'f':
		if strings.HasPrefix(p.s[p.i:], "false") {
			p.i += 5
			return &jnode{kind: 'f', raw: "false"}
		}
	case c == '"':
		return p.str()
	case c == '-' || (c >= '0' && c <= '9'):
		return p.number()
	case c == '[':
		p.i++
		n := &jnode{kind: 'a'}
		p.ws()
		if p.i < len(p.s) && p.s[p.i] == ']' {
			p.i++
			return n
		}
		for {
			p.ws()
			v := p.value(depth + 1)
			if v == nil {
				return nil
			}
			n.arr = append(n.arr, v)
			p.ws()
			if p.i >= len(p.s) {
				return nil
			}
			if p.s[p.i] == ',' {
				p.i++
				continue
			}
			if p.s[p.i] == ']' {
				p.i++
				return n
			}
			return nil
		}
	case c == '{':
		p.i++
		n := &jnode{kind: 'o'}
		p.ws()
		if p.i < len(p.s) && p.s[p.i] == '}' {
			p.i++
			return n
		}
		for {
			p.ws()
			if p.i >= len(p.s) || p.s[p.i] != '"' {
				return nil
			}
			k := p.str()
			if k == nil {
				return nil
			}
			p.ws()
			if p.i >= len(p.s) || p.s[p.i] != ':' {
				return nil
			}
			p.i++
			p.ws()
			v := p.value(depth + 1)
			if v == nil {
				return nil
			}
			n.keys = append(n.keys, k)
			n.vals = append(n.vals, v)
			p.ws()
			if p.i >= len(p.s) {
				return nil
			}
			if p.s[p.i] == ',' {
				p.i++
				continue
			}
			if p.s[p.i] == '}' {
				p.i++
				return n
			}
			return nil
		}
	}
	return nil
}

func (p *jparser) str() *jnode {
	start := p.i
	p.i++
	for p.i < len(p.s) {
		c := p.s[p.i]
		switch {
		case c == '"':
			p.i++
			lit := p.s[start:p.i]
			var d string
			if json.Unmarshal([]byte(lit), &d) != nil {
				return nil
			}
			return &jnode{kind: 's', raw: lit[1 : len(lit)-1], dec: d}
		case c == '\\':
			if p.i+1 >= len(p.s) {
				return nil
			}
			e := p.s[p.i+1]
			if e == 'u' {
				if p.i+5 >= len(p.s) {
					return nil
				}
				for _, h := range p.s[p.i+2 : p.i+6] {
					if !strings.ContainsRune("0123456789abcdefABCDEF", h) {
						return nil
					}
				}
				p.i += 6
			} else if strings.IndexByte(`"\/bfnrt`, e) >= 0 {
				p.i += 2
			} else {
				return nil
			}
		case c < 0x20:
			return nil
		default:
			p.i++
		}
	}
	return nil
}

func (p *jparser) number() *jnode {
	start := p.i
	if p.s[p.i] == '-' {
		p.i++
	}
	if p.i >= len(p.s) {
		return nil
	}
	if p.s[p.i] == '0' {
		p.i++
	} else if p.s[p.i] >= '1' && p.s[p.i] <= '9' {
		for p.i < len(p.s) && p.s[p.i] >= '0' && p.s[p.i] <= '9' {
			p.i++
		}
	} else {
		return nil
	}
	if p.i < len(p.s) && p.s[p.i] == '.' {
		p.i++
		d := p.i
		for p.i < len(p.s) && p.s[p.i] >= '0' && p.s[p.i] <= '9' {
			p.i++
		}
		if p.i == d {
			return nil
		}
	}
	if p.i < len(p.s) && (p.s[p.i] == 'e' || p.s[p.i] == 'E') {
		p.i++
		if p.i < len(p.s) && (p.s[p.i] == '+' || p.s[p.i] == '-') {
			p.i++
		}
		d := p.i
		for p.i < len(p.s) && p.s[p.i] >= '0' && p.s[p.i] <= '9' {
			p.i++
		}
		if p.i == d {
			return nil
		}
	}
	raw := p.s[start:p.i]
	f, _ := strconv.ParseFloat(raw, 64)
	return &jnode{kind: '0', raw: raw, num: f}
}

// tokenize returns the document tree, or nil when the text is not exactly one JSON value
func tokenize(text string) *jnode {
	p := &jparser{s: text}
	p.ws()
	v := p.value(0)
	if v == nil {
		return nil
	}
	p.ws()
	if p.i != len(p.s) {
		return nil
	}
	return v
}

// ---- encodings ----

const nullMark = int64(1) << 62

func bytesEnc(s string) []int64 {
	out := []int64{int64(len(s))}
	for i := 0; i < len(s); i++ {
		out = append(out, int64(s[i]))
	}
	return out
}

// gridValue: f as k*2^-s, exactly
func gridValue(f float64, s int64) (int64, bool) {
	if math.IsNaN(f) || math.IsInf(f, 0) {
		return 0, false
	}
	v := f * float64(int64(1)<<uint(s))
	if v != math.Trunc(v) || math.Abs(v) > float64(int64(1)<<50) {
		return 0, false
	}
	if f == 0 && math.Signbit(f) {
		return 0, false // negative zero has no grid value
	}
	return int64(v), true
}

// encDoc encodes a document for the model; ok=false when a number is outside the model's domain
func encDoc(n *jnode, s int64) ([]int64, bool) {
	switch n.kind {
	case 'n':
		return []int64{0}, true
	case 't':
		return []int64{1}, true
	case 'f':
		return []int64{2}, true
	case '0':
		if math.IsInf(n.num, 0) {
			return append([]int64{3, 1, 0}, bytesEnc(n.raw)...), true
		}
		k, ok := gridValue(n.num, s)
		if !ok {
			return nil, false
		}
		return append([]int64{3, 0, k}, bytesEnc(n.raw)...), true
	case 's':
		return append(append([]int64{4}, bytesEnc(n.raw)...), bytesEnc(n.dec)...), true
	case 'a':
		out := []int64{5, int64(len(n.arr))}
		for _, c := range n.arr {
			e, ok := encDoc(c, s)
			if !ok {
				return nil, false
			}
			out = append(out, e...)
		}
		return out, true
	}
	out := []int64{6, int64(len(n.keys))}
	for i := range n.keys {
		out = append(out, bytesEnc(n.keys[i].raw)...)
		out = append(out, bytesEnc(n.keys[i].dec)...)
		e, ok := encDoc(n.vals[i], s)
		if !ok {
			return nil, false
		}
		out = append(out, e...)
	}
	return out, true
}

func takeBytes(a []int64) (string, []int64) {
	n := int(a[0])
	b := make([]byte, n)
	for i := 0; i < n; i++ {
		b[i] = byte(a[1+i])
	}
	return string(b), a[1+n:]
}

// decDoc rebuilds the tree (raw lexemes only) from its encoding
func decDoc(a []int64) (*jnode, []int64) {
	switch a[0] {
	case 0:
		return &jnode{kind: 'n', raw: "null"}, a[1:]
	case 1:
		return &jnode{kind: 't', raw: "true"}, a[1:]
	case 2:
		return &jnode{kind: 'f', raw: "false"}, a[1:]
	case 3:
		raw, rest := takeBytes(a[3:])
		return &jnode{kind: '0', raw: raw}, rest
	case 4:
		raw, rest := takeBytes(a[1:])
		dec, rest := takeBytes(rest)
		return &jnode{kind: 's', raw: raw, dec: dec}, rest
	case 5:
		n := &jnode{kind: 'a'}
		cnt := int(a[1])
		rest := a[2:]
		for i := 0; i < cnt; i++ {
			var c *jnode
			c, rest = decDoc(rest)
			n.arr = append(n.arr, c)
		}
		return n, rest
	}
	n := &jnode{kind: 'o'}
	cnt := int(a[1])
	rest := a[2:]
	for i := 0; i < cnt; i++ {
		var raw, dec string
		raw, rest = takeBytes(rest)
		dec, rest = takeBytes(rest)
		var v *jnode
		v, rest = decDoc(rest)
		n.keys = append(n.keys, &jnode{kind: 's', raw: raw, dec: dec})
		n.vals = append(n.vals, v)
	}
	return n, rest
}

// render prints the tree with whitespace chosen by a small LCG (ws = 0: minified)
type wsGen struct{ x uint64 }

func (w *wsGen) next() string {
	if w.x == 0 {
		return ""
	}
	w.x = w.x*6364136223846793005 + 1442695040888963407
	switch (w.x >> 33) % 7 {
	case 0:
		return " "
	case 1:
		return "\n  "
	case 2:
		return "\t"
	case 3:
		return " \r\n"
	}
	return ""
}

func render(n *jnode, w *wsGen, sb *strings.Builder) {
	switch n.kind {
	case 's':
		sb.WriteString(`"` + n.raw + `"`)
	case 'a':
		sb.WriteString("[" + w.next())
		for i, c := range n.arr {
			if i > 0 {
				sb.WriteString(w.next() + "," + w.next())
			}
			render(c, w, sb)
		}
		sb.WriteString(w.next() + "]")
	case 'o':
		sb.WriteString("{" + w.next())
		for i := range n.keys {
			if i > 0 {
				sb.WriteString(w.next() + "," + w.next())
			}
			sb.WriteString(`"` + n.keys[i].raw + `"` + w.next() + ":" + w.next())
			render(n.vals[i], w, sb)
		}
		sb.WriteString(w.next() + "}")
	default:
		sb.WriteString(n.raw)
	}
}

func renderText(n *jnode, ws int64) string {
	var sb strings.Builder
	w := &wsGen{x: uint64(ws)}
	sb.WriteString(w.next())
	render(n, w, &sb)
	sb.WriteString(w.next())
	return sb.String()
}

// ---- object trees of Go objects ----

func encF(f float64, s int64) int64 {
	k, ok := gridValue(f, s)
	if !ok {
		return nullMark
	}
	return k
}

func encSeries(sr geometry.Series, s int64) []int64 {
	out := []int64{int64(sr.NumPoints())}
	for i := 0; i < sr.NumPoints(); i++ {
		p := sr.PointAt(i)
		out = append(out, encF(p.X, s), encF(p.Y, s))
	}
	return out
}

func encObject(o geojson.Object, s int64) []int64 {
	switch g := o.(type) {
	case *geojson.Point:
		return []int64{0, encF(g.Base().X, s), encF(g.Base().Y, s)}
	case *geojson.SimplePoint:
		return []int64{1, encF(g.Base().X, s), encF(g.Base().Y, s)}
	case *geojson.Rect:
		r := g.Base()
		return []int64{2, encF(r.Min.X, s), encF(r.Min.Y, s), encF(r.Max.X, s), encF(r.Max.Y, s)}
	case *geojson.LineString:
		return append([]int64{3}, encSeries(g.Base(), s)...)
	case *geojson.Polygon:
		p := g.Base()
		if p.Exterior == nil {
			return []int64{4, 0}
		}
		out := []int64{4, int64(1 + len(p.Holes))}
		out = append(out, encSeries(p.Exterior, s)...)
		for _, h := range p.Holes {
			out = append(out, encSeries(h, s)...)
		}
		return out
	case *geojson.Feature:
		return append([]int64{5}, encObject(g.Base(), s)...)
	case *geojson.Circle:
		return []int64{7, encF(g.Center().X, s), encF(g.Center().Y, s), encF(g.Meters(), s)}
	}
	var k int64
	switch o.(type) {
	case *geojson.MultiPoint:
		k = 0
	case *geojson.MultiLineString:
		k = 1
	case *geojson.MultiPolygon:
		k = 2
	case *geojson.GeometryCollection:
		k = 3
	case *geojson.FeatureCollection:
		k = 4
	default:
		return []int64{-99}
	}
	kids := o.(geojson.Collection).Children()
	out := []int64{6, k, int64(len(kids))}
	for _, c := range kids {
		out = append(out, encObject(c, s)...)
	}
	return out
}

func errCode(err error) int64 {
	switch m := err.Error(); {
	case m == "invalid data":
		return 1
	case m == "invalid type":
		return 2
	case m == "missing type":
		return 3
	case m == "invalid coordinates":
		return 4
	case m == "missing coordinates":
		return 5
	case m == "missing geometry":
		return 6
	case m == "missing features":
		return 7
	case m == "invalid features":
		return 8
	case m == "missing geometries":
		return 9
	case m == "invalid geometries":
		return 10
	case m == "invalid circle radius units":
		return 11
	case strings.HasPrefix(m, "type '"):
		return 12
	}
	return 98
}

func mkParseOpts(bits int64) *geojson.ParseOptions {
	o := *geojson.DefaultParseOptions
	o.AllowSimplePoints = bits&1 != 0
	o.AllowRects = bits&2 != 0
	o.RequireValid = bits&4 != 0
	o.DisableCircleType = bits&8 != 0
	switch (bits >> 4) & 3 { // child index threshold
	case 1:
		o.IndexChildren = 0
	case 2:
		o.IndexChildren = 1
	case 3:
		o.IndexChildren = 3
	}
	switch (bits >> 6) & 3 { // geometry index
	case 1:
		o.IndexGeometry = 0
	case 2:
		o.IndexGeometry = 1
		o.IndexGeometryKind = geometry.RTree
	case 3:
		o.IndexGeometry = 1
	}
	return &o
}

func eqInts(a, b []int64) bool {
	if len(a) != len(b) {
		return false
	}
	for i := range a {
		if a[i] != b[i] {
			return false
		}
	}
	return true
}

// every nested object of one of the nine standard types reports itself valid
func allValid(o geojson.Object) bool {
	switch g := o.(type) {
	case *geojson.Circle:
		return g.Center().Valid() // the Point geometry it was recognised from
	case *geojson.Feature:
		return allValid(g.Base())
	case geojson.Collection:
		for _, c := range g.Children() {
			if !allValid(c) {
				return false
			}
		}
		return true
	}
	return o.Valid()
}

// observables of an object that options must not change
func observe(o geojson.Object, s int64, probes []geojson.Object) []int64 {
	return observeX(o, s, probes, true)
}

// attrs=false: JSON and predicate answers only (what representation options must preserve)
func observeX(o geojson.Object, s int64, probes []geojson.Object, attrs bool) []int64 {
	out := bytesEnc(o.JSON())
	if attrs {
		out = append(out, b2i(o.Empty()), b2i(o.Valid()), int64(o.NumPoints()))
	}
	if _, isCircle := o.(*geojson.Circle); !isCircle {
		out = append(out, rectInts(o.Rect(), s)...)
		for _, p := range probes {
			out = append(out, b2i(o.Contains(p)), b2i(o.Within(p)), b2i(o.Intersects(p)), b2i(p.Contains(o)), b2i(p.Intersects(o)))
		}
	}
	return out
}

func probesFor(o geojson.Object) []geojson.Object {
	if _, isCircle := o.(*geojson.Circle); isCircle {
		return nil
	}
	r := o.Rect()
	c := r.Center()
	if math.IsNaN(r.Min.X+r.Min.Y+r.Max.X+r.Max.Y) || math.IsInf(r.Min.X+r.Min.Y+r.Max.X+r.Max.Y, 0) {
		return nil // C05/C08 speak of finite coordinates
	}
	var grid []geojson.Object
	if o.NumPoints() >= 32 && r.Min.X < r.Max.X && r.Min.Y < r.Max.Y {
		// the split coordinates of a segment quadtree over this rectangle, three levels deep
		w, h := r.Max.X-r.Min.X, r.Max.Y-r.Min.Y
		for i := 0; i <= 8; i++ {
			for j := 0; j <= 8; j++ {
				grid = append(grid, geojson.NewPoint(geometry.Point{X: r.Min.X + w*float64(i)/8, Y: r.Min.Y + h*float64(j)/8}))
			}
		}
		for _, q := range [][4]float64{{0, 0, 4, 4}, {0, 4, 4, 8}, {4, 0, 8, 4}, {2, 2, 4, 4}, {4, 4, 6, 6}, {0, 0, 2, 8}, {0, 3, 8, 4}} {
			grid = append(grid, geojson.NewRect(geometry.Rect{
				Min: geometry.Point{X: r.Min.X + w*q[0]/8, Y: r.Min.Y + h*q[1]/8},
				Max: geometry.Point{X: r.Min.X + w*q[2]/8, Y: r.Min.Y + h*q[3]/8}}))
		}
	}
	// collection probes, with an empty member and nested (Rect / Polygon receivers treat collections through
	// WithinRect / WithinPoly: the representation options must not change those answers)
	grid = append(grid,
		geojson.NewGeometryCollection([]geojson.Object{geojson.NewPoint(c), geojson.NewMultiPoint(nil)}),
		geojson.NewFeatureCollection([]geojson.Object{geojson.NewFeature(geojson.NewPoint(r.Min), ""),
			geojson.NewFeature(geojson.NewGeometryCollection([]geojson.Object{geojson.NewLineString(geometry.NewLine(nil, nil)), geojson.NewPoint(r.Max)}), "")}),
		geojson.NewMultiPoint([]geometry.Point{c, r.Min}))
	return append(grid,
		geojson.NewPoint(c),
		geojson.NewPoint(r.Min),
		geojson.NewRect(r),
		geojson.NewRect(geometry.Rect{Min: c, Max: r.Max}),
		geojson.NewLineString(geometry.NewLine([]geometry.Point{r.Min, r.Max}, nil)),
		geojson.NewPolygon(geometry.NewPoly([]geometry.Point{r.Min, {X: r.Max.X, Y: r.Min.Y}, r.Max, r.Min}, nil, nil)),
	)
}

// ---- C06: the output carries the same information as the input ----

var reservedKeys = map[string]bool{"type": true, "coordinates": true, "geometry": true, "geometries": true, "features": true}

func lastMember(o *jnode, name string) *jnode {
	var r *jnode
	for i, k := range o.keys {
		if k.dec == name {
			r = o.vals[i]
		}
	}
	return r
}

func minText(n *jnode) string { return renderText(n, 0) }

func numEq(a, b *jnode) bool {
	if a.kind == 'n' || b.kind == 'n' {
		return a.kind == b.kind
	}
	return a.kind == '0' && b.kind == '0' && math.Float64bits(a.num) == math.Float64bits(b.num) // bit for bit: -0 is not 0
}

// positions of a line / ring sequence: dimensionality d declared by the first position
func positionsPreserved(in, out []*jnode, d *int) bool {
	if len(in) != len(out) {
		return false
	}
	for i := range in {
		pi, po := in[i], out[i]
		if pi.kind == 'o' {
			// a position written as an object is outside the property's documents ("2-4 dimensional
			// positions"); Parse reads its values in order (gjson ForEach), and so does this comparison
			pi = &jnode{kind: 'a', arr: pi.vals}
		}
		if pi.kind != 'a' || po.kind != 'a' {
			return false
		}
		if *d == 0 {
			*d = len(pi.arr)
			if *d > 4 {
				*d = 4
			}
		}
		if len(po.arr) != *d {
			return false
		}
		for j := 0; j < *d; j++ {
			if j < len(pi.arr) {
				if !numEq(pi.arr[j], po.arr[j]) {
					return false
				}
			} else if po.arr[j].kind != '0' || po.arr[j].num != 0 {
				return false
			}
		}
	}
	return true
}

func coordsPreserved(typ string, in, out *jnode) bool {
	if in == nil || out == nil || in.kind != 'a' || out.kind != 'a' {
		return false
	}
	switch typ {
	case "Point":
		d := 0
		return positionsPreserved([]*jnode{in}, []*jnode{out}, &d)
	case "MultiPoint":
		if len(in.arr) != len(out.arr) {
			return false
		}
		for i := range in.arr {
			d := 0
			if !positionsPreserved([]*jnode{in.arr[i]}, []*jnode{out.arr[i]}, &d) {
				return false
			}
		}
		return true
	case "LineString":
		d := 0
		return positionsPreserved(in.arr, out.arr, &d)
	case "Polygon":
		if len(in.arr) != len(out.arr) {
			return false
		}
		d := 0
		for i := range in.arr {
			if in.arr[i].kind != 'a' || out.arr[i].kind != 'a' || !positionsPreserved(in.arr[i].arr, out.arr[i].arr, &d) {
				return false
			}
		}
		return true
	case "MultiLineString", "MultiPolygon":
		if len(in.arr) != len(out.arr) {
			return false
		}
		for i := range in.arr {
			if !coordsPreserved(typ[5:], in.arr[i], out.arr[i]) {
				return false
			}
		}
		return true
	}
	return false
}

func infoPreserved(in, out *jnode) bool {
	if in == nil || out == nil || in.kind != 'o' || out.kind != 'o' {
		return false
	}
	ti, to := lastMember(in, "type"), lastMember(out, "type")
	if ti == nil || to == nil || ti.dec != to.dec {
		return false
	}
	switch ti.dec {
	case "Feature":
		if !infoPreserved(lastMember(in, "geometry"), lastMember(out, "geometry")) {
			return false
		}
	case "GeometryCollection", "FeatureCollection":
		name := map[string]string{"GeometryCollection": "geometries", "FeatureCollection": "features"}[ti.dec]
		ci, co := lastMember(in, name), lastMember(out, name)
		if ci == nil || co == nil || len(ci.arr) != len(co.arr) {
			return false
		}
		for i := range ci.arr {
			if !infoPreserved(ci.arr[i], co.arr[i]) {
				return false
			}
		}
	default:
		if !coordsPreserved(ti.dec, lastMember(in, "coordinates"), lastMember(out, "coordinates")) {
			return false
		}
	}
	// foreign members: same keys and values, in the original order; a Feature always has properties
	var fi, fo []string
	hasProps := false
	for i, k := range in.keys {
		if !reservedKeys[k.dec] {
			fi = append(fi, k.raw+":"+minText(in.vals[i]))
			if k.dec == "properties" {
				hasProps = true
			}
		}
	}
	for i, k := range out.keys {
		if !reservedKeys[k.dec] {
			fo = append(fo, k.raw+":"+minText(out.vals[i]))
		}
	}
	if ti.dec == "Feature" && !hasProps {
		fi = append(fi, "properties:{}")
	}
	return strings.Join(fi, "\x00") == strings.Join(fo, "\x00")
}

func hasCircle(o geojson.Object) bool {
	switch g := o.(type) {
	case *geojson.Circle:
		return true
	case *geojson.Feature:
		return hasCircle(g.Base())
	case geojson.Collection:
		for _, c := range g.Children() {
			if hasCircle(c) {
				return true
			}
		}
	}
	return false
}

// parseFlags computes, for an accepted text, the seven flags of C06 / C08
func parseFlags(text string, bits int64, s int64, o geojson.Object) [7]int64 {
	opts := mkParseOpts(bits)
	tree := encObject(o, s)
	js := o.JSON()
	// C06: the output is accepted again, same kind tree, byte-identical output, same answers
	o2, err2 := geojson.Parse(js, opts)
	f1, f2, f3 := err2 == nil, false, false
	if f1 {
		f2 = eqInts(encObject(o2, s), tree)
		f3 = o2.JSON() == js && eqInts(observe(o2, s, probesFor(o)), observe(o, s, probesFor(o)))
	}
	// the four spellings agree and AppendJSON appends
	mj, _ := o.MarshalJSON()
	pre := []byte("prefix\x00")
	buf := make([]byte, len(pre), len(pre)+7)
	copy(buf, pre)
	ap := o.AppendJSON(buf)
	f3 = f3 && o.String() == js && string(mj) == js && string(o.AppendJSON(nil)) == js &&
		string(ap) == string(pre)+js && string(buf[:len(pre)]) == string(pre) && json.Valid([]byte(js))
	// C08: index options change nothing observable
	probes := probesFor(o)
	base := observe(o, s, probes)
	f4 := true
	for _, v := range []int64{1 << 4, 2 << 4, 3 << 4, 1 << 6, 2 << 6, 3 << 6, 2<<4 | 2<<6} {
		ov, errv := geojson.Parse(text, mkParseOpts(bits&15|v))
		if errv != nil || !eqInts(observe(ov, s, probes), base) || !eqInts(encObject(ov, s), tree) {
			f4 = false
		}
	}
	// C08: representation options change only the Go type
	f5 := true
	for _, v := range []int64{1, 2, 3} {
		ov, errv := geojson.Parse(text, mkParseOpts(bits^v))
		if errv != nil || !eqInts(observeX(ov, s, probes, false), observeX(o, s, probes, false)) {
			f5 = false
			continue
		}
		_, c1 := o.(*geojson.Circle)
		_, c2 := ov.(*geojson.Circle)
		if c1 != c2 {
			f5 = false
		}
	}
	// C08: require-valid only turns acceptance into rejection, exactly when something is invalid
	orv, errrv := geojson.Parse(text, mkParseOpts(bits|4))
	f6 := (errrv == nil) == allValid(o)
	if errrv == nil {
		f6 = f6 && allValid(orv) && orv.JSON() == js
	}
	// C06: same information as the input (2 = a Circle feature: rewritten in a fixed form, finding F7)
	f7 := int64(2)
	if !hasCircle(o) {
		f7 = b2i(infoPreserved(tokenize(text), tokenize(js)))
	}
	return [7]int64{b2i(f1), b2i(f2), b2i(f3), b2i(f4), b2i(f5), b2i(f6), f7}
}

// tag 70: args = s optbits ws document
func implParse(a []int64) []int64 {
	s, bits, ws := a[0], a[1], a[2]
	doc, _ := decDoc(a[3:])
	text := renderText(doc, ws)
	opts := mkParseOpts(bits)
	o, err := geojson.Parse(text, opts)
	if err != nil {
		if o != nil {
			return []int64{-97} // both an object and an error
		}
		return []int64{errCode(err)}
	}
	if o == nil {
		return []int64{-96}
	}
	fl := parseFlags(text, bits, s, o)
	out := append([]int64{0}, fl[:]...)
	out = append(out, encObject(o, s)...)
	out = append(out, -7)
	out = append(out, bytesEnc(o.JSON())[1:]...)
	out = append(out, -7)
	return append(out, bytesEnc(o.Members())[1:]...)
}

// tag 75: args = optbits, then the bytes of a JSON-object text whose numbers / strings lie outside the
// model's domain (negative zero, non-dyadic decimals, huge exponents, exotic strings).
// Output [1] when the text is rejected or all seven flags hold (Circle: flag 7 = 2), else [0 flags..].
func implParseOnly(a []int64) []int64 {
	bits := a[0]
	b := make([]byte, len(a)-1)
	for i, x := range a[1:] {
		b[i] = byte(x)
	}
	text := string(b)
	o, err := geojson.Parse(text, mkParseOpts(bits))
	if err != nil {
		if o != nil {
			return []int64{-97}
		}
		return []int64{1}
	}
	fl := parseFlags(text, bits, 40, o)
	for i, f := range fl {
		if f != 1 && !(i == 6 && f == 2) {
			return append([]int64{0}, fl[:]...)
		}
	}
	return []int64{1}
}

// tag 71: args = bytes of a text that is NOT one JSON object (invalid JSON, not an
// object, trailing garbage): Parse must reject it.  Output [error code].
func implParseText(a []int64) []int64 {
	b := make([]byte, len(a))
	for i, x := range a {
		b[i] = byte(x)
	}
	o, err := geojson.Parse(string(b), nil)
	if err == nil || o != nil {
		return []int64{0}
	}
	return []int64{errCode(err)}
}

func init() {
	impls[70] = implParse
	impls[73] = implParse
	impls[76] = implParse
	impls[74] = implParse
	impls[71] = implParseText
	impls[75] = implParseOnly
}
