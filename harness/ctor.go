package main

// C17: objects built through the public constructors with arbitrary floats
// (NaN, +-Inf) and member strings; tag 72.

import (
	"bytes"
	"encoding/json"
	"math"
	"math/rand"
	"strings"

	"github.com/tidwall/geojson"
	"github.com/tidwall/geojson/geometry"
)

// ctree: 0 Point(Z) 1 SimplePoint 2 Rect 3 LineString 4 Polygon 5 Feature 6 collection 7 Circle
type ctree struct {
	kind    int64
	f       []int64 // coordinates (grid values or null marks)
	hasz    bool
	rings   [][]int64
	ck      int64
	kids    []*ctree
	mk      int64  // feature members: 0 none, 1 a JSON object (doc + ws), 2 other text
	mdoc    *jnode // mk = 1
	mws     int64
	mtext   string // mk = 2
	steps   int64
}

func fval(k, s int64) float64 {
	switch k {
	case nullMark:
		return math.NaN()
	case nullMark + 1:
		return math.Inf(1)
	case nullMark + 2:
		return math.Inf(-1)
	}
	return fl(k, s)
}

func fpoints(c []int64, s int64) []geometry.Point {
	var ps []geometry.Point
	for i := 0; i+1 < len(c); i += 2 {
		ps = append(ps, geometry.Point{X: fval(c[i], s), Y: fval(c[i+1], s)})
	}
	return ps
}

func (c *ctree) enc(s int64) []int64 {
	switch c.kind {
	case 0:
		return []int64{0, c.f[0], c.f[1], b2i(c.hasz), c.f[2]}
	case 1:
		return []int64{1, c.f[0], c.f[1]}
	case 2:
		return append([]int64{2}, c.f...)
	case 3:
		return append([]int64{3, int64(len(c.f) / 2)}, c.f...)
	case 4:
		out := []int64{4, int64(len(c.rings))}
		for _, r := range c.rings {
			out = append(out, int64(len(r)/2))
			out = append(out, r...)
		}
		return out
	case 5:
		out := []int64{5, c.mk}
		switch c.mk {
		case 1:
			e, _ := encDoc(c.mdoc, s)
			out = append(out, c.mws)
			out = append(out, e...)
		case 2:
			out = append(out, bytesEnc(c.mtext)...)
		}
		return append(out, c.kids[0].enc(s)...)
	case 7:
		return []int64{7, c.f[0], c.f[1], c.f[2], c.steps}
	}
	out := []int64{6, c.ck, int64(len(c.kids))}
	for _, k := range c.kids {
		out = append(out, k.enc(s)...)
	}
	return out
}

func decCtree(a []int64) (*ctree, []int64) {
	switch a[0] {
	case 0:
		return &ctree{kind: 0, f: []int64{a[1], a[2], a[4]}, hasz: a[3] == 1}, a[5:]
	case 1:
		return &ctree{kind: 1, f: []int64{a[1], a[2]}}, a[3:]
	case 2:
		return &ctree{kind: 2, f: append([]int64{}, a[1:5]...)}, a[5:]
	case 3:
		n := int(a[1])
		return &ctree{kind: 3, f: append([]int64{}, a[2:2+2*n]...)}, a[2+2*n:]
	case 4:
		c := &ctree{kind: 4}
		nr := int(a[1])
		rest := a[2:]
		for i := 0; i < nr; i++ {
			n := int(rest[0])
			c.rings = append(c.rings, append([]int64{}, rest[1:1+2*n]...))
			rest = rest[1+2*n:]
		}
		return c, rest
	case 5:
		c := &ctree{kind: 5, mk: a[1]}
		rest := a[2:]
		switch c.mk {
		case 1:
			c.mws = rest[0]
			c.mdoc, rest = decDoc(rest[1:])
		case 2:
			c.mtext, rest = takeBytes(rest)
		}
		var k *ctree
		k, rest = decCtree(rest)
		c.kids = []*ctree{k}
		return c, rest
	case 7:
		return &ctree{kind: 7, f: []int64{a[1], a[2], a[3]}, steps: a[4]}, a[5:]
	}
	c := &ctree{kind: 6, ck: a[1]}
	n := int(a[2])
	rest := a[3:]
	for i := 0; i < n; i++ {
		var k *ctree
		k, rest = decCtree(rest)
		c.kids = append(c.kids, k)
	}
	return c, rest
}

func (c *ctree) build(s int64) geojson.Object {
	switch c.kind {
	case 0:
		p := geometry.Point{X: fval(c.f[0], s), Y: fval(c.f[1], s)}
		if c.hasz {
			return geojson.NewPointZ(p, fval(c.f[2], s))
		}
		return geojson.NewPoint(p)
	case 1:
		return geojson.NewSimplePoint(geometry.Point{X: fval(c.f[0], s), Y: fval(c.f[1], s)})
	case 2:
		ps := fpoints(c.f, s)
		return geojson.NewRect(geometry.Rect{Min: ps[0], Max: ps[1]})
	case 3:
		return geojson.NewLineString(geometry.NewLine(fpoints(c.f, s), nil))
	case 4:
		if len(c.rings) == 0 {
			return geojson.NewPolygon(nil)
		}
		var holes [][]geometry.Point
		for _, r := range c.rings[1:] {
			holes = append(holes, fpoints(r, s))
		}
		return geojson.NewPolygon(geometry.NewPoly(fpoints(c.rings[0], s), holes, nil))
	case 5:
		m := ""
		switch c.mk {
		case 1:
			m = renderText(c.mdoc, c.mws)
		case 2:
			m = c.mtext
		}
		return geojson.NewFeature(c.kids[0].build(s), m)
	case 7:
		return geojson.NewCircle(geometry.Point{X: fval(c.f[0], s), Y: fval(c.f[1], s)}, fval(c.f[2], s), int(c.steps))
	}
	switch c.ck {
	case 0:
		var ps []geometry.Point
		for _, k := range c.kids {
			ps = append(ps, geometry.Point{X: fval(k.f[0], s), Y: fval(k.f[1], s)})
		}
		return geojson.NewMultiPoint(ps)
	case 1:
		var ls []*geometry.Line
		for _, k := range c.kids {
			ls = append(ls, geometry.NewLine(fpoints(k.f, s), nil))
		}
		return geojson.NewMultiLineString(ls)
	case 2:
		var ps []*geometry.Poly
		for _, k := range c.kids {
			var holes [][]geometry.Point
			for _, r := range k.rings[1:] {
				holes = append(holes, fpoints(r, s))
			}
			ps = append(ps, geometry.NewPoly(fpoints(k.rings[0], s), holes, nil))
		}
		return geojson.NewMultiPolygon(ps)
	}
	var objs []geojson.Object
	for _, k := range c.kids {
		objs = append(objs, k.build(s))
	}
	if c.ck == 3 {
		return geojson.NewGeometryCollection(objs)
	}
	return geojson.NewFeatureCollection(objs)
}

func (c *ctree) typeName() string {
	switch c.kind {
	case 0, 1:
		return "Point"
	case 2, 4:
		return "Polygon"
	case 3:
		return "LineString"
	case 5, 7:
		return "Feature"
	}
	return [...]string{"MultiPoint", "MultiLineString", "MultiPolygon", "GeometryCollection", "FeatureCollection"}[c.ck]
}

// arrays nest exactly to depth d above the numbers (empty arrays excused)
func depthOK(n *jnode, d int) bool {
	if n == nil {
		return false
	}
	if d == 0 {
		return n.kind == '0' || n.kind == 'n'
	}
	if n.kind != 'a' {
		return false
	}
	for _, c := range n.arr {
		if !depthOK(c, d-1) {
			return false
		}
	}
	return true
}

func shapeOK(c *ctree, n *jnode) bool {
	if n == nil || n.kind != 'o' {
		return false
	}
	t := lastMember(n, "type")
	if t == nil || t.kind != 's' || t.dec != c.typeName() {
		return false
	}
	switch c.kind {
	case 0, 1:
		return depthOK(lastMember(n, "coordinates"), 1)
	case 3:
		return depthOK(lastMember(n, "coordinates"), 2)
	case 2, 4:
		return depthOK(lastMember(n, "coordinates"), 3)
	case 5:
		return shapeOK(c.kids[0], lastMember(n, "geometry")) && lastMember(n, "properties") != nil
	case 7:
		g := lastMember(n, "geometry")
		return g != nil && g.kind == 'o' && depthOK(lastMember(g, "coordinates"), 1) && lastMember(n, "properties") != nil
	}
	switch c.ck {
	case 0:
		return depthOK(lastMember(n, "coordinates"), 2)
	case 1:
		return depthOK(lastMember(n, "coordinates"), 3)
	case 2:
		return depthOK(lastMember(n, "coordinates"), 4)
	}
	name := "geometries"
	if c.ck == 4 {
		name = "features"
	}
	arr := lastMember(n, name)
	if arr == nil || arr.kind != 'a' || len(arr.arr) != len(c.kids) {
		return false
	}
	for i, k := range c.kids {
		if !shapeOK(k, arr.arr[i]) {
			return false
		}
	}
	return true
}

// tag 72: args = s ctree.  output: 6 flags, -7, JSON bytes
func implCtor(a []int64) []int64 {
	s := a[0]
	c, _ := decCtree(a[1:])
	o := c.build(s)
	js := o.JSON()
	mj, err := o.MarshalJSON()
	f1 := o.String() == js && err == nil && string(mj) == js && string(o.AppendJSON(nil)) == js
	f2 := true
	for _, spare := range []int{0, 1, 3, len(js) - 1, len(js), len(js) + 9} {
		if spare < 0 {
			continue
		}
		pre := []byte("some prefix \x00\xff[")
		backing := make([]byte, len(pre), len(pre)+spare)
		copy(backing, pre)
		got := o.AppendJSON(backing)
		if string(got) != string(pre)+js || !bytes.Equal(backing[:len(pre)], pre) {
			f2 = false
		}
	}
	tok := tokenize(js)
	f3 := tok != nil && tok.kind == 'o' && json.Valid([]byte(js))
	f4 := tok != nil && shapeOK(c, tok)
	f5 := true // reserved
	f6 := !strings.Contains(js, "NaN") && !strings.Contains(js, "Inf") || func() bool {
		// the tokens may only occur inside member strings: a valid JSON text has no bare tokens
		return f3
	}()
	out := []int64{b2i(f1), b2i(f2), b2i(f3), b2i(f4), b2i(f5), b2i(f6), -7}
	return append(out, bytesEnc(js)[1:]...)
}

// ---- generator ----

type cgen struct {
	rng *rand.Rand
	s   int64
}

func (g *cgen) fnum() int64 {
	switch g.rng.Intn(14) {
	case 0:
		return nullMark
	case 1:
		return nullMark + 1
	case 2:
		return nullMark + 2
	}
	return g.rng.Int63n(4001) - 2000
}

func (g *cgen) coords(n int) []int64 {
	out := make([]int64, 2*n)
	for i := range out {
		out[i] = g.fnum()
	}
	return out
}

func (g *cgen) members() (int64, *jnode, int64, string) {
	jg := &jgen{rng: g.rng, s: g.s}
	switch g.rng.Intn(9) {
	case 0:
		return 0, nil, 0, ""
	case 1: // an empty object, possibly with inner whitespace
		return 1, jobj(), int64(g.rng.Intn(3)) * (1 + g.rng.Int63n(1<<30)), ""
	case 2:
		return 2, nil, 0, []string{"", " ", "{}", " {} ", "null", "[1,2]", "\"x\"", "{bad", "{\"a\":}", "12", "{\"a\":1}x"}[g.rng.Intn(11)]
	}
	o := jobj()
	for i := 1 + g.rng.Intn(3); i > 0; i-- {
		switch g.rng.Intn(4) {
		case 0:
			o.set("id", jg.anyValue(0))
		case 1:
			o.set("properties", jg.anyValue(2))
		default:
			o.set([]string{"name", "bbox", "x y", "Type", "feature", "feature"}[g.rng.Intn(6)], jg.anyValue(2))
		}
	}
	return 1, o, int64(g.rng.Intn(2)) * (1 + g.rng.Int63n(1<<30)), ""
}

func (g *cgen) leaf(kind int64) *ctree {
	switch kind {
	case 0:
		return &ctree{kind: 0, f: []int64{g.fnum(), g.fnum(), g.fnum()}, hasz: g.rng.Intn(2) == 0}
	case 1:
		return &ctree{kind: 1, f: g.coords(1)}
	case 2:
		return &ctree{kind: 2, f: g.coords(2)}
	case 3:
		return &ctree{kind: 3, f: g.coords(g.rng.Intn(5))}
	case 7:
		return &ctree{kind: 7, f: []int64{g.fnum(), g.fnum(), g.fnum()}, steps: int64(g.rng.Intn(70))}
	}
	c := &ctree{kind: 4}
	for r := g.rng.Intn(3) + 1; r > 0; r-- {
		c.rings = append(c.rings, g.coords(g.rng.Intn(6)))
	}
	return c
}

func (g *cgen) obj(depth int) *ctree {
	r := g.rng.Intn(12)
	if depth <= 0 && r >= 8 {
		r = g.rng.Intn(8)
	}
	switch {
	case r == 4 && g.rng.Intn(10) == 0:
		return &ctree{kind: 4} // NewPolygon(nil)
	case r < 5:
		return g.leaf(int64(r))
	case r == 5:
		return g.leaf(7)
	case r < 8:
		c := &ctree{kind: 5, kids: []*ctree{g.obj(depth - 1)}}
		c.mk, c.mdoc, c.mws, c.mtext = g.members()
		return c
	}
	c := &ctree{kind: 6, ck: int64(g.rng.Intn(5))}
	for i := g.rng.Intn(4); i > 0; i-- {
		switch c.ck {
		case 0:
			c.kids = append(c.kids, &ctree{kind: 0, f: []int64{g.fnum(), g.fnum(), 0}})
		case 1:
			c.kids = append(c.kids, g.leaf(3))
		case 2:
			c.kids = append(c.kids, g.leaf(4))
		default:
			c.kids = append(c.kids, g.obj(depth-1))
		}
	}
	return c
}

func streamC17(w *W, rng *rand.Rand, tier string) {
	n := 12000
	if tier == "thorough" {
		n = 200000
	}
	for it := 0; it < n; it++ {
		g := &cgen{rng: rng, s: int64(rng.Intn(4))}
		c := g.obj(2)
		w.Do(72, append([]int64{g.s}, c.enc(g.s)...), true)
		w.count("kind:" + c.typeName())
		if c.kind == 5 {
			w.count([]string{"members:none", "members:json-object", "members:other-text"}[c.mk])
		}
	}
}

func init() {
	impls[72] = implCtor
	streams["C17"] = streamC17
}
