package main

// C16: a shared pool of objects of all kinds queried concurrently by many
// goroutines; every result is compared with the result recorded sequentially
// first.  Built with -race by the check, so a data race aborts the run.

import (
	"fmt"
	"hash/fnv"
	"math/rand"
	"sync"

	"github.com/tidwall/geojson"
	"github.com/tidwall/geojson/geometry"
)

type raceOp struct {
	a, b int // indices into the pool
	m    int // method
}

func hashStr(s string) int64 {
	h := fnv.New64a()
	h.Write([]byte(s))
	return int64(h.Sum64() >> 1)
}

func doOp(pool []geojson.Object, op raceOp) int64 {
	A, B := pool[op.a], pool[op.b]
	switch op.m {
	case 0:
		return b2i(A.Contains(B))
	case 1:
		return b2i(A.Within(B))
	case 2:
		return b2i(A.Intersects(B))
	case 3:
		return hashStr(A.JSON())
	case 4:
		r := A.Rect()
		return hashStr(fmt.Sprint(r, A.Center(), A.Empty(), A.Valid(), A.NumPoints()))
	case 5:
		return hashStr(fmt.Sprint(A.Distance(B)))
	case 6:
		n := 0
		A.ForEach(func(g geojson.Object) bool { n += g.NumPoints(); return true })
		return int64(n)
	case 7:
		if c, ok := A.(geojson.Collection); ok {
			n := 0
			c.Search(B.Rect(), func(ch geojson.Object) bool { n++; return n < 5 })
			return int64(n)
		}
		return hashStr(string(A.AppendJSON([]byte("x"))))
	case 8:
		return hashStr(A.String() + A.Members())
	default:
		sp := A.Spatial()
		r := B.Rect()
		return b2i(sp.IntersectsRect(r)) + 2*b2i(sp.WithinRect(r)) + 4*b2i(sp.IntersectsPoint(r.Min))
	}
}

func racePool(rng *rand.Rand) []geojson.Object {
	var pool []geojson.Object
	g := &jgen{rng: rng, s: 1}
	for len(pool) < 60 {
		doc := g.document(false)
		text := renderText(doc, 0)
		for _, bits := range []int64{0, 2 << 4, 3 << 6, 1 | 2, 2<<4 | 2<<6} {
			if o, err := geojson.Parse(text, mkParseOpts(bits)); err == nil {
				pool = append(pool, o)
			}
		}
	}
	// long indexed rings, collections above the child-index threshold, circles, constructor-built objects
	big := bigSquare(64, 32, 0, 0, 0)
	pool = append(pool, geojson.NewPolygon(mkPoly([][]ipt{closeRing(big)}, 0, idxOpts(2, 1))),
		geojson.NewPolygon(mkPoly([][]ipt{closeRing(big)}, 0, idxOpts(1, 1))))
	var pts []geometry.Point
	for i := 0; i < 100; i++ {
		pts = append(pts, geometry.Point{X: float64(rng.Intn(64)), Y: float64(rng.Intn(64))})
	}
	pool = append(pool, geojson.NewMultiPoint(pts),
		geojson.NewCircle(geometry.Point{X: 10, Y: 10}, 500000, 64), geojson.NewCircle(geometry.Point{X: 20, Y: 12}, 900000, 12),
		geojson.NewRect(geometry.Rect{Min: geometry.Point{X: 1, Y: 1}, Max: geometry.Point{X: 30, Y: 30}}),
		geojson.NewSimplePoint(geometry.Point{X: 5, Y: 5}))
	return pool
}

func streamC16(w *W, rng *rand.Rand, tier string) {
	pool := racePool(rng)
	nops, workers, rounds := 400, 8, 6
	if tier == "thorough" {
		nops, workers, rounds = 3000, 16, 20
	}
	ops := make([]raceOp, nops)
	want := make([]int64, nops)
	for i := range ops {
		ops[i] = raceOp{rng.Intn(len(pool)), rng.Intn(len(pool)), rng.Intn(10)}
		want[i] = doOp(pool, ops[i]) // run alone
	}
	for r := 0; r < rounds; r++ {
		bad := make([]int64, workers)
		var wg sync.WaitGroup
		for k := 0; k < workers; k++ {
			wg.Add(1)
			go func(k int, seed int64) {
				defer wg.Done()
				lr := rand.New(rand.NewSource(seed))
				for n := 0; n < nops; n++ {
					i := lr.Intn(nops)
					if doOp(pool, ops[i]) != want[i] {
						bad[k]++
					}
				}
			}(k, rng.Int63())
		}
		wg.Wait()
		for k := 0; k < workers; k++ {
			// one case line per (round, worker): [number of answers that differed from the solo run]
			w.Case(90, []int64{int64(r), int64(k), int64(nops), int64(len(pool))}, []int64{bad[k]}, true)
		}
	}
	w.hist["pool-objects"] = len(pool)
	w.hist["distinct-operations"] = nops
	w.hist["concurrent-calls"] = rounds * workers * nops
}

func init() {
	impls[90] = func(a []int64) []int64 { return []int64{0} }
	streams["C16"] = streamC16
}
