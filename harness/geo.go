package main

// Spherical geometry (properties C13, C14, C15): the real-valued model of
// coq/Sphere.v cannot be extracted, so these streams (i) compute the properties'
// clauses as flags from the implementation's own float64 answers with explicit
// tolerances, and (ii) put inputs and outputs on the case line as float64 bit
// patterns, from which tools/geo_goals.py writes goals that the `interval` tactic
// certifies inside Coq: the model evaluated at these inputs encloses the outputs.

import (
	"math"
	"math/rand"

	"github.com/tidwall/geojson"
	"github.com/tidwall/geojson/geo"
	"github.com/tidwall/geojson/geometry"
)

const earthR = 6371e3
const piR = math.Pi * earthR

func fb(f float64) int64     { return int64(math.Float64bits(f)) }
func bf(b int64) float64     { return math.Float64frombits(uint64(b)) }
func tolD(d float64) float64 { return math.Max(1e-3, 1e-6*math.Abs(d)) }
func tolR(r float64) float64 { return math.Max(1e-3, 1e-8*math.Abs(r)) }

// tag 80: args = bits(latA lonA latB lonB d bearing x) ++ bits(outputs); out = 10 flags
func implGeo15(a []int64) []int64 {
	latA, lonA, latB, lonB, d, th, x := bf(a[0]), bf(a[1]), bf(a[2]), bf(a[3]), bf(a[4]), bf(a[5]), bf(a[6])
	dAB, dBA := geo.DistanceTo(latA, lonA, latB, lonB), geo.DistanceTo(latB, lonB, latA, lonA)
	f1 := math.Abs(dAB-dBA) <= tolD(dAB)
	f2 := geo.DistanceTo(latA, lonA, latA, lonA) == 0 && geo.Haversine(latB, lonB, latB, lonB) == 0
	f3 := dAB >= 0 && dAB <= piR*(1+1e-12) && !math.IsNaN(dAB)
	la, lo := geo.DestinationPoint(latA, lonA, d, th)
	f4 := la >= -90 && la <= 90 && lo >= -180 && lo <= 180
	back := geo.DistanceTo(latA, lonA, la, lo)
	f5 := math.Abs(back-d) <= tolD(d)
	f6 := true
	if d >= 1 && d <= piR-1e6 && math.Abs(latA) <= 89 && math.Abs(la) <= 89.9 {
		b := geo.BearingTo(latA, lonA, la, lo)
		diff := math.Abs(b - th)
		if diff > 180 {
			diff = 360 - diff
		}
		cond := math.Sin(d/earthR) * math.Cos(latA*math.Pi/180)
		f6 = diff <= 1e-6*math.Max(1, 1e-6/math.Max(cond, 1e-12))
	}
	d2 := d*(1+1e-9) + 1e-6 + math.Abs(x)
	f7 := true
	if d2 <= piR {
		f7 = geo.DistanceToHaversine(d) < geo.DistanceToHaversine(d2) || d2-d < 1e-3
		f7 = f7 && geo.DistanceToHaversine(d) <= geo.DistanceToHaversine(d2)
	}
	f8 := math.Abs(geo.DistanceFromHaversine(geo.DistanceToHaversine(d))-d) <= tolD(d)
	big := d * 1000
	n1 := geo.NormalizeDistance(big)
	f9 := geo.NormalizeDistance(n1) == n1 && math.Abs(geo.DistanceToHaversine(n1)-geo.DistanceToHaversine(big)) <= 1e-6
	f10 := true
	if x > -180 && x < 180 {
		f10 = math.Abs(geo.SemiToDegs(geo.DegsToSemi(x))-x) <= 180.0/math.Pow(2, 31)*(1+1e-9)
	}
	// the outputs on the case line are those of this build
	outs := []float64{geo.Haversine(latA, lonA, latB, lonB), dAB, geo.DistanceToHaversine(d), la, lo}
	same := true
	for i, o := range outs {
		if fb(o) != a[7+i] {
			same = false
		}
	}
	return append(bools(f1, f2, f3, f4, f5, f6, f7, f8, f9, f10), b2i(same))
}

// tag 81: args = bits(lat lon meters) ++ bits(minLat minLon maxLat maxLon) ++ seed; out = 5 flags + same
func implGeo14(a []int64) []int64 {
	lat, lon, m := bf(a[0]), bf(a[1]), bf(a[2])
	mnLat, mnLon, mxLat, mxLon := geo.RectFromCenter(lat, lon, m)
	g1 := !math.IsNaN(mnLat) && !math.IsNaN(mnLon) && !math.IsNaN(mxLat) && !math.IsNaN(mxLon)
	g2 := mnLat >= -90 && mxLat <= 90 && mnLon >= -180 && mxLon <= 180 && mnLat <= mxLat && mnLon <= mxLon
	g3 := true
	if m >= 1 && m <= piR {
		rng := rand.New(rand.NewSource(a[7]))
		for i := 0; i < 48; i++ {
			th := rng.Float64() * 360
			switch i % 6 {
			case 0:
				th = float64(i/6) * 45
			case 1: // the tangent longitudes are reached near these bearings
				th = 90 + (rng.Float64()-0.5)*40
			case 2:
				th = 270 + (rng.Float64()-0.5)*40
			}
			d := m
			if i%3 == 2 {
				d = m * rng.Float64()
			}
			pl, po := geo.DestinationPoint(lat, lon, d, th)
			// DestinationPoint only proposes the probe (it loses accuracy at the poles); what counts is
			// that the probe's own great-circle distance from the centre is at most the radius
			if back := geo.DistanceTo(lat, lon, pl, po); !(back <= m) {
				continue
			}
			slackLat := 0.01 / 111000.0 // one centimetre on the ground
			slackLon := slackLat / math.Max(math.Cos(pl*math.Pi/180), 1e-15)
			inLon := false // longitudes are compared modulo 360 (a centimetre across the antimeridian is a centimetre)
			for _, k := range []float64{-360, 0, 360} {
				if po+k >= mnLon-slackLon && po+k <= mxLon+slackLon {
					inLon = true
				}
			}
			if !(pl >= mnLat-slackLat && pl <= mxLat+slackLat && inLon) {
				g3 = false
			}
		}
	}
	// widening: the disc reaches a pole -> full longitude range
	g4 := true
	reach := m / earthR * 180 / math.Pi
	if m >= 1 && m <= piR && (lat+reach > 90+1e-9 || lat-reach < -90-1e-9) {
		g4 = mnLon == -180 && mxLon == 180
	}
	// radii too small to resolve: the degenerate rectangle at the centre
	g5 := true
	if m >= 0 && m < 0.25 && math.Abs(lat) < 89.9 {
		g5 = mnLat == mxLat && mnLon == mxLon && math.Abs(mnLat-lat) < 1e-9 && math.Abs(mnLon-lon) < 1e-9
	}
	same := fb(mnLat) == a[3] && fb(mnLon) == a[4] && fb(mxLat) == a[5] && fb(mxLon) == a[6]
	return bools(g1, g2, g3, g4, g5, same)
}

// tag 82: args = bits(clat clon meters) steps bits(plat plon) bits(c2lat c2lon m2) steps2; out = 10 flags
func implGeo13(a []int64) []int64 {
	clat, clon, m := bf(a[0]), bf(a[1]), bf(a[2])
	steps := int(a[3])
	plat, plon := bf(a[4]), bf(a[5])
	c2lat, c2lon, m2 := bf(a[6]), bf(a[7]), bf(a[8])
	steps2 := int(a[9])
	c := geojson.NewCircle(geometry.Point{X: clon, Y: clat}, m, steps)
	pt := geometry.Point{X: plon, Y: plat}
	P, SP := geojson.NewPoint(pt), geojson.NewSimplePoint(pt)
	inRange := m >= 0 && m <= piR
	d := geo.DistanceTo(clat, clon, plat, plon)
	want := d <= m
	free := math.Abs(d-m) <= tolR(m)
	ok := func(got bool) bool { return !inRange || free || got == want }
	h1, h2, h3, h4 := ok(c.Contains(P)), ok(c.Contains(SP)), ok(c.Intersects(P)), ok(c.Intersects(SP))
	h5 := !inRange || (P.Within(c) == c.Contains(P) && SP.Within(c) == c.Contains(SP) &&
		P.Intersects(c) == c.Intersects(P) && SP.Intersects(c) == c.Intersects(SP))
	h6 := true
	if inRange && m*1.5 <= piR && c.Contains(P) {
		h6 = geojson.NewCircle(geometry.Point{X: clon, Y: clat}, m*1.5, steps).Contains(P)
	}
	c2 := geojson.NewCircle(geometry.Point{X: c2lon, Y: c2lat}, m2, steps2)
	dc := geo.DistanceTo(clat, clon, c2lat, c2lon)
	in2 := m2 >= 0 && m2 <= piR
	h7, h8 := true, true
	if inRange && in2 {
		t := tolR(m + m2)
		if c.Contains(c2) { // only if every point of c2 is within c
			h7 = dc+m2 <= m+t
		}
		if math.Abs(dc-(m+m2)) > t {
			h8 = c.Intersects(c2) == (dc <= m+m2) && c2.Intersects(c) == (dc <= m+m2)
		}
	}
	// serialisation: the fixed Feature form parses back to a Circle with the same centre and radius
	h9 := true
	if !math.IsNaN(m) && !math.IsInf(m, 0) {
		o, err := geojson.Parse(c.JSON(), nil)
		cc, isC := o.(*geojson.Circle)
		h9 = err == nil && isC && cc.Center() == c.Center() && cc.Meters() == c.Meters() && o.JSON() == c.JSON()
	}
	// the polygon approximation: a closed ring centred on the centre whose rectangle contains the centre
	h10 := true
	if inRange && m >= 1 && math.Abs(clat)+m/earthR*180/math.Pi < 89 {
		poly, isP := c.Polygon().(*geojson.Polygon)
		if !isP {
			h10 = false
		} else {
			ext := poly.Base().Exterior
			n := ext.NumPoints()
			r := poly.Rect()
			h10 = n >= 4 && ext.PointAt(0) == ext.PointAt(n-1) && r.ContainsPoint(geometry.Point{X: clon, Y: clat})
			// every vertex lies on the ellipse of half-axes (lons, lats) about the centre
			lats := (r.Max.Y - r.Min.Y) / 2
			var maxdx float64
			for i := 0; i < n; i++ {
				maxdx = math.Max(maxdx, math.Abs(ext.PointAt(i).X-clon))
			}
			for i := 0; i < n && h10; i++ {
				p := ext.PointAt(i)
				ex, ey := (p.X-clon)/maxdx, (p.Y-clat)/math.Max(lats, 1e-300)
				_ = ey
				if math.Abs(ex) > 1+1e-9 {
					h10 = false
				}
			}
		}
	}
	// step counts below 3 are clamped to 3: the same approximation as an explicit 3
	if steps < 3 && !math.IsNaN(m) && !math.IsInf(m, 0) {
		c3 := geojson.NewCircle(geometry.Point{X: clon, Y: clat}, m, 3)
		if c.Polygon().JSON() != c3.Polygon().JSON() {
			h10 = false
		}
	}
	return bools(h1, h2, h3, h4, h5, h6, h7, h8, h9, h10)
}

// tag 83 (C09, Circle dispatch): args = bits(clat clon meters) steps bits(plat plon); out = 5 law flags
func implCircleLaws(a []int64) []int64 {
	clat, clon, m := bf(a[0]), bf(a[1]), bf(a[2])
	c := geojson.NewCircle(geometry.Point{X: clon, Y: clat}, m, int(a[3]))
	pt := geometry.Point{X: bf(a[5]), Y: bf(a[4])}
	P, SP := geojson.NewPoint(pt), geojson.NewSimplePoint(pt)
	xs := []geojson.Object{P, SP, geojson.NewMultiPoint([]geometry.Point{pt}),
		geojson.NewGeometryCollection([]geojson.Object{geojson.NewPoint(pt)}),
		geojson.NewFeatureCollection([]geojson.Object{geojson.NewFeature(geojson.NewPoint(pt), "")})}
	l1, l2, l3, l4 := true, true, true, true
	for _, x := range xs {
		f := geojson.NewFeature(x, `{"properties":{"name":"x"}}`)
		if c.Intersects(f) != c.Intersects(x) || c.Contains(f) != c.Contains(x) ||
			f.Intersects(c) != x.Intersects(c) || f.Within(c) != x.Within(c) {
			l1 = false // a Feature answers as its geometry
		}
		for _, y := range []geojson.Object{x, f} {
			if c.Intersects(y) != y.Intersects(c) {
				l2 = false // Intersects is symmetric
			}
			if y.Within(c) != c.Contains(y) || c.Within(y) != y.Contains(c) {
				l3 = false // Within = Contains swapped
			}
			if c.Contains(y) && !y.Empty() && !c.Intersects(y) {
				l4 = false // contains => intersects
			}
		}
	}
	l5 := c.Contains(SP) == c.Contains(P) && c.Intersects(SP) == c.Intersects(P) &&
		SP.Intersects(c) == P.Intersects(c) && SP.Within(c) == P.Within(c)
	return bools(l1, l2, l3, l4, l5)
}

func streamCircleLaws(w *W, rng *rand.Rand, n int) {
	g := &geoGen{rng}
	for it := 0; it < n; it++ {
		clat, clon := rng.Float64()*160-80, g.lon()
		m := math.Pow(10, 1+5*rng.Float64())
		steps := []int{3, 12, 64, 64, 64, 360}[rng.Intn(6)]
		var d, th float64
		switch rng.Intn(4) {
		case 0: // the sliver between the circle and a chord of its polygon approximation
			d, th = m*(1-1e-4*(1+4*rng.Float64())), 90-(float64(rng.Intn(64))+0.5)*360/64
		case 1:
			d, th = m*(1+1e-3*(1+rng.Float64())), rng.Float64()*360
		case 2:
			d, th = m*rng.Float64(), rng.Float64()*360
		default:
			d, th = m*(1+rng.Float64()), rng.Float64()*360
		}
		plat, plon := geo.DestinationPoint(clat, clon, d, th)
		w.Do(83, []int64{fb(clat), fb(clon), fb(m), int64(steps), fb(plat), fb(plon)}, true)
		w.count("circle-laws")
	}
}

type geoGen struct{ rng *rand.Rand }

func (g *geoGen) lat() float64 {
	switch g.rng.Intn(10) {
	case 0:
		return 90
	case 1:
		return -90
	case 2:
		return 90 - 1e-9*g.rng.Float64()
	case 3:
		return -89.9 + g.rng.Float64()*0.2
	case 4:
		return 0
	}
	return g.rng.Float64()*180 - 90
}

func (g *geoGen) lon() float64 {
	switch g.rng.Intn(10) {
	case 0:
		return 180
	case 1:
		return -180
	case 2:
		return 180 - 1e-9*g.rng.Float64()
	case 3:
		return -179.99 + g.rng.Float64()*0.02
	case 4:
		return 0
	}
	return g.rng.Float64()*360 - 180
}

func (g *geoGen) dist() float64 {
	switch g.rng.Intn(12) {
	case 0:
		return 0
	case 1:
		return 1e-3 * g.rng.Float64()
	case 2:
		return 0.2 + 0.2*g.rng.Float64() // around the resolution guard of RectFromCenter
	case 3:
		return 1 + g.rng.Float64()
	case 4:
		return piR * (1 - 1e-9*g.rng.Float64())
	case 5:
		return piR / 2
	case 6, 7:
		return math.Pow(10, 1+5*g.rng.Float64())
	}
	return g.rng.Float64() * piR * 0.999
}

func streamC15(w *W, rng *rand.Rand, tier string) {
	n := 40000
	if tier == "thorough" {
		n = 1000000
	}
	g := &geoGen{rng}
	// corpus of earlier failures (runs first): antipodal pairs whose haversine rounds above 1 (NaN
	// before fix a5ec9f5) and trips of just under half the circumference
	corpus := [][6]float64{
		{43.97036209762885, -129.24243174827706, -43.97036209762885, 50.757568251722944, 749381.9890835233, 34.44872541360733},
		{-47.765139114253074, 30.83565006149348, 47.765139114253074, -149.16434993850652, 637807.2525800511, 17.808359725275192},
		{-42.45726218791798, 179.99999999978883, 42.45726218791798, -2.1117330106790178e-10, 10007543.398010286, 115.69840376270179},
		{59.00610327455669, -43.340538574028955, 17.555921931951403, 0, 20015086.789148405, 164.2805663174511},
		{-56.51186656433689, -102.46935956236335, 0, 179.99999999908485, 20015086.777719684, 290.607321705069},
		{56.54214834942121, 0, -56.54214834942121, 180, 20015086.79258344, 270},
		{-59.22679209876974, 180, 0, -179.97374997412774, 20015086.777351595, 151.17012523011846},
		{-57.82694218722144, 180, 89.99999999997578, 5.107544973032219, 20015086.791361973, 7.702785374925645},
		{42.382420070131644, -73.44793678558557, -90, 104.85454945878428, 20015086.792518962, 7.188052952603912},
	}
	for it := 0; it < n; it++ {
		latA, lonA, latB, lonB := g.lat(), g.lon(), g.lat(), g.lon()
		switch rng.Intn(8) {
		case 0: // antipodal pair
			latB, lonB = -latA, lonA+180
			if lonB > 180 {
				lonB -= 360
			}
		case 1: // neighbours
			latB, lonB = math.Max(-90, math.Min(90, latA+1e-6*rng.NormFloat64())), math.Max(-180, math.Min(180, lonA+1e-6*rng.NormFloat64()))
		}
		d, th := g.dist(), rng.Float64()*360
		if rng.Intn(6) == 0 {
			th = float64(rng.Intn(8)) * 45
		}
		if d >= piR {
			d = piR * 0.999999
		}
		if rng.Intn(50) == 0 { // millimetres short of half the circumference
			d = piR - 0.03*rng.Float64()
		}
		if it < len(corpus) {
			c := corpus[it]
			latA, lonA, latB, lonB, d, th = c[0], c[1], c[2], c[3], c[4], c[5]
		}
		x := rng.Float64()*360 - 180
		la, lo := geo.DestinationPoint(latA, lonA, d, th)
		args := []int64{fb(latA), fb(lonA), fb(latB), fb(lonB), fb(d), fb(th), fb(x),
			fb(geo.Haversine(latA, lonA, latB, lonB)), fb(geo.DistanceTo(latA, lonA, latB, lonB)), fb(geo.DistanceToHaversine(d)), fb(la), fb(lo)}
		w.Do(80, args, true)
		if math.Abs(latA) > 89.9 {
			w.count("start:near-pole")
		}
		if d < 1 {
			w.count("distance:<1m")
		} else if d > piR*0.99 {
			w.count("distance:near-antipode")
		}
	}
}

// corpus of earlier failures (runs first): metre-scale radii whose longitude width lost 1% (before fix
// 7efb257), and quarter-circumference radii on the equator (where an asin form loses the width instead)
var c14corpus = [][3]float64{
	{-13.125630165333263, 141.912597632381, 1.0064278155695563},
	{-24.909418854497815, -131.52856619959792, 1.080106503380984},
	{-89.8294757172267, -140.9166036385549, 1.0330013680138395},
	{0, 33.66193991823047, 10007543.327367872},
	{0, -39.343403901080734, 10007543.275911517},
	{0, 86.60374778051141, 10007543.276599066},
}

func streamC14(w *W, rng *rand.Rand, tier string) {
	n := 30000
	if tier == "thorough" {
		n = 600000
	}
	g := &geoGen{rng}
	for it := 0; it < n; it++ {
		lat, lon, m := g.lat(), g.lon(), g.dist()
		switch rng.Intn(6) {
		case 0: // pole-grazing radii
			m = (90 - math.Abs(lat)) * math.Pi / 180 * earthR * (1 + (rng.Float64()-0.5)*2e-6)
		case 1: // antimeridian-grazing at this latitude
			m = (180 - math.Abs(lon)) * math.Pi / 180 * earthR * math.Cos(lat*math.Pi/180) * (1 + (rng.Float64()-0.5)*1e-3)
		}
		if rng.Intn(12) == 0 { // metre-scale radii: cos(r) is within a few hundred ulps of 1
			m = 1 + 4*rng.Float64()*rng.Float64()
		}
		if m < 0 || math.IsNaN(m) {
			m = 0
		}
		if it < len(c14corpus) {
			lat, lon, m = c14corpus[it][0], c14corpus[it][1], c14corpus[it][2]
		}
		a, b, c, d := geo.RectFromCenter(lat, lon, m)
		w.Do(81, []int64{fb(lat), fb(lon), fb(m), fb(a), fb(b), fb(c), fb(d), rng.Int63()}, true)
		if m < 0.3 {
			w.count("radius:unresolvable")
		}
		if b == -180 && d == 180 {
			w.count("rect:full-longitude")
		}
	}
}

func streamC13(w *W, rng *rand.Rand, tier string) {
	n := 6000
	if tier == "thorough" {
		n = 100000
	}
	g := &geoGen{rng}
	for it := 0; it < n; it++ {
		clat, clon := g.rng.Float64()*170-85, g.lon()
		if rng.Intn(10) == 0 {
			clat = g.lat()
		}
		m := g.dist()
		if rng.Intn(3) == 0 {
			m = math.Pow(10, 6*rng.Float64())
		}
		steps := []int{0, 2, 3, 4, 7, 12, 64, 64, 64, 360, 4096, 1, -1, -64}[rng.Intn(14)]
		// probe point: inside, outside, and in the sliver between the circle and its polygon approximation
		var plat, plon float64
		th := rng.Float64() * 360
		switch rng.Intn(5) {
		case 0:
			plat, plon = geo.DestinationPoint(clat, clon, m*rng.Float64(), th)
		case 1:
			plat, plon = geo.DestinationPoint(clat, clon, m*(1+rng.Float64()), th)
		case 2: // just inside the radius, between two polygon vertices
			k := float64(rng.Intn(64)) + 0.5
			plat, plon = geo.DestinationPoint(clat, clon, m*(1-1e-4*rng.Float64()), 90-k*360/64)
		case 3:
			if rng.Intn(2) == 0 { // just outside the tolerance band, either side
				off := tolR(m) * (1.5 + 30*rng.Float64())
				if rng.Intn(2) == 0 {
					off = -off
				}
				plat, plon = geo.DestinationPoint(clat, clon, math.Max(0, m+off), th)
			} else {
				plat, plon = geo.DestinationPoint(clat, clon, m*(1+1e-4*rng.Float64()), th)
			}
		default:
			plat, plon = g.lat(), g.lon()
		}
		// second circle at a controlled distance
		m2 := g.dist()
		if rng.Intn(2) == 0 {
			m2 = m * rng.Float64() * 2
		}
		var dd float64
		switch rng.Intn(4) {
		case 0:
			dd = (m + m2) * (0.9 + 0.2*rng.Float64()) // around the sum of the radii
		case 1:
			dd = math.Abs(m-m2) * (0.9 + 0.2*rng.Float64()) // around the difference
		case 2:
			dd = (m + m2) * rng.Float64()
		default:
			dd = rng.Float64() * piR
		}
		if dd >= piR {
			dd = piR * 0.99
		}
		c2lat, c2lon := geo.DestinationPoint(clat, clon, dd, rng.Float64()*360)
		steps2 := []int{3, 5, 64, 64, 33}[rng.Intn(5)]
		if rng.Intn(25) == 0 { // serialisation / totality only
			m = []float64{-5, math.NaN(), math.Inf(1), piR * 3, -0.0}[rng.Intn(5)]
		}
		// the implementation's answer on the case line, for the certified tie (tools/geo_goals.py)
		ans := int64(2)
		if m >= 0 && m <= piR {
			ans = b2i(geojson.NewCircle(geometry.Point{X: clon, Y: clat}, m, steps).Contains(geojson.NewPoint(geometry.Point{X: plon, Y: plat})))
		}
		w.Do(82, []int64{fb(clat), fb(clon), fb(m), int64(steps), fb(plat), fb(plon), fb(c2lat), fb(c2lon), fb(m2), int64(steps2), ans}, true)
		if steps != steps2 {
			w.count("circles:different-steps")
		}
	}
}

func init() {
	impls[80] = implGeo15
	impls[81] = implGeo14
	impls[82] = implGeo13
	impls[83] = implCircleLaws
	streams["C15"] = streamC15
	streams["C14"] = streamC14
	streams["C13"] = streamC13
}
