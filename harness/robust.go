package main

// C05: every operation terminates normally on every input.  All ordered pairs
// of object kinds (incl. Circle, NewPolygon(nil), empty collections, one-point
// lines, zero-length segments, repeated vertices, nested features) as receiver
// and argument of every method, and arbitrary byte strings into Parse, under a
// watchdog.  A panic is recorded by W.Do; a call that does not return within
// the budget aborts the run naming the case.

import (
	"fmt"
	"math/rand"
	"os"
	"strings"
	"sync/atomic"
	"time"

	"github.com/tidwall/geojson"
	"github.com/tidwall/geojson/geometry"
)

var currentCase atomic.Value // string
var callStart atomic.Int64    // unix nanos, 0 = idle

func startWatchdog(budget time.Duration) {
	go func() {
		for {
			time.Sleep(200 * time.Millisecond)
			if t := callStart.Load(); t != 0 && time.Since(time.Unix(0, t)) > budget {
				fmt.Fprintf(os.Stderr, "WATCHDOG: the call did not return within %v: case %v\n", budget, currentCase.Load())
				os.Exit(3)
			}
		}
	}()
}

// robust trees: otree kinds plus 7 = Circle (rect[0..2] = lat lon meters, ck = steps) and polygon with no rings = NewPolygon(nil)
func buildRobust(o *otree, s int64) geojson.Object {
	switch o.kind {
	case 7:
		return geojson.NewCircle(geometry.Point{X: fl(o.rect[1], s), Y: fl(o.rect[0], s)}, fl(o.rect[2], s), int(o.ck))
	case 4:
		if len(o.rings) == 0 {
			return geojson.NewPolygon(nil)
		}
	case 5:
		return geojson.NewFeature(buildRobust(o.kids[0], s), "")
	case 6:
		if o.ck >= 3 {
			var objs []geojson.Object
			for _, k := range o.kids {
				objs = append(objs, buildRobust(k, s))
			}
			if o.ck == 3 {
				return geojson.NewGeometryCollection(objs)
			}
			return geojson.NewFeatureCollection(objs)
		}
	}
	return o.build(s, pairCfgs[robustCfg])
}

var robustCfg = 1 // geometry index configuration of the current case (none, rtree/1, quadtree/1, quadtree/64)

func encRobust(o *otree) []int64 {
	if o.kind == 7 {
		return []int64{7, o.rect[0], o.rect[1], o.rect[2], o.ck}
	}
	if o.kind == 5 {
		return append([]int64{5}, encRobust(o.kids[0])...)
	}
	if o.kind == 6 {
		out := []int64{6, o.ck, int64(len(o.kids))}
		for _, k := range o.kids {
			out = append(out, encRobust(k)...)
		}
		return out
	}
	return o.enc()
}

func decRobust(a []int64) (*otree, []int64) {
	switch a[0] {
	case 7:
		return &otree{kind: 7, rect: [4]int64{a[1], a[2], a[3], 0}, ck: a[4]}, a[5:]
	case 5:
		b, rest := decRobust(a[1:])
		return &otree{kind: 5, kids: []*otree{b}}, rest
	case 6:
		o := &otree{kind: 6, ck: a[1]}
		n := int(a[2])
		rest := a[3:]
		for i := 0; i < n; i++ {
			var k *otree
			k, rest = decRobust(rest)
			o.kids = append(o.kids, k)
		}
		return o, rest
	}
	return decObj(a)
}

const nRobustMethods = 22

func callMethod(m int, A, B geojson.Object) {
	switch m {
	case 0:
		A.Contains(B)
	case 1:
		A.Within(B)
	case 2:
		A.Intersects(B)
	case 3:
		A.Distance(B)
	case 4:
		A.Rect()
		A.Center()
	case 5:
		_ = A.JSON()
		_ = A.String()
		A.MarshalJSON()
		A.AppendJSON([]byte("p"))
	case 6:
		A.NumPoints()
		A.Empty()
		A.Valid()
		A.Members()
	case 7:
		A.ForEach(func(g geojson.Object) bool { g.Rect(); return true })
	case 8:
		if c, ok := A.(geojson.Collection); ok {
			c.Search(B.Rect(), func(ch geojson.Object) bool { return true })
			c.Children()
			c.Indexed()
		}
	default:
		sp := A.Spatial()
		r := B.Rect()
		line := geometry.NewLine([]geometry.Point{r.Min, r.Max, {X: r.Min.X, Y: r.Max.Y}}, nil)
		poly := geometry.NewPoly([]geometry.Point{r.Min, {X: r.Max.X, Y: r.Min.Y}, r.Max, r.Min}, nil, nil)
		switch m {
		case 9:
			sp.WithinRect(r)
		case 10:
			sp.WithinPoint(r.Min)
		case 11:
			sp.WithinLine(line)
		case 12:
			sp.WithinPoly(poly)
		case 13:
			sp.IntersectsRect(r)
		case 14:
			sp.IntersectsPoint(r.Max)
		case 15:
			sp.IntersectsLine(line)
		case 16:
			sp.IntersectsPoly(poly)
		case 17:
			sp.DistanceRect(r)
		case 18:
			sp.DistancePoint(r.Min)
		case 19:
			sp.DistanceLine(line)
		case 20:
			sp.DistancePoly(poly)
		default:
			// geometry level with degenerate arguments
			sp.WithinLine(geometry.NewLine(nil, nil))
			sp.IntersectsLine(geometry.NewLine([]geometry.Point{r.Min}, nil))
			sp.WithinPoly(geometry.NewPoly(nil, nil, nil))
			sp.IntersectsPoly(&geometry.Poly{})
		}
	}
}

// tag 95: args = s method encA encB -> [1] (returned normally)
func implRobust(a []int64) []int64 {
	s, m := a[0], int(a[1]%32)
	ta, rest := decRobust(a[2:])
	tb, _ := decRobust(rest)
	robustCfg = int((a[1] / 32) % 4)
	A, B := buildRobust(ta, s), buildRobust(tb, s)
	callMethod(m, A, B)
	return []int64{1}
}

// tag 96: args = option bits, bytes -> [1] when Parse returned exactly one of (object, error)
func implParseBytes(a []int64) []int64 {
	b := make([]byte, len(a)-1)
	for i, x := range a[1:] {
		b[i] = byte(x)
	}
	o, err := geojson.Parse(string(b), mkParseOpts(a[0]))
	if (o == nil) == (err == nil) {
		return []int64{0}
	}
	if o != nil { // and the object is usable
		_ = o.JSON()
		o.Rect()
		o.Valid()
		o.NumPoints()
		o.Contains(o)
		o.Intersects(o)
	}
	return []int64{1}
}

// tag 97: args = option bits, method, length of the first document, bytes of both documents
// -> [1] when the method returned (or a document was rejected).  Objects obtained from Parse may
// carry coordinates no constructor case has: 1e999 is accepted and becomes +Inf.
func implParsePair(a []int64) []int64 {
	n := int(a[2])
	ba, bb := make([]byte, n), make([]byte, len(a)-3-n)
	for i := range ba {
		ba[i] = byte(a[3+i])
	}
	for i := range bb {
		bb[i] = byte(a[3+n+i])
	}
	A, ea := geojson.Parse(string(ba), mkParseOpts(a[0]))
	B, eb := geojson.Parse(string(bb), mkParseOpts(a[0]))
	if ea != nil || eb != nil {
		return []int64{1}
	}
	callMethod(int(a[1]%32), A, B)
	return []int64{1}
}

// documents whose numerals include the extremes of float64 and beyond
var extremeNums = []string{"0", "1", "2", "3", "-1", "0.5", "1e999", "-1e999", "1e308", "-1e308", "1.7976931348623157e308",
	"5e-324", "1e-999", "-0", "179.99999999999997", "90"}

func extremeDoc(rng *rand.Rand) string {
	num := func() string {
		if rng.Intn(3) == 0 {
			return extremeNums[6+rng.Intn(len(extremeNums)-6)]
		}
		return extremeNums[rng.Intn(6)]
	}
	pos := func() string { return "[" + num() + "," + num() + "]" }
	line := func(n int) string {
		var ps []string
		for i := 0; i < n; i++ {
			ps = append(ps, pos())
		}
		return "[" + strings.Join(ps, ",") + "]"
	}
	ring := func() string {
		n := 3 + rng.Intn(3)
		var ps []string
		for i := 0; i < n; i++ {
			ps = append(ps, pos())
		}
		ps = append(ps, ps[0])
		return "[" + strings.Join(ps, ",") + "]"
	}
	switch rng.Intn(7) {
	case 6: // a Circle: centre and radius may be extreme too
		rad := []string{"1", "100", "1e6", "1e999", "1e308", "5e-324", "0", "-1"}[rng.Intn(8)]
		steps := []string{"", `,"steps":3`, `,"steps":64`, `,"steps":1e9`, `,"steps":-1`}[rng.Intn(5)]
		return `{"type":"Feature","geometry":{"type":"Point","coordinates":` + pos() + `},"properties":{"type":"Circle","radius":` + rad + `,"radius_units":"m"` + steps + `}}`
	case 0:
		return `{"type":"Point","coordinates":` + pos() + `}`
	case 1:
		return `{"type":"MultiPoint","coordinates":` + line(1+rng.Intn(3)) + `}`
	case 2, 3:
		return `{"type":"LineString","coordinates":` + line(2+rng.Intn(3)) + `}`
	case 4:
		return `{"type":"Polygon","coordinates":[` + ring() + `]}`
	default:
		return `{"type":"Feature","geometry":{"type":"Polygon","coordinates":[` + ring() + `,` + ring() + `]},"properties":{}}`
	}
}

// pairs that did not return on the pinned tree (Segment.Raycast's Nextafter loop at +Inf): run first
var c05corpus = [][2]string{
	{`{"type":"LineString","coordinates":[[0,1e999],[1,1e999]]}`, `{"type":"LineString","coordinates":[[0.5,1e999],[2,1e999]]}`},
	{`{"type":"Polygon","coordinates":[[[0,0],[4,0],[4,1e999],[0,1e999],[0,0]]]}`, `{"type":"LineString","coordinates":[[1,1e999],[2,1e999]]}`},
}

func degenerateLeaf(rng *rand.Rand) *otree {
	p := func() ipt { return ipt{rng.Int63n(7) - 3, rng.Int63n(7) - 3} }
	switch rng.Intn(14) {
	case 12: // many segments that all span the full extent of the larger axis (index splits cannot separate them)
		n := 20 + rng.Intn(60)
		ln := make([]ipt, n)
		for i := range ln {
			ln[i] = ipt{int64(i%2) * 1000, int64(i)}
		}
		if rng.Intn(2) == 0 {
			for i := range ln {
				ln[i] = ipt{ln[i].y, ln[i].x}
			}
		}
		if rng.Intn(3) == 0 {
			return &otree{kind: 4, rings: [][]ipt{closeRing(ln)}}
		}
		return &otree{kind: 3, line: ln}
	case 13: // hundreds of identical vertices
		q := p()
		ln := make([]ipt, 100+rng.Intn(300))
		for i := range ln {
			ln[i] = q
		}
		if rng.Intn(2) == 0 {
			ln[len(ln)-1] = p()
		}
		return &otree{kind: 3, line: ln}
	case 0:
		return &otree{kind: 4} // NewPolygon(nil)
	case 1:
		return &otree{kind: 3, line: []ipt{p()}} // one-point line
	case 2:
		return &otree{kind: 3} // no point at all
	case 3:
		q := p()
		return &otree{kind: 3, line: []ipt{q, q, q}} // zero-length segments
	case 4:
		q, r := p(), p()
		return &otree{kind: 3, line: []ipt{q, r, q, r, r, q}} // back and forth, repeated vertices
	case 5:
		q := p()
		return &otree{kind: 4, rings: [][]ipt{{q, q, q, q}}} // a ring of one location
	case 6:
		return &otree{kind: 4, rings: [][]ipt{{p(), p()}}} // a ring of two points
	case 7:
		return &otree{kind: 7, rect: [4]int64{rng.Int63n(181) - 90, rng.Int63n(361) - 180, []int64{0, 1, 100000, -5, 30000000}[rng.Intn(5)], 0}, ck: int64(rng.Intn(70))}
	case 8:
		q := p()
		return &otree{kind: 2, rect: [4]int64{q.x, q.y, q.x, q.y}} // a rectangle of one location
	case 9:
		return &otree{kind: int64(rng.Intn(2)), pt: p()}
	case 10:
		a, b, c := p(), p(), p()
		if rng.Intn(2) == 0 { // degenerate holes: no point, one point, two points, next to a proper one
			holes := [][]ipt{{}, {p()}, {p(), p()}, {a, b, c, a}}
			rng.Shuffle(len(holes), func(i, j int) { holes[i], holes[j] = holes[j], holes[i] })
			return &otree{kind: 4, rings: append([][]ipt{{a, b, c, a}}, holes[:1+rng.Intn(4)]...)}
		}
		return &otree{kind: 4, rings: [][]ipt{{a, b, c, a}, {a, b, c, a}}} // a hole equal to the exterior
	}
	q, r := p(), p()
	return &otree{kind: 3, line: []ipt{q, r, ipt{2*r.x - q.x, 2*r.y - q.y}, r, q}} // collinear, folding back
}

func degenerateObj(rng *rand.Rand, depth int) *otree {
	r := rng.Intn(10)
	if depth <= 0 && r >= 6 {
		r = rng.Intn(6)
	}
	switch {
	case r < 6:
		return degenerateLeaf(rng)
	case r == 6:
		return &otree{kind: 5, kids: []*otree{degenerateObj(rng, depth-1)}}
	}
	o := &otree{kind: 6, ck: 3 + int64(rng.Intn(2))}
	for i := rng.Intn(4); i > 0; i-- {
		o.kids = append(o.kids, degenerateObj(rng, depth-1))
	}
	return o
}

func streamC05(w *W, rng *rand.Rand, tier string) {
	startWatchdog(20 * time.Second)
	n := 4000
	if tier == "thorough" {
		n = 60000
	}
	do := func(tag int, args []int64, label string) {
		currentCase.Store(fmt.Sprint(tag, args))
		callStart.Store(time.Now().UnixNano())
		t0 := time.Now()
		w.Do(tag, args, true)
		callStart.Store(0)
		if d := time.Since(t0); d > 2*time.Second {
			w.count("SLOW-CALL>2s")
		}
		w.count(label)
	}
	for it := 0; it < n; it++ {
		var a, b *otree
		if it%2 == 0 {
			a, b = degenerateObj(rng, 2), degenerateObj(rng, 2)
		} else {
			A := genPoly(rng, 8, it%4 == 1)
			a, b = genObj(rng, A, 2), genObj(rng, A, 2)
			if rng.Intn(3) == 0 {
				b = degenerateObj(rng, 1)
			}
		}
		if !objInDomR(a) || !objInDomR(b) {
			continue
		}
		for rep := 0; rep < 3; rep++ {
			m := rng.Intn(nRobustMethods) + 32*rng.Intn(4)
			args := append([]int64{0, int64(m)}, encRobust(a)...)
			args = append(args, encRobust(b)...)
			do(95, args, "method:"+fmt.Sprint(m%32))
		}
	}
	// methods on pairs of parsed documents with extreme numerals (accepted overflow = +Inf)
	pairArgs := func(m int, da, db string) []int64 {
		args := []int64{0, int64(m), int64(len(da))}
		for i := 0; i < len(da); i++ {
			args = append(args, int64(da[i]))
		}
		for i := 0; i < len(db); i++ {
			args = append(args, int64(db[i]))
		}
		return args
	}
	for _, c := range c05corpus {
		for m := 0; m < nRobustMethods; m++ {
			do(97, pairArgs(m, c[0], c[1]), "parsed-pair-corpus")
			do(97, pairArgs(m, c[1], c[0]), "parsed-pair-corpus")
		}
	}
	for it := 0; it < n/2; it++ {
		do(97, pairArgs(rng.Intn(nRobustMethods), extremeDoc(rng), extremeDoc(rng)), "parsed-pair-extreme")
	}
	// Parse on arbitrary bytes, mutated documents, deep nesting
	g := &jgen{rng: rng, s: 0}
	maxDepth := 300
	if tier == "thorough" {
		maxDepth = 3000
	}
	for it := 0; it < n; it++ {
		var text string
		k := rng.Intn(6)
		if (k == 1 || k == 2 || k == 5) && rng.Intn(4) != 0 {
			k = 3 + rng.Intn(2) // deep nestings are expensive (Parse re-validates every level): a quarter of their share
		}
		switch k {
		case 0:
			b := make([]byte, rng.Intn(40))
			rng.Read(b)
			text = string(b)
		case 1:
			d := 1 + rng.Intn(maxDepth)
			text = strings.Repeat(`{"type":"Feature","geometry":`, d) + `{"type":"Point","coordinates":[1,2]}` + strings.Repeat("}", d)
		case 2:
			d := 1 + rng.Intn(maxDepth)
			text = `{"type":"Polygon","coordinates":` + strings.Repeat("[", d) + "1" + strings.Repeat("]", d) + "}"
		case 3:
			text = renderText(g.document(true), 0)
			if len(text) > 2 {
				i := rng.Intn(len(text))
				text = text[:i] + string([]byte{byte(rng.Intn(256))}) + text[i+1:]
			}
		case 4:
			md, _ := g.mutate(g.document(true))
			text = renderText(md, 1+rng.Int63n(1<<20))
		default:
			d := 1 + rng.Intn(200)
			text = strings.Repeat(`{"type":"GeometryCollection","geometries":[`, d) + strings.Repeat("]}", d)
		}
		args := []int64{int64(rng.Intn(16))}
		for i := 0; i < len(text); i++ {
			args = append(args, int64(text[i]))
		}
		do(96, args, "parse-bytes")
	}
}

func objInDomR(o *otree) bool {
	if o.kind == 7 {
		return true
	}
	if o.kind == 5 || o.kind == 6 {
		for _, k := range o.kids {
			if !objInDomR(k) {
				return false
			}
		}
		return true
	}
	return objInDom(o)
}

func init() {
	impls[95] = implRobust
	impls[96] = implParseBytes
	impls[97] = implParsePair
	streams["C05"] = streamC05
}
