// Command harness runs the tidwall/geojson implementation (from /repo's
// working tree, via the replace directive in go.mod) on generated cases and
// writes one line per case:  <tag> <args...> | <implementation outputs...>
// The extracted Coq model reads the same lines (ocaml/driver.ml).
package main

import (
	"bufio"
	"flag"
	"fmt"
	"hash/fnv"
	"math/rand"
	"os"
	"sort"
	"strconv"
	"strings"
)

type W struct {
	w       *bufio.Writer
	n       int
	hist    map[string]int
	nt      map[uint64]struct{} // hashes of distinct non-trivial case lines
	pairTag int
}

// implFn runs the implementation entry point of one tag on integer-encoded args.
type implFn func(args []int64) []int64

var impls = map[int]implFn{}

// Do runs the implementation on (tag,args), writes the case line and returns the outputs.
// nontrivial says whether the case counts towards distinct_nontrivial.
func (w *W) Do(tag int, args []int64, nontrivial bool) (outs []int64) {
	defer func() {
		if r := recover(); r != nil {
			// the implementation panicked on this input: record it as the case's output
			outs = []int64{PANIC, PANIC, PANIC, PANIC, PANIC, PANIC, PANIC, PANIC, PANIC, PANIC, PANIC, PANIC, PANIC, PANIC, PANIC, PANIC, PANIC, PANIC, PANIC, PANIC}
			w.count("PANIC")
			w.Case(tag, args, outs[:1], nontrivial)
		}
	}()
	outs = impls[tag](args)
	w.Case(tag, args, outs, nontrivial)
	return outs
}

// PANIC is the output recorded for a case on which the implementation panicked.
const PANIC = -777

func (w *W) count(key string) { w.hist[key]++ }

// Case writes a case line.
func (w *W) Case(tag int, args []int64, outs []int64, nontrivial bool) {
	b := make([]byte, 0, 128)
	b = strconv.AppendInt(b, int64(tag), 10)
	for _, a := range args {
		b = append(b, ' ')
		b = strconv.AppendInt(b, a, 10)
	}
	b = append(b, ' ', '|')
	for _, o := range outs {
		b = append(b, ' ')
		b = strconv.AppendInt(b, o, 10)
	}
	if nontrivial {
		h := fnv.New64a()
		h.Write(b)
		w.nt[h.Sum64()] = struct{}{}
	}
	b = append(b, '\n')
	w.w.Write(b)
	w.n++
}

func b2i(b bool) int64 {
	if b {
		return 1
	}
	return 0
}

type streamFn func(w *W, rng *rand.Rand, tier string)

var streams = map[string]streamFn{}

func main() {
	stream := flag.String("stream", "", "stream name (property id)")
	tier := flag.String("tier", "quick", "quick|thorough")
	seed := flag.Int64("seed", 1, "PRNG seed")
	out := flag.String("out", "", "output case file")
	statsOut := flag.String("stats", "", "output stats file (histogram of case classes)")
	replay := flag.String("replay", "", "replay one case: '<tag> <args...>'; prints the implementation output")
	corpus := flag.String("corpus", "", "file of case lines to run first (minimised earlier failures)")
	flag.Parse()
	if *replay != "" {
		doReplay(*replay)
		return
	}
	fn, ok := streams[*stream]
	if !ok {
		fmt.Fprintf(os.Stderr, "unknown stream %q\n", *stream)
		os.Exit(2)
	}
	f, err := os.Create(*out)
	if err != nil {
		panic(err)
	}
	w := &W{w: bufio.NewWriterSize(f, 1<<20), hist: map[string]int{}, nt: map[uint64]struct{}{}}
	rng := rand.New(rand.NewSource(*seed))
	if *corpus != "" {
		if data, err := os.ReadFile(*corpus); err == nil {
			for _, l := range strings.Split(string(data), "\n") {
				if tag, args, ok := parseCase(l); ok {
					w.Do(tag, args, true)
					w.count("corpus")
				}
			}
		}
	}
	fn(w, rng, *tier)
	w.w.Flush()
	f.Close()
	if *statsOut != "" {
		sf, _ := os.Create(*statsOut)
		keys := make([]string, 0, len(w.hist))
		for k := range w.hist {
			keys = append(keys, k)
		}
		sort.Strings(keys)
		fmt.Fprintf(sf, "{\"cases\":%d,\"distinct_nontrivial\":%d,\"hist\":{", w.n, len(w.nt))
		for i, k := range keys {
			if i > 0 {
				fmt.Fprint(sf, ",")
			}
			fmt.Fprintf(sf, "%q:%d", k, w.hist[k])
		}
		fmt.Fprint(sf, "}}\n")
		sf.Close()
	}
}

// parseCase parses "<tag> <args...> [| ...]".
func parseCase(l string) (int, []int64, bool) {
	if i := strings.IndexByte(l, '|'); i >= 0 {
		l = l[:i]
	}
	l = strings.TrimSpace(l)
	if l == "" || l[0] == '#' {
		return 0, nil, false
	}
	f := strings.Fields(l)
	tag, err := strconv.Atoi(f[0])
	if err != nil {
		return 0, nil, false
	}
	args := make([]int64, 0, len(f)-1)
	for _, t := range f[1:] {
		v, err := strconv.ParseInt(t, 10, 64)
		if err != nil {
			return 0, nil, false
		}
		args = append(args, v)
	}
	if _, ok := impls[tag]; !ok {
		return 0, nil, false
	}
	return tag, args, true
}
