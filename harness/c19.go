package main

import (
	"math/rand"

	"github.com/tidwall/geojson/geometry"
)

// Geometry tags take the grid exponent s as first argument: a coordinate k
// denotes the float64 k*2^-s (exact). The Coq model ignores s.

// scaled integer k on grid 2^-s -> float64 (exact)
func fl(k int64, s int64) float64 { return float64(k) / float64(int64(1)<<uint(s)) }

// float64 on grid 2^-s -> scaled integer (exact for values produced by min/max/copy of grid inputs)
func unfl(f float64, s int64) int64 { return int64(f * float64(int64(1)<<uint(s))) }

func mkPt(x, y, s int64) geometry.Point { return geometry.Point{X: fl(x, s), Y: fl(y, s)} }

func mkSeg(ax, ay, bx, by, s int64) geometry.Segment {
	return geometry.Segment{A: mkPt(ax, ay, s), B: mkPt(bx, by, s)}
}

func init() {
	impls[1] = func(a []int64) []int64 {
		r := mkSeg(a[1], a[2], a[3], a[4], a[0]).Raycast(mkPt(a[5], a[6], a[0]))
		return []int64{b2i(r.In), b2i(r.On)}
	}
	impls[2] = func(a []int64) []int64 {
		return []int64{b2i(mkSeg(a[1], a[2], a[3], a[4], a[0]).IntersectsSegment(mkSeg(a[5], a[6], a[7], a[8], a[0])))}
	}
	impls[3] = func(a []int64) []int64 {
		return []int64{b2i(mkSeg(a[1], a[2], a[3], a[4], a[0]).ContainsSegment(mkSeg(a[5], a[6], a[7], a[8], a[0])))}
	}
	impls[4] = func(a []int64) []int64 {
		return []int64{b2i(mkSeg(a[1], a[2], a[3], a[4], a[0]).CollinearPoint(mkPt(a[5], a[6], a[0])))}
	}
	impls[5] = func(a []int64) []int64 {
		r := mkSeg(a[1], a[2], a[3], a[4], a[0]).Rect()
		return []int64{unfl(r.Min.X, a[0]), unfl(r.Min.Y, a[0]), unfl(r.Max.X, a[0]), unfl(r.Max.Y, a[0])}
	}
	impls[6] = func(a []int64) []int64 {
		return []int64{b2i(mkSeg(a[1], a[2], a[3], a[4], a[0]).ContainsPoint(mkPt(a[5], a[6], a[0])))}
	}
	streams["C19"] = streamC19
}

func min64(a, b int64) int64 {
	if a < b {
		return a
	}
	return b
}
func max64(a, b int64) int64 {
	if a > b {
		return a
	}
	return b
}

func c19SegPoint(w *W, ax, ay, bx, by, x, y, s int64) {
	args := []int64{s, ax, ay, bx, by, x, y}
	inY := y >= min64(ay, by) && y <= max64(ay, by)
	r := w.Do(1, args, inY)
	w.Do(4, args, true)
	w.Do(6, args, inY)
	switch {
	case r[1] == 1:
		w.count("raycast:on")
	case r[0] == 1:
		w.count("raycast:in")
	default:
		w.count("raycast:out")
	}
	if y == ay || y == by {
		w.count("raycast:level-with-endpoint")
	}
	if ax == bx && ay == by {
		w.count("raycast:zero-length-segment")
	}
}

func c19SegSeg(w *W, ax, ay, bx, by, cx, cy, dx, dy, s int64) {
	args := []int64{s, ax, ay, bx, by, cx, cy, dx, dy}
	boxes := max64(ax, bx) >= min64(cx, dx) && max64(cx, dx) >= min64(ax, bx) &&
		max64(ay, by) >= min64(cy, dy) && max64(cy, dy) >= min64(ay, by)
	r := w.Do(2, args, boxes)
	w.Do(3, args, boxes)
	if r[0] == 1 {
		w.count("segseg:true")
	} else {
		w.count("segseg:false")
	}
	cr := func(ax, ay, bx, by, x, y int64) int64 { return (bx-ax)*(y-ay) - (by-ay)*(x-ax) }
	if boxes && cr(ax, ay, bx, by, cx, cy) == 0 && cr(ax, ay, bx, by, dx, dy) == 0 {
		w.count("segseg:collinear-boxes-meet")
	}
}

const maxK = int64(1) << 23

func c19Coord(rng *rand.Rand, big bool) int64 {
	if big {
		return rng.Int63n(2*maxK+1) - maxK
	}
	return rng.Int63n(9) - 4
}

func inDom(v ...int64) bool {
	for _, x := range v {
		if x > maxK || x < -maxK {
			return false
		}
	}
	return true
}

func streamC19(w *W, rng *rand.Rand, tier string) {
	L := int64(4)
	if tier == "thorough" {
		L = 6
	}
	// exhaustive lattice: all (segment, point)
	for ax := int64(0); ax <= L; ax++ {
		for ay := int64(0); ay <= L; ay++ {
			for bx := int64(0); bx <= L; bx++ {
				for by := int64(0); by <= L; by++ {
					for x := int64(0); x <= L; x++ {
						for y := int64(0); y <= L; y++ {
							c19SegPoint(w, ax, ay, bx, by, x, y, 0)
						}
					}
					w.Do(5, []int64{0, ax, ay, bx, by}, true)
				}
			}
		}
	}
	// exhaustive lattice: all (segment, segment); both operand orders occur
	LS := int64(4)
	if tier == "thorough" {
		LS = 5
	}
	for ax := int64(0); ax <= LS; ax++ {
		for ay := int64(0); ay <= LS; ay++ {
			for bx := int64(0); bx <= LS; bx++ {
				for by := int64(0); by <= LS; by++ {
					for cx := int64(0); cx <= LS; cx++ {
						for cy := int64(0); cy <= LS; cy++ {
							for dx := int64(0); dx <= LS; dx++ {
								for dy := int64(0); dy <= LS; dy++ {
									c19SegSeg(w, ax, ay, bx, by, cx, cy, dx, dy, 0)
								}
							}
						}
					}
				}
			}
		}
	}
	// random: negative coordinates, dyadic grids, large magnitudes, forced contacts
	n := 100000
	if tier == "thorough" {
		n = 1000000
	}
	for i := 0; i < n; i++ {
		big := rng.Intn(2) == 0
		s := int64(rng.Intn(4))
		ax, ay, bx, by := c19Coord(rng, big), c19Coord(rng, big), c19Coord(rng, big), c19Coord(rng, big)
		var x, y int64
		switch rng.Intn(6) {
		case 0: // level with an endpoint
			x, y = c19Coord(rng, big), ay
		case 1:
			x, y = c19Coord(rng, big), by
		case 2: // on the supporting line (when divisible): a + t(b-a)/m
			m := int64(rng.Intn(4) + 1)
			t := int64(rng.Intn(9) - 2)
			if (bx-ax)%m == 0 && (by-ay)%m == 0 {
				x, y = ax+t*(bx-ax)/m, ay+t*(by-ay)/m
			} else {
				x, y = ax, ay
			}
		case 3: // one off the line
			x, y = bx+int64(rng.Intn(3)-1), by+int64(rng.Intn(3)-1)
		default:
			x, y = c19Coord(rng, big), c19Coord(rng, big)
		}
		if !inDom(x, y) {
			x, y = ax, by
		}
		c19SegPoint(w, ax, ay, bx, by, x, y, s)
		w.Do(5, []int64{s, ax, ay, bx, by}, true)
		// segment pairs: collinear/nested/touching families
		var cx, cy, dx, dy int64
		switch rng.Intn(6) {
		case 0, 1: // collinear with (a,b): c = a + t1 (b-a)/m, d = a + t2 (b-a)/m
			m := int64(rng.Intn(4) + 1)
			if (bx-ax)%m == 0 && (by-ay)%m == 0 {
				t1, t2 := int64(rng.Intn(11)-3), int64(rng.Intn(11)-3)
				cx, cy = ax+t1*(bx-ax)/m, ay+t1*(by-ay)/m
				dx, dy = ax+t2*(bx-ax)/m, ay+t2*(by-ay)/m
			} else {
				cx, cy, dx, dy = ax, ay, x, y
			}
		case 2: // endpoint on the other segment
			cx, cy, dx, dy = x, y, c19Coord(rng, big), c19Coord(rng, big)
		case 3: // zero-length
			cx, cy, dx, dy = x, y, x, y
		default:
			cx, cy, dx, dy = c19Coord(rng, big), c19Coord(rng, big), c19Coord(rng, big), c19Coord(rng, big)
		}
		if !inDom(cx, cy, dx, dy) {
			cx, cy, dx, dy = bx, by, x, y
		}
		c19SegSeg(w, ax, ay, bx, by, cx, cy, dx, dy, s)
		c19SegSeg(w, cx, cy, dx, dy, ax, ay, bx, by, s)
	}
	// lattice points on long oblique segments: b = a + g*u for a small direction u and a length factor g
	// that is usually not a power of two; the probe is a + k*u (inside, at the ends, just beyond), the
	// second segment a nested / overlapping / touching collinear piece or the probe as a zero-length segment
	m := n / 2
	for i := 0; i < m; i++ {
		s := int64(rng.Intn(4))
		ux, uy := int64(rng.Intn(41)-20), int64(rng.Intn(41)-20)
		if ux == 0 && uy == 0 {
			ux = 1
		}
		g := int64(2 + rng.Intn(120))
		if rng.Intn(4) == 0 {
			g = int64(2 + rng.Intn(4000))
		}
		var ax, ay int64
		switch rng.Intn(3) {
		case 0:
			ax, ay = 0, 0
		case 1:
			ax, ay = int64(rng.Intn(201)-100), int64(rng.Intn(201)-100)
		default:
			ax, ay = c19Coord(rng, true)/4, c19Coord(rng, true)/4
		}
		bx, by := ax+g*ux, ay+g*uy
		k := int64(rng.Intn(int(g)+5)) - 2
		x, y := ax+k*ux, ay+k*uy
		if rng.Intn(8) == 0 { // one grid step off the line
			x += int64(rng.Intn(3) - 1)
			y += int64(rng.Intn(3) - 1)
		}
		if !inDom(ax, ay, bx, by, x, y) {
			w.count("long-oblique:out-of-domain")
			continue
		}
		if rng.Intn(2) == 0 {
			ax, ay, bx, by = bx, by, ax, ay
		}
		c19SegPoint(w, ax, ay, bx, by, x, y, s)
		k2 := int64(rng.Intn(int(g)+5)) - 2
		cx, cy, dx, dy := x, y, ax+k2*(bx-ax)/g, ay+k2*(by-ay)/g
		if rng.Intn(3) == 0 {
			dx, dy = x, y
		}
		if !inDom(cx, cy, dx, dy) {
			continue
		}
		c19SegSeg(w, ax, ay, bx, by, cx, cy, dx, dy, s)
		c19SegSeg(w, cx, cy, dx, dy, ax, ay, bx, by, s)
		w.count("long-oblique")
	}
}
