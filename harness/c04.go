package main

import (
	"math"
	"math/rand"
	"sort"

	"github.com/tidwall/geojson/geometry"
)

const infK = int64(1) << 62 // sentinel for an infinite query bound

func flq(k, s int64) float64 {
	if k >= infK {
		return math.Inf(1)
	}
	if k <= -infK {
		return math.Inf(-1)
	}
	return fl(k, s)
}

func mkSeries(ps []ipt, s int64, cl bool, kind int64) geometry.Series {
	opts := &geometry.IndexOptions{Kind: geometry.IndexKind(kind), MinPoints: 1}
	if kind == 0 {
		opts = noIndex
	}
	if cl {
		return geometry.NewPoly(toPoints(ps, s), nil, opts).Exterior
	}
	return geometry.NewLine(toPoints(ps, s), opts)
}

// tag 40: args = s kind closed n coords -> index bytes
func implIndexBytes(a []int64) []int64 {
	n := int(a[3])
	sr := mkSeries(decPts(a[4:4+2*n]), a[0], a[2] == 1, a[1])
	b, _ := sr.Index().([]byte)
	out := make([]int64, len(b))
	for i, x := range b {
		out[i] = int64(x)
	}
	return out
}

func doSearch(sr geometry.Series, q geometry.Rect, stopk int64) []int64 {
	var rep []int64
	sr.Search(q, func(seg geometry.Segment, idx int) bool {
		rep = append(rep, int64(idx))
		// the reported segment must be the idx-th segment
		if sr.SegmentAt(idx) != seg {
			rep = append(rep, -555)
		}
		return stopk < 0 || int64(len(rep)) < stopk
	})
	sorted := append([]int64{}, rep...)
	sort.Slice(sorted, func(i, j int) bool { return sorted[i] < sorted[j] })
	out := []int64{int64(len(rep))}
	out = append(out, sorted...)
	return append(out, rep...)
}

// tag 41: args = s kind closed n coords qminx qminy qmaxx qmaxy stopk
func implSearch(a []int64) []int64 {
	s := a[0]
	n := int(a[3])
	sr := mkSeries(decPts(a[4:4+2*n]), s, a[2] == 1, a[1])
	r := a[4+2*n:]
	q := geometry.Rect{Min: geometry.Point{X: flq(r[0], s), Y: flq(r[1], s)}, Max: geometry.Point{X: flq(r[2], s), Y: flq(r[3], s)}}
	return doSearch(sr, q, r[4])
}

// tag 42: ... stopk dx dy : Move then search
func implSearchMoved(a []int64) []int64 {
	s := a[0]
	n := int(a[3])
	ps := toPoints(decPts(a[4:4+2*n]), s)
	r := a[4+2*n:]
	opts := &geometry.IndexOptions{Kind: geometry.IndexKind(a[1]), MinPoints: 1}
	if a[1] == 0 {
		opts = noIndex
	}
	var sr geometry.Series
	if a[2] == 1 {
		sr = geometry.NewPoly(ps, nil, opts).Move(fl(r[5], s), fl(r[6], s)).Exterior
	} else {
		sr = geometry.NewLine(ps, opts).Move(fl(r[5], s), fl(r[6], s))
	}
	q := geometry.Rect{Min: geometry.Point{X: flq(r[0], s), Y: flq(r[1], s)}, Max: geometry.Point{X: flq(r[2], s), Y: flq(r[3], s)}}
	return doSearch(sr, q, r[4])
}

// point layouts
func c04Layout(rng *rand.Rand, n int, lim int64) []ipt {
	ps := make([]ipt, n)
	c := func() int64 { return rng.Int63n(2*lim+1) - lim }
	switch rng.Intn(8) {
	case 0: // all identical
		p := ipt{c(), c()}
		for i := range ps {
			ps[i] = p
		}
	case 1: // collinear horizontal / vertical / diagonal
		d := [][2]int64{{1, 0}, {0, 1}, {1, 1}, {1, -1}}[rng.Intn(4)]
		x, y := c()/2, c()/2
		st := lim / int64(2*n+2)
		if st == 0 {
			st = 1
		}
		for i := range ps {
			ps[i] = ipt{x + int64(i)*st*d[0]/1, y + int64(i)*st*d[1]}
			if rng.Intn(5) == 0 && i > 0 {
				ps[i] = ps[i-1] // repeated point
			}
		}
	case 2: // clustered: few clusters
		k := 1 + rng.Intn(4)
		cs := make([]ipt, k)
		for i := range cs {
			cs[i] = ipt{c(), c()}
		}
		for i := range ps {
			b := cs[rng.Intn(k)]
			ps[i] = ipt{b.x + rng.Int63n(5) - 2, b.y + rng.Int63n(5) - 2}
		}
	case 3: // zig-zag across the whole extent (segments span the mid-lines)
		for i := range ps {
			x := -lim
			if i%2 == 1 {
				x = lim
			}
			ps[i] = ipt{x, -lim + int64(i)*(2*lim)/int64(n+1)}
		}
	case 4: // small lattice, many duplicates
		for i := range ps {
			ps[i] = ipt{rng.Int63n(5) - 2, rng.Int63n(5) - 2}
		}
	case 5: // smooth closed curve (polygon-like), short segments
		for i := range ps {
			t := 2 * math.Pi * float64(i) / float64(n)
			ps[i] = ipt{int64(float64(lim) * 0.9 * math.Cos(t)), int64(float64(lim) * 0.9 * math.Sin(t))}
		}
	case 6: // segments starting exactly on quad mid-lines: coordinates multiples of lim/2^j
		for i := range ps {
			j := uint(rng.Intn(5))
			st := lim >> j
			if st == 0 {
				st = 1
			}
			ps[i] = ipt{(rng.Int63n(2*lim/st+1) - lim/st) * st, (rng.Int63n(2*lim/st+1) - lim/st) * st}
		}
		ps[0] = ipt{-lim, -lim}
		if n > 1 {
			ps[1] = ipt{lim, lim}
		}
	default:
		for i := range ps {
			ps[i] = ipt{c(), c()}
		}
	}
	for i := range ps {
		if ps[i].x > lim {
			ps[i].x = lim
		}
		if ps[i].x < -lim {
			ps[i].x = -lim
		}
		if ps[i].y > lim {
			ps[i].y = lim
		}
		if ps[i].y < -lim {
			ps[i].y = -lim
		}
	}
	return ps
}

func c04Query(rng *rand.Rand, ps []ipt, lim int64) [4]int64 {
	c := func() int64 { return rng.Int63n(2*lim+1) - lim }
	mode := rng.Intn(8)
	if len(ps) == 0 {
		mode = 7
	}
	switch mode {
	case 0: // horizontal strip with infinite x bounds (the point-in-polygon query)
		y := ps[rng.Intn(len(ps))].y
		return [4]int64{-infK, y, infK, y}
	case 1: // degenerate point query on a vertex
		p := ps[rng.Intn(len(ps))]
		return [4]int64{p.x, p.y, p.x, p.y}
	case 2: // everything
		return [4]int64{-infK, -infK, infK, infK}
	case 3: // touching a mid-line of the bounding box
		mnx, mxx, mny, mxy := ps[0].x, ps[0].x, ps[0].y, ps[0].y
		for _, p := range ps {
			mnx, mxx, mny, mxy = min64(mnx, p.x), max64(mxx, p.x), min64(mny, p.y), max64(mxy, p.y)
		}
		if (mnx+mxx)%2 == 0 && (mny+mxy)%2 == 0 {
			mx, my := (mnx+mxx)/2, (mny+mxy)/2
			switch rng.Intn(4) {
			case 0:
				return [4]int64{mnx, mny, mx, my}
			case 1:
				return [4]int64{mx, my, mxx, mxy}
			case 2:
				return [4]int64{mx, -infK, mx, infK}
			default:
				return [4]int64{-infK, my, infK, my}
			}
		}
		return [4]int64{mnx, mny, mxx, mxy}
	case 4: // a segment's own rectangle
		i := rng.Intn(len(ps))
		a, b := ps[i], ps[(i+1)%len(ps)]
		return [4]int64{min64(a.x, b.x), min64(a.y, b.y), max64(a.x, b.x), max64(a.y, b.y)}
	case 5: // outside
		return [4]int64{lim + 1, lim + 1, lim + 5, lim + 5}
	}
	x0, x1, y0, y1 := c(), c(), c(), c()
	return [4]int64{min64(x0, x1), min64(y0, y1), max64(x0, x1), max64(y0, y1)}
}

func c04Shape(w *W, rng *rand.Rand, ps []ipt, s int64, cl bool, lim int64, nq int, bytesToo bool) {
	n := int64(len(ps))
	base := func(kind int64) []int64 {
		return append([]int64{s, kind, b2i(cl), n}, encPts(ps)...)
	}
	for _, kind := range []int64{1, 2} {
		if bytesToo {
			out := w.Do(40, base(kind), len(ps) >= 2)
			if len(out) > 5 {
				w.count("index-bytes:built")
				// classify encodings seen
				if kind == 2 && len(out) > 6 {
					switch out[5] {
					case 1:
						w.count("qtree:root-items-1byte")
					case 2:
						w.count("qtree:root-items-2byte")
					case 4:
						w.count("qtree:root-items-4byte")
					}
				}
				if kind == 1 && out[5] > 0 {
					w.count("rtree:multi-level")
				}
			}
		}
	}
	for j := 0; j < nq; j++ {
		q := c04Query(rng, ps, lim)
		stop := int64(-1)
		if rng.Intn(3) == 0 {
			stop = 1 + int64(rng.Intn(40))
		}
		for _, kind := range []int64{0, 1, 2} {
			args := append(base(kind), q[0], q[1], q[2], q[3], stop)
			out := w.Do(41, args, len(ps) >= 2)
			if kind == 2 && out[0] > 0 {
				w.count("search:nonempty")
			}
			if stop > 0 && out[0] == stop {
				w.count("search:stopped-early")
			}
		}
		if j%4 == 0 {
			dx, dy := rng.Int63n(2*lim+1)-lim, rng.Int63n(2*lim+1)-lim
			for _, kind := range []int64{0, 1, 2} {
				args := append(base(kind), q[0], q[1], q[2], q[3], stop, dx, dy)
				w.Do(42, args, len(ps) >= 2)
				w.count("search:after-move")
			}
		}
	}
}

func streamC04(w *W, rng *rand.Rand, tier string) {
	// sizes 0..200 (quick) with every layout; thorough adds sizes up to 70,000
	// so that 2- and 4-byte item widths, multi-level R-tree nodes and depth-16 buckets occur
	reps := 2
	if tier == "thorough" {
		reps = 8
	}
	for rep := 0; rep < reps; rep++ {
		for n := 0; n <= 200; n++ {
			if n > 40 && (n+rep)%3 != 0 && n != 256 {
				continue
			}
			s := int64(rng.Intn(3))
			lim := int64(1) << uint(3+rng.Intn(17))
			ps := c04Layout(rng, n, lim)
			c04Shape(w, rng, ps, s, rng.Intn(2) == 0, lim, 6, true)
		}
	}
	// sizes around the width boundaries of the item encoding (255/256/257 segments)
	for _, n := range []int{255, 256, 257, 258, 300, 513, 1000} {
		for rep := 0; rep < 3; rep++ {
			lim := int64(1) << uint(8+rng.Intn(10))
			ps := c04Layout(rng, n, lim)
			c04Shape(w, rng, ps, 0, rep%2 == 0, lim, 8, true)
		}
	}
	// all-identical / zig-zag at 257 points: one node holding items 0..255
	for _, n := range []int{257, 258} {
		ps := make([]ipt, n)
		for i := range ps {
			ps[i] = ipt{3, 3}
		}
		c04Shape(w, rng, ps, 0, false, 8, 4, true)
		for i := range ps {
			x := int64(0)
			if i%2 == 1 {
				x = 1000
			}
			ps[i] = ipt{x, int64(i)}
		}
		c04Shape(w, rng, ps, 0, false, 1024, 6, true)
	}
	if tier == "thorough" {
		streamC04Float(w, rng, 400)
	} else {
		streamC04Float(w, rng, 40)
	}
	if tier == "thorough" {
		for _, n := range []int{4000, 20000, 65536, 65537} {
			lim := int64(1) << 20
			ps := c04Layout(rng, n, lim)
			c04Shape(w, rng, ps, 0, n%2 == 0, lim, 6, true)
		}
	} else {
		ps := c04Layout(rng, 3000, 1<<18)
		c04Shape(w, rng, ps, 0, false, 1<<18, 4, true)
	}
}

// tag 43 (implementation only: coordinates outside the model's dyadic grid, where float64 sums and
// midpoints round): args = kind closed moved dxbits dybits n (xbits ybits)* qminx qminy qmaxx qmaxy (float64 bits).
// Output [1] when Search reports exactly the segments whose rectangle intersects the query (each once,
// each the idx-th segment), judged by a scan over SegmentAt on the same floats; else [0 found brute first-diff].
func implSearchFloat(a []int64) []int64 {
	f := func(b int64) float64 { return math.Float64frombits(uint64(b)) }
	n := int(a[5])
	ps := make([]geometry.Point, n)
	for i := range ps {
		ps[i] = geometry.Point{X: f(a[6+2*i]), Y: f(a[7+2*i])}
	}
	r := a[6+2*n:]
	opts := &geometry.IndexOptions{Kind: geometry.IndexKind(a[0]), MinPoints: 1}
	if a[0] == 0 {
		opts = noIndex
	}
	var sr geometry.Series
	if a[1] == 1 {
		p := geometry.NewPoly(ps, nil, opts)
		if a[2] == 1 {
			p = p.Move(f(a[3]), f(a[4]))
		}
		sr = p.Exterior
	} else {
		l := geometry.NewLine(ps, opts)
		if a[2] == 1 {
			l = l.Move(f(a[3]), f(a[4]))
		}
		sr = l
	}
	q := geometry.Rect{Min: geometry.Point{X: f(r[0]), Y: f(r[1])}, Max: geometry.Point{X: f(r[2]), Y: f(r[3])}}
	got := map[int]int{}
	bad := false
	sr.Search(q, func(seg geometry.Segment, idx int) bool {
		got[idx]++
		if idx < 0 || idx >= sr.NumSegments() || sr.SegmentAt(idx) != seg {
			bad = true
		}
		return true
	})
	nb := 0
	first := int64(-1)
	for i := 0; i < sr.NumSegments(); i++ {
		in := sr.SegmentAt(i).Rect().IntersectsRect(q)
		if in {
			nb++
		}
		if (in && got[i] != 1 || !in && got[i] != 0) && first < 0 {
			first = int64(i)
		}
	}
	if bad || first >= 0 {
		return []int64{0, int64(len(got)), int64(nb), first}
	}
	return []int64{1}
}

// non-dyadic layouts: decimal grids whose sums and midpoints round in float64
func streamC04Float(w *W, rng *rand.Rand, reps int) {
	fb := func(v float64) int64 { return int64(math.Float64bits(v)) }
	units := []float64{0.1, 0.3, 1.0 / 3, 0.7, 1e-3, 0.05}
	for rep := 0; rep < reps; rep++ {
		u := units[rng.Intn(len(units))]
		k := []int{20, 33, 40, 64, 70, 100}[rng.Intn(6)]
		var ps []geometry.Point
		switch rng.Intn(4) {
		case 0: // staircase
			for i := 0; i < k; i++ {
				ps = append(ps, geometry.Point{X: float64(i) * u, Y: float64(i) * u}, geometry.Point{X: float64(i+1) * u, Y: float64(i) * u})
			}
			ps = append(ps, geometry.Point{X: float64(k) * u, Y: float64(k) * u}, geometry.Point{X: 0, Y: float64(k) * u})
		case 1: // subdivided square
			for i := 0; i < k; i++ {
				ps = append(ps, geometry.Point{X: float64(i) * u, Y: 0})
			}
			for i := 0; i < k; i++ {
				ps = append(ps, geometry.Point{X: float64(k) * u, Y: float64(i) * u})
			}
			for i := k; i > 0; i-- {
				ps = append(ps, geometry.Point{X: float64(i) * u, Y: float64(k) * u})
			}
			for i := k; i > 0; i-- {
				ps = append(ps, geometry.Point{X: 0, Y: float64(i) * u})
			}
		case 2: // random decimal grid
			for i := 0; i < 2*k; i++ {
				ps = append(ps, geometry.Point{X: float64(rng.Intn(41)-20) * u, Y: float64(rng.Intn(41)-20) * u})
			}
		default: // zig-zag
			for i := 0; i < 2*k; i++ {
				y := -2 * u
				if i%2 == 0 {
					y = 2 * u
				}
				ps = append(ps, geometry.Point{X: float64(i) * u, Y: y})
			}
		}
		closed := rng.Intn(2) == 0
		if closed {
			ps = append(ps, ps[0])
		}
		dx, dy := float64(rng.Intn(21)-10)*u, float64(rng.Intn(21)-10)*u
		if rng.Intn(3) == 0 {
			dx, dy = u, u
		}
		for j := 0; j < 12; j++ {
			moved := int64(rng.Intn(2))
			at := func() geometry.Point {
				p := ps[rng.Intn(len(ps))]
				if moved == 1 {
					return geometry.Point{X: p.X + dx, Y: p.Y + dy}
				}
				return p
			}
			p1, p2 := at(), at()
			var q [4]float64
			switch rng.Intn(4) {
			case 0: // a vertex
				q = [4]float64{p1.X, p1.Y, p1.X, p1.Y}
			case 1: // a rectangle between two vertices
				q = [4]float64{math.Min(p1.X, p2.X), math.Min(p1.Y, p2.Y), math.Max(p1.X, p2.X), math.Max(p1.Y, p2.Y)}
			case 2: // a horizontal / vertical line through a vertex
				if rng.Intn(2) == 0 {
					q = [4]float64{math.Min(p1.X, p2.X), p1.Y, math.Max(p1.X, p2.X), p1.Y}
				} else {
					q = [4]float64{p1.X, math.Min(p1.Y, p2.Y), p1.X, math.Max(p1.Y, p2.Y)}
				}
			default: // ends one ulp short of / beyond a vertex
				q = [4]float64{math.Min(p1.X, p2.X), math.Min(p1.Y, p2.Y), math.Nextafter(math.Max(p1.X, p2.X), math.Inf(1-2*rng.Intn(2))), math.Max(p1.Y, p2.Y)}
				if q[2] < q[0] {
					q[2] = q[0]
				}
			}
			for _, kind := range []int64{0, 1, 2} {
				args := []int64{kind, b2i(closed), moved, fb(dx), fb(dy), int64(len(ps))}
				for _, p := range ps {
					args = append(args, fb(p.X), fb(p.Y))
				}
				args = append(args, fb(q[0]), fb(q[1]), fb(q[2]), fb(q[3]))
				w.Do(43, args, true)
				w.count("float-domain:search")
				if moved == 1 {
					w.count("float-domain:after-move")
				}
			}
		}
	}
}

func init() {
	impls[43] = implSearchFloat
	impls[40] = implIndexBytes
	impls[41] = implSearch
	impls[42] = implSearchMoved
	streams["C04"] = streamC04
}
