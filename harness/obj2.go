package main

import (
	"math"
	"math/big"
	"math/rand"

	"github.com/tidwall/geojson"
	"github.com/tidwall/geojson/geometry"
)

// C11: attributes of objects of all kinds; coordinates around the validity limits,
// extremes at first / last / closing position, empties mixed with non-empties.
func genAttrLeaf(rng *rand.Rand, sc int64) *otree {
	one := int64(1) << uint(sc)
	coord := func(lim int64) int64 {
		switch rng.Intn(6) {
		case 0:
			return lim * one // exactly on the limit
		case 1:
			return -lim * one
		case 2:
			return lim*one + 1 + rng.Int63n(3) // just outside
		case 3:
			return -lim*one - 1 - rng.Int63n(3)
		}
		return rng.Int63n(2*lim*one+1) - lim*one
	}
	pt := func() ipt { return ipt{coord(180), coord(90)} }
	small := func() ipt { return ipt{rng.Int63n(41) - 20, rng.Int63n(41) - 20} }
	gen := pt
	if rng.Intn(2) == 0 {
		gen = small
	}
	switch rng.Intn(5) {
	case 0:
		return &otree{kind: int64(rng.Intn(2)), pt: gen()}
	case 1:
		a, b := gen(), gen()
		return &otree{kind: 2, rect: [4]int64{min64(a.x, b.x), min64(a.y, b.y), max64(a.x, b.x), max64(a.y, b.y)}}
	case 2:
		n := rng.Intn(7)
		if rng.Intn(3) == 0 {
			n = 1
		}
		ln := make([]ipt, n)
		for i := range ln {
			ln[i] = gen()
		}
		return &otree{kind: 3, line: ln}
	default:
		nr := 1 + rng.Intn(3)
		var rings [][]ipt
		for r := 0; r < nr; r++ {
			n := 3 + rng.Intn(6)
			if rng.Intn(6) == 0 {
				n = rng.Intn(3)
			}
			ring := make([]ipt, n)
			for i := range ring {
				ring[i] = gen()
			}
			if n > 0 && rng.Intn(3) != 0 {
				ring = closeRing(ring)
			}
			rings = append(rings, ring)
		}
		return &otree{kind: 4, rings: rings}
	}
}

func genAttrObj(rng *rand.Rand, sc int64, depth int) *otree {
	r := rng.Intn(10)
	if depth <= 0 && r >= 5 {
		r = rng.Intn(5)
	}
	switch {
	case r < 4:
		return genAttrLeaf(rng, sc)
	case r == 4:
		return &otree{kind: 5, kids: []*otree{genAttrObj(rng, sc, depth-1)}}
	}
	ck := int64(rng.Intn(5))
	n := rng.Intn(5)
	o := &otree{kind: 6, ck: ck}
	for i := 0; i < n; i++ {
		var k *otree
		for {
			k = genAttrLeaf(rng, sc)
			if ck == 0 && k.kind == 0 || ck == 1 && k.kind == 3 || ck == 2 && k.kind == 4 || ck >= 3 {
				break
			}
		}
		if ck >= 3 && rng.Intn(3) == 0 {
			k = genAttrObj(rng, sc, depth-1)
		}
		if ck == 4 && k.kind != 5 && rng.Intn(2) == 0 {
			k = &otree{kind: 5, kids: []*otree{k}}
		}
		o.kids = append(o.kids, k)
	}
	return o
}

func hasNilPoly(o *otree) bool {
	if o.kind == 4 && len(o.rings) == 0 {
		return true
	}
	for _, k := range o.kids {
		if hasNilPoly(k) {
			return true
		}
	}
	return false
}

func streamC11(w *W, rng *rand.Rand, tier string) {
	n := 30000
	if tier == "thorough" {
		n = 400000
	}
	for it := 0; it < n; it++ {
		sc := int64(rng.Intn(4))
		o := genAttrObj(rng, sc, 2)
		if !objInDom(o) || hasNilPoly(o) {
			continue
		}
		cfg := int64(rng.Intn(16))
		out := w.Do(61, append([]int64{sc, cfg}, o.enc()...), true)
		w.count("kind:" + kindLabel(o))
		if len(out) > 1 {
			if out[0] == 1 {
				w.count("empty")
			}
			if out[1] == 1 {
				w.count("valid")
			} else {
				w.count("invalid")
			}
		}
	}
}

// C10: collections against probes, child search with early stop, child index on/off
func streamC10(w *W, rng *rand.Rand, tier string) {
	n := 1500
	if tier == "thorough" {
		n = 20000
	}
	for it := 0; it < n; it++ {
		sc := int64(rng.Intn(3))
		lim := int64(4) << uint(rng.Intn(8))
		A := genPoly(rng, lim, it%4 == 0)
		var c *otree
		for {
			c = genObj(rng, A, 2)
			if c.kind == 6 {
				break
			}
		}
		if rng.Intn(6) == 0 && len(c.kids) > 1 { // duplicate children
			c.kids = append(c.kids, c.kids[0], c.kids[len(c.kids)-1])
			if c.ck == 3 || c.ck == 4 {
				c.kids = append(c.kids, &otree{kind: 6, ck: 3}) // an empty nested collection
			}
		}
		for rep := 0; rep < 3; rep++ {
			x := genObj(rng, A, 1)
			if !objInDom(c) || !objInDom(x) {
				continue
			}
			p, q := anyPointNear(rng, A), anyPointNear(rng, A)
			qr := []int64{min64(p.x, q.x), min64(p.y, q.y), max64(p.x, q.x), max64(p.y, q.y)}
			if rng.Intn(4) == 0 {
				mnx, mxx, mny, mxy := bboxOf(A[0])
				qr = []int64{mnx - 1, mny - 1, mxx + 1, mxy + 1}
			}
			stopk := int64(-1)
			if rng.Intn(3) == 0 {
				stopk = 1 + rng.Int63n(4)
			}
			flags := int64(rng.Intn(4))
			if !polyContact(c, x) {
				flags |= 16
			}
			args := append([]int64{sc, flags}, c.enc()...)
			args = append(args, x.enc()...)
			args = append(args, qr...)
			args = append(args, stopk)
			out := w.Do(62, args, true)
			w.count("coll:" + kindLabel(c) + " children:" + bucket(len(c.kids)))
			w.count("probe:" + kindLabel(x))
			if len(out) > 12 && out[12] > 0 {
				w.count("search:nonempty")
			}
			if stopk >= 0 {
				w.count("search:early-stop")
			}
		}
	}
}

// tag 63 (implementation only): attributes of objects whose coordinates are arbitrary finite float64
// values — decimals that are not dyadic, negative zero, magnitudes up to MaxFloat64, denormals.
// args = kind, n, then n pairs of float64 bit patterns.  Output [1] when Rect() is the exact min/max of
// the positions (sign of zero included), Center() is the correctly rounded midpoint of that box
// (exact rational (a+b)/2 rounded to nearest even), Valid() and Empty() are as the statement says;
// otherwise [0, flags...].
func implFloatAttrs(a []int64) []int64 {
	kind, n := a[0], int(a[1])
	pts := make([]geometry.Point, n)
	for i := range pts {
		pts[i] = geometry.Point{X: math.Float64frombits(uint64(a[2+2*i])), Y: math.Float64frombits(uint64(a[3+2*i]))}
	}
	var o geojson.Object
	occupies := true
	switch kind {
	case 0:
		o = geojson.NewPoint(pts[0])
		pts = pts[:1]
	case 1:
		o = geojson.NewLineString(geometry.NewLine(pts, nil))
		occupies = len(pts) >= 2
	case 2:
		ring := append(append([]geometry.Point{}, pts...), pts[0])
		pts = ring
		o = geojson.NewPolygon(geometry.NewPoly(ring, nil, nil))
		occupies = len(ring) >= 3
	case 3:
		o = geojson.NewMultiPoint(pts)
	default:
		o = geojson.NewFeature(geojson.NewGeometryCollection([]geojson.Object{geojson.NewLineString(geometry.NewLine(nil, nil)),
			geojson.NewLineString(geometry.NewLine(pts, nil))}), "")
		occupies = len(pts) >= 2
	}
	fl := []int64{1, 1, 1, 1}
	if o.Empty() != !occupies {
		fl[3] = 0
	}
	valid := true
	for _, p := range pts {
		if !(p.X >= -180 && p.X <= 180 && p.Y >= -90 && p.Y <= 90) {
			valid = false
		}
	}
	if o.Valid() != valid {
		fl[2] = 0
	}
	if occupies {
		mn, mx := pts[0], pts[0]
		for _, p := range pts[1:] {
			if p.X < mn.X {
				mn.X = p.X
			} else if p.X > mx.X {
				mx.X = p.X
			}
			if p.Y < mn.Y {
				mn.Y = p.Y
			} else if p.Y > mx.Y {
				mx.Y = p.Y
			}
		}
		r := o.Rect()
		same := func(x, y float64) bool { return x == y } // -0 and +0 compare equal: the extremes' sign of zero depends on the order of equal values
		if !(same(r.Min.X, mn.X) && same(r.Min.Y, mn.Y) && same(r.Max.X, mx.X) && same(r.Max.Y, mx.Y)) {
			fl[0] = 0
		}
		mid := func(a, b float64) float64 {
			s := new(big.Float).SetPrec(2200).SetMode(big.ToNearestEven)
			s.Add(new(big.Float).SetPrec(2200).SetFloat64(a), new(big.Float).SetPrec(2200).SetFloat64(b))
			s.Quo(s, big.NewFloat(2))
			f, _ := s.Float64()
			return f
		}
		c := o.Center()
		wantX, wantY := mid(r.Min.X, r.Max.X), mid(r.Min.Y, r.Max.Y)
		if kind == 0 {
			wantX, wantY = pts[0].X, pts[0].Y
		}
		if !(c.X == wantX && c.Y == wantY) {
			fl[1] = 0
		}
	}
	for _, f := range fl {
		if f != 1 {
			return append([]int64{0}, fl...)
		}
	}
	return []int64{1}
}

var floatPool = []float64{0, math.Copysign(0, -1), 0.1, -0.3, 0.7, 10.1, -10.1, 20.3, 179.99999999999997, -180, 90, 1e-7, 1.5e308, 1.7e308, -1.5e308, -1.7e308,
	math.MaxFloat64, -math.MaxFloat64, 5e-324, 1e-323, -5e-324, 1, 2, 3, 1e21, 123456.654321}

func streamFloatAttrs(w *W, rng *rand.Rand, n int) {
	fnum := func() float64 {
		switch rng.Intn(4) {
		case 0:
			return floatPool[rng.Intn(len(floatPool))]
		case 1:
			return float64(rng.Intn(3601)-1800) / 10
		case 2:
			return (rng.Float64() - 0.5) * math.Pow(10, float64(rng.Intn(600)-290))
		}
		return float64(rng.Intn(41) - 20)
	}
	for it := 0; it < n; it++ {
		kind := int64(rng.Intn(5))
		np := 1 + rng.Intn(5)
		args := []int64{kind, int64(np)}
		for i := 0; i < np; i++ {
			args = append(args, int64(math.Float64bits(fnum())), int64(math.Float64bits(fnum())))
		}
		out := w.Do(63, args, true)
		if len(out) == 1 && out[0] == 1 {
			w.count("float-attrs:ok")
		} else {
			w.count("float-attrs:FLAG-FAILED")
		}
	}
}

func bucket(n int) string {
	switch {
	case n == 0:
		return "0"
	case n < 4:
		return "1-3"
	case n < 16:
		return "4-15"
	case n < 64:
		return "16-63"
	}
	return "64+"
}

func init() {
	impls[63] = implFloatAttrs
	streams["C11"] = func(w *W, rng *rand.Rand, tier string) {
		streamC11(w, rng, tier)
		n := 3000
		if tier == "thorough" {
			n = 100000
		}
		streamFloatAttrs(w, rng, n)
	}
	streams["C10"] = streamC10
}
